import GeodeVerif.GenR.Survey
import GeodeVerif.Lemmas.PyRSimp
import Mathlib.Analysis.Calculus.Deriv.Inv
import Mathlib.Analysis.Calculus.Deriv.Pow
import Mathlib.Analysis.Calculus.Deriv.Mul
import Mathlib.Analysis.Calculus.Deriv.Add
import Mathlib.Tactic.FieldSimp
import Mathlib.Tactic.Ring
import Mathlib.Tactic.Linarith
/-!
# C19 — survey reductions (theorems about the regenerated `GenR.Survey` / `GenR.Convert`)

1. `join_radiate`, `radiate_join`, `bearing_range`, `bearing_north`, `bearing_east`, `bearing_south`,
   `bearing_west`, `bearing_west_half`, `bearing_east_half`, `back_bearing_east`, `back_bearing_west`,
   `joins_reverse`
2. `rotation_scale`, `rotation_scale_as_plain`, `rotation_full_turn`, `scale_linear`
3. `va_conv_upper`, `va_conv_lower`, `va_pythagoras`, `va_heights`, `va_rejects`, `va_defined`,
   `va_second_range`
4. `fvc_closed_form`, `fvc_proportional_closed`, `fvc_ciddor_form`, `fvc_proportional_co2`,
   `fvc_scale_closed`, `fvc_scale_co2`
5. `fvc_defined_closed`, `fvc_defined_closed_wet`, `fvc_defined_co2` (+ the rejected cases)
6. `group_is_phase_plus_dispersion`
7. `density_terms_shared`

Model caveat: the real-number reading has total division (`x / 0 = 0`), so the `fvc_defined_*`
theorems speak about the decision logic (no `ValueError`), not about `ZeroDivisionError` at
`temp = -273.15` or `wet_temp = -240.94`.
-/
namespace GeodeVerif.C19
open PyR GenR.Survey GenR.Convert

/-! ### joins / radiations / rect2polar -/

/-- the guard `if theta >= 360: theta = 0.0` (fix 2b… in /repo: in binary64 `degrees(theta) + 360` rounds to 360.0 for a direction less
than half an ulp west of north) is never taken in exact arithmetic: for `θ < 0` the sum is below 360.  So over ℝ `rect2polar` is the
two-branch expression it was before the guard. -/
theorem rect2polar_eq (x y : ℝ) :
    rect2polar x y =
      (PyR.sqrt (PyR.pown x 2 + PyR.pown y 2),
       if PyR.atan2 x y < 0 then PyR.degrees (PyR.atan2 x y) + 360 else PyR.degrees (PyR.atan2 x y)) := by
  unfold rect2polar
  by_cases h : PyR.atan2 x y < 0
  · have hd : PyR.degrees (PyR.atan2 x y) < 0 := by
      simp only [degrees_def]
      exact mul_neg_of_neg_of_pos h (by positivity)
    have hg : ¬ (PyR.degrees (PyR.atan2 x y) + 360 ≥ 360) := by linarith
    simp only [if_pos h, if_neg hg]
  · simp only [if_neg h]

/-- rect2polar returns the Euclidean norm and an angle whose sin/cos reproduce the vector. -/
theorem rect2polar_spec (x y : ℝ) :
    (rect2polar x y).1 = Real.sqrt (x ^ 2 + y ^ 2) ∧
    (rect2polar x y).1 * Real.sin (PyR.radians (rect2polar x y).2) = x ∧
    (rect2polar x y).1 * Real.cos (PyR.radians (rect2polar x y).2) = y := by
  have hn : ‖(⟨y, x⟩ : ℂ)‖ = Real.sqrt (x ^ 2 + y ^ 2) := by
    rw [Complex.norm_def, Complex.normSq_mk]; congr 1; ring
  have hs := Complex.norm_mul_sin_arg (⟨y, x⟩ : ℂ)
  have hc := Complex.norm_mul_cos_arg (⟨y, x⟩ : ℂ)
  rw [hn] at hs hc
  simp only at hs hc
  rw [rect2polar_eq]
  simp only [sqrt_def, pown_def, atan2_def]
  refine ⟨trivial, ?_, ?_⟩ <;> split_ifs <;>
    simp only [radians_add, radians_degrees, radians_360, Real.sin_add_two_pi, Real.cos_add_two_pi] <;>
    assumption

/-- C19.1 join→radiate: radiating from point 1 with the joined distance and bearing gives point 2. -/
theorem join_radiate (e1 n1 e2 n2 : ℝ) :
    radiations e1 n1 (joins e1 n1 e2 n2).2 (joins e1 n1 e2 n2).1 0 1 = (e2, n2) := by
  obtain ⟨_, hs, hc⟩ := rect2polar_spec (e2 - e1) (n2 - n1)
  unfold radiations joins polar2rect
  simp only [sin_def, cos_def, add_zero, mul_one]
  rw [hs, hc]
  simp

private theorem degrees_lt {t : ℝ} (a : ℝ) (h : t < a) : PyR.degrees t < PyR.degrees a := by
  simp only [degrees_def]
  exact mul_lt_mul_of_pos_right h (by positivity)

private theorem degrees_le {t : ℝ} (a : ℝ) (h : t ≤ a) : PyR.degrees t ≤ PyR.degrees a := by
  simp only [degrees_def]
  exact mul_le_mul_of_nonneg_right h (by positivity)

private theorem degrees_pi : PyR.degrees Real.pi = 180 := by
  simp only [degrees_def]; field_simp

private theorem degrees_zero : PyR.degrees 0 = 0 := by
  simp only [degrees_def]; ring

theorem bearing_range (x y : ℝ) :
    0 ≤ (rect2polar x y).2 ∧ (rect2polar x y).2 < 360 := by
  have h1 := Complex.neg_pi_lt_arg (⟨y, x⟩ : ℂ)
  have h2 := Complex.arg_le_pi (⟨y, x⟩ : ℂ)
  have d1 := degrees_lt _ h1
  have d2 := degrees_le _ h2
  rw [degrees_pi] at d2
  have d3 : PyR.degrees (-Real.pi) = -180 := by
    simp only [degrees_def]; field_simp
  rw [d3] at d1
  rw [rect2polar_eq]
  simp only [atan2_def]
  split_ifs with h
  · have d4 := degrees_lt _ h
    rw [degrees_zero] at d4
    constructor <;> linarith
  · have d4 := degrees_le _ (not_lt.mp h)
    rw [degrees_zero] at d4
    constructor <;> linarith

theorem bearing_north (y : ℝ) (hy : 0 < y) : (rect2polar 0 y).2 = 0 := by
  have h : Complex.arg (⟨y, 0⟩ : ℂ) = 0 := Complex.arg_ofReal_of_nonneg hy.le
  rw [rect2polar_eq]
  simp only [atan2_def]
  simp only [h, lt_irrefl, if_false, degrees_zero]

theorem bearing_east (x : ℝ) (hx : 0 < x) : (rect2polar x 0).2 = 90 := by
  have h : Complex.arg (⟨0, x⟩ : ℂ) = Real.pi / 2 :=
    Complex.arg_eq_pi_div_two_iff.mpr ⟨rfl, hx⟩
  have hp : ¬ (Real.pi / 2 < 0) := not_lt.mpr (by positivity)
  rw [rect2polar_eq]
  simp only [atan2_def]
  simp only [h, hp, if_false, degrees_def]
  field_simp
  norm_num

/-- due south is exactly 180 (the `atan2 = π` edge of the "not negative" branch). -/
theorem bearing_south (y : ℝ) (hy : y < 0) : (rect2polar 0 y).2 = 180 := by
  have h : Complex.arg (⟨y, 0⟩ : ℂ) = Real.pi := Complex.arg_ofReal_of_neg hy
  have hp : ¬ (Real.pi < 0) := not_lt.mpr Real.pi_pos.le
  rw [rect2polar_eq]
  simp only [atan2_def]
  simp only [h, hp, if_false, degrees_pi]

/-- due west is exactly 270 (the wrapped branch: `degrees(-π/2) + 360`). -/
theorem bearing_west (x : ℝ) (hx : x < 0) : (rect2polar x 0).2 = 270 := by
  have h : Complex.arg (⟨0, x⟩ : ℂ) = -(Real.pi / 2) :=
    Complex.arg_eq_neg_pi_div_two_iff.mpr ⟨rfl, hx⟩
  have hp : -(Real.pi / 2) < 0 := by linarith [Real.pi_pos]
  rw [rect2polar_eq]
  simp only [atan2_def]
  simp only [h, hp, if_true, degrees_def]
  field_simp
  norm_num

/-- the western half-plane is exactly the bearings above 180: with a negative easting
difference the wrapped branch is taken and the bearing lies in (180, 360). -/
theorem bearing_west_half (x y : ℝ) (hx : x < 0) :
    180 < (rect2polar x y).2 ∧ (rect2polar x y).2 < 360 := by
  have hneg : Complex.arg (⟨y, x⟩ : ℂ) < 0 := Complex.arg_neg_iff.mpr hx
  have h1 := Complex.neg_pi_lt_arg (⟨y, x⟩ : ℂ)
  have d1 := degrees_lt _ h1
  have d3 : PyR.degrees (-Real.pi) = -180 := by
    simp only [degrees_def]; field_simp
  rw [d3] at d1
  have d4 := degrees_lt _ hneg
  rw [degrees_zero] at d4
  rw [rect2polar_eq]
  simp only [atan2_def]
  simp only [if_pos hneg]
  constructor <;> linarith

theorem bearing_east_half (x y : ℝ) (hx : 0 < x) :
    0 < (rect2polar x y).2 ∧ (rect2polar x y).2 < 180 := by
  have hnn : 0 ≤ Complex.arg (⟨y, x⟩ : ℂ) := Complex.arg_nonneg_iff.mpr hx.le
  have hne0 : Complex.arg (⟨y, x⟩ : ℂ) ≠ 0 := by
    intro h; have := (Complex.arg_eq_zero_iff.mp h).2; simp at this; linarith
  have hnepi : Complex.arg (⟨y, x⟩ : ℂ) ≠ Real.pi := by
    intro h; have := (Complex.arg_eq_pi_iff.mp h).2; simp at this; linarith
  have hpos : 0 < Complex.arg (⟨y, x⟩ : ℂ) := lt_of_le_of_ne hnn (Ne.symm hne0)
  have hlt : Complex.arg (⟨y, x⟩ : ℂ) < Real.pi := lt_of_le_of_ne (Complex.arg_le_pi _) hnepi
  have d1 := degrees_lt _ hpos
  have d2 := degrees_lt _ hlt
  rw [degrees_zero] at d1; rw [degrees_pi] at d2
  rw [rect2polar_eq]
  simp only [atan2_def]
  simp only [if_neg (not_lt.mpr hnn)]
  exact ⟨d1, d2⟩

/-- the back bearing: swapping the two points of a join turns the bearing by exactly 180. -/
theorem back_bearing_east (x y : ℝ) (hx : 0 < x) :
    (rect2polar (-x) (-y)).2 = (rect2polar x y).2 + 180 := by
  have hz : (⟨-y, -x⟩ : ℂ) = -(⟨y, x⟩ : ℂ) := by apply Complex.ext <;> simp
  have ha : Complex.arg (⟨-y, -x⟩ : ℂ) = Complex.arg (⟨y, x⟩ : ℂ) - Real.pi := by
    rw [hz]; exact Complex.arg_neg_eq_arg_sub_pi_of_im_pos hx
  have hnn : 0 ≤ Complex.arg (⟨y, x⟩ : ℂ) := Complex.arg_nonneg_iff.mpr hx.le
  have hneg : Complex.arg (⟨-y, -x⟩ : ℂ) < 0 := Complex.arg_neg_iff.mpr (by simpa using hx)
  rw [rect2polar_eq, rect2polar_eq]
  simp only [atan2_def]
  rw [if_pos hneg, if_neg (not_lt.mpr hnn), ha]
  simp only [degrees_def]
  field_simp
  ring

theorem back_bearing_west (x y : ℝ) (hx : x < 0) :
    (rect2polar (-x) (-y)).2 = (rect2polar x y).2 - 180 := by
  have hz : (⟨-y, -x⟩ : ℂ) = -(⟨y, x⟩ : ℂ) := by apply Complex.ext <;> simp
  have ha : Complex.arg (⟨-y, -x⟩ : ℂ) = Complex.arg (⟨y, x⟩ : ℂ) + Real.pi := by
    rw [hz]; exact Complex.arg_neg_eq_arg_add_pi_of_im_neg hx
  have hneg : Complex.arg (⟨y, x⟩ : ℂ) < 0 := Complex.arg_neg_iff.mpr hx
  have hnn : 0 ≤ Complex.arg (⟨-y, -x⟩ : ℂ) := Complex.arg_nonneg_iff.mpr (by simp; linarith)
  rw [rect2polar_eq, rect2polar_eq]
  simp only [atan2_def]
  rw [if_pos hneg, if_neg (not_lt.mpr hnn), ha]
  simp only [degrees_def]
  field_simp
  ring

/-- C19.1 (both directions of a line): joining the two points the other way round gives the
same distance and the back bearing — the forward bearing turned by exactly 180 (here for a line
running east; `back_bearing_west` is the other half, and on the meridian `bearing_north/south`). -/
theorem joins_reverse (e1 n1 e2 n2 : ℝ) (h : e1 < e2) :
    (joins e2 n2 e1 n1).1 = (joins e1 n1 e2 n2).1 ∧
    (joins e2 n2 e1 n1).2 = (joins e1 n1 e2 n2).2 + 180 := by
  have he : e1 - e2 = -(e2 - e1) := by ring
  have hn : n1 - n2 = -(n2 - n1) := by ring
  unfold joins
  rw [he, hn]
  refine ⟨?_, back_bearing_east _ _ (by linarith)⟩
  rw [rect2polar_eq, rect2polar_eq]
  simp only [pown_def, sqrt_def]
  congr 1; ring

/-- `joins_reverse` for a line running west: the back bearing is the forward bearing − 180. -/
theorem joins_reverse_west (e1 n1 e2 n2 : ℝ) (h : e2 < e1) :
    (joins e2 n2 e1 n1).1 = (joins e1 n1 e2 n2).1 ∧
    (joins e2 n2 e1 n1).2 = (joins e1 n1 e2 n2).2 - 180 := by
  have he : e1 - e2 = -(e2 - e1) := by ring
  have hn : n1 - n2 = -(n2 - n1) := by ring
  unfold joins
  rw [he, hn]
  refine ⟨?_, back_bearing_west _ _ (by linarith)⟩
  rw [rect2polar_eq, rect2polar_eq]
  simp only [pown_def, sqrt_def]
  congr 1; ring

/-- `joins_reverse` on a meridian (same easting): north (0) one way, south (180) the other. -/
theorem joins_reverse_meridian (e n1 n2 : ℝ) (h : n1 < n2) :
    (joins e n1 e n2).2 = 0 ∧ (joins e n2 e n1).2 = 180 := by
  unfold joins
  rw [sub_self]
  exact ⟨bearing_north _ (by linarith), bearing_south _ (by linarith)⟩

/-- the bearing does not depend on the unit of length: scaling both components by `k > 0` keeps the bearing and
multiplies the distance by `k`. -/
theorem rect2polar_scale (x y k : ℝ) (hk : 0 < k) :
    (rect2polar (k * x) (k * y)).1 = k * (rect2polar x y).1 ∧
    (rect2polar (k * x) (k * y)).2 = (rect2polar x y).2 := by
  have hz : (⟨k * y, k * x⟩ : ℂ) = (k : ℂ) * (⟨y, x⟩ : ℂ) := by apply Complex.ext <;> simp
  have ha : Complex.arg (⟨k * y, k * x⟩ : ℂ) = Complex.arg (⟨y, x⟩ : ℂ) := by
    rw [hz]; exact Complex.arg_real_mul _ hk
  rw [rect2polar_eq, rect2polar_eq]
  simp only [atan2_def, ha, pown_def, sqrt_def, and_true]
  have h2 : (k * x) ^ 2 + (k * y) ^ 2 = k ^ 2 * (x ^ 2 + y ^ 2) := by ring
  rw [h2, Real.sqrt_mul (sq_nonneg k), Real.sqrt_sq hk.le]

theorem rotation_scale (e n b d ρ k : ℝ) :
    radiations e n b d ρ k =
      (e + k * d * Real.sin ((b + ρ) * (Real.pi / 180)),
       n + k * d * Real.cos ((b + ρ) * (Real.pi / 180))) := by
  unfold radiations polar2rect
  simp only [sin_def, cos_def, radians_def, mul_comm d k]

/-- the rotation and scale arguments are a bearing shift and a distance factor: radiating with rotation ρ and scale k is the plain
radiation (rotation 0, scale 1) of bearing `b + ρ` and distance `k·d`. -/
theorem rotation_scale_as_plain (e n b d ρ k : ℝ) :
    radiations e n b d ρ k = radiations e n (b + ρ) (k * d) 0 1 := by
  rw [rotation_scale, rotation_scale]
  simp only [add_zero, one_mul]

/-- a rotation by a full turn changes nothing. -/
theorem rotation_full_turn (e n b d ρ k : ℝ) :
    radiations e n b d (ρ + 360) k = radiations e n b d ρ k := by
  rw [rotation_scale, rotation_scale]
  have h : (b + (ρ + 360)) * (Real.pi / 180) = (b + ρ) * (Real.pi / 180) + 2 * Real.pi := by ring
  rw [h, Real.sin_add_two_pi, Real.cos_add_two_pi]

/-- scale factors compose: the vector radiated with scale `k` is `k` times the vector radiated with scale 1. -/
theorem scale_linear (e n b d ρ k : ℝ) :
    (radiations e n b d ρ k).1 - e = k * ((radiations e n b d ρ 1).1 - e) ∧
    (radiations e n b d ρ k).2 - n = k * ((radiations e n b d ρ 1).2 - n) := by
  rw [rotation_scale, rotation_scale]
  constructor <;> simp only <;> ring

/-! ### va_conv -/

/-- explicit result of `va_conv` for a zenith angle in (0°, 180°) -/
theorem va_conv_upper (za sd hi ht : ℝ) (h0 : 0 < za) (h1 : za < 180) :
    va_conv za sd hi ht = .ok
      (PyR.degrees (Real.arctan ((hi + sd * Real.sin (PyR.radians (90 - za)) - ht) /
          (sd * Real.cos (PyR.radians (90 - za))))),
       Real.sqrt ((hi + sd * Real.sin (PyR.radians (90 - za)) - ht) ^ 2 +
          (sd * Real.cos (PyR.radians (90 - za))) ^ 2),
       sd * Real.cos (PyR.radians (90 - za)),
       hi + sd * Real.sin (PyR.radians (90 - za)) - ht) := by
  have hn : ¬ (za = 0 ∨ za = 180) := by
    rintro (h | h) <;> linarith
  unfold va_conv
  simp only [feq, if_neg hn, h0, h1, and_self, if_true]
  rfl

/-- explicit result of `va_conv` for a zenith angle in (180°, 360°) (face right) -/
theorem va_conv_lower (za sd hi ht : ℝ) (h0 : 180 < za) (h1 : za < 360) :
    va_conv za sd hi ht = .ok
      (PyR.degrees (Real.arctan ((hi + sd * Real.sin (PyR.radians (270 - za)) - ht) /
          (sd * Real.cos (PyR.radians (270 - za))))),
       Real.sqrt ((hi + sd * Real.sin (PyR.radians (270 - za)) - ht) ^ 2 +
          (sd * Real.cos (PyR.radians (270 - za))) ^ 2),
       sd * Real.cos (PyR.radians (270 - za)),
       hi + sd * Real.sin (PyR.radians (270 - za)) - ht) := by
  have hn : ¬ (za = 0 ∨ za = 180) := by
    rintro (h | h) <;> linarith
  have hu : ¬ (0 < za ∧ za < 180) := fun h => by linarith [h.2]
  unfold va_conv
  simp only [feq, if_neg hn, if_neg hu, h0, h1, and_self, if_true]
  rfl

/-- how the code reads the second range: a zenith angle `za + 180` in (180°, 360°) is reduced exactly as `za` in (0°, 180°)
(`270 − (za + 180) = 90 − za`), all four outputs included — so every statement proved on (0, 180) transfers to (180, 360). -/
theorem va_second_range (za sd hi ht : ℝ) (h0 : 0 < za) (h1 : za < 180) :
    va_conv (za + 180) sd hi ht = va_conv za sd hi ht := by
  have h : (270 : ℝ) - (za + 180) = 90 - za := by ring
  rw [va_conv_upper _ _ _ _ h0 h1, va_conv_lower _ _ _ _ (by linarith) (by linarith), h]

/-- `va_conv` raises `ValueError` exactly outside (0,180) ∪ (180,360): this direction. -/
theorem va_rejects (za sd hi ht : ℝ) (hu : ¬ (0 < za ∧ za < 180)) (hl : ¬ (180 < za ∧ za < 360)) :
    va_conv za sd hi ht = .error .ValueError := by
  unfold va_conv
  split_ifs
  · rfl
  · rfl

theorem va_rejects_zero (sd hi ht : ℝ) : va_conv 0 sd hi ht = .error .ValueError :=
  va_rejects 0 sd hi ht (fun h => lt_irrefl _ h.1) (fun h => by linarith [h.1])

theorem va_rejects_180 (sd hi ht : ℝ) : va_conv 180 sd hi ht = .error .ValueError :=
  va_rejects 180 sd hi ht (fun h => lt_irrefl _ h.2) (fun h => lt_irrefl _ h.1)

/-- and conversely `va_conv` returns a value on (0,180) ∪ (180,360). -/
theorem va_defined (za sd hi ht : ℝ) (h : (0 < za ∧ za < 180) ∨ (180 < za ∧ za < 360)) :
    ∃ r, va_conv za sd hi ht = .ok r := by
  rcases h with h | h
  · exact ⟨_, va_conv_upper za sd hi ht h.1 h.2⟩
  · exact ⟨_, va_conv_lower za sd hi ht h.1 h.2⟩

/-- Pythagoras: with zero instrument/target heights, hz² + Δh² = slope², both faces. -/
theorem va_pythagoras (za sd v s hz dh : ℝ) (h : (0 < za ∧ za < 180) ∨ (180 < za ∧ za < 360))
    (hr : va_conv za sd 0 0 = .ok (v, s, hz, dh)) :
    hz ^ 2 + dh ^ 2 = sd ^ 2 ∧ s = |sd| := by
  rcases h with h | h
  · rw [va_conv_upper za sd 0 0 h.1 h.2] at hr
    injection hr with hr
    simp only [Prod.mk.injEq] at hr
    obtain ⟨_, hs, hhz, hdh⟩ := hr
    have key : hz ^ 2 + dh ^ 2 = sd ^ 2 := by
      rw [← hhz, ← hdh]
      have := Real.cos_sq_add_sin_sq (PyR.radians (90 - za))
      linear_combination sd ^ 2 * this
    refine ⟨key, ?_⟩
    rw [← hs, hhz, hdh, add_comm, key, Real.sqrt_sq_eq_abs]
  · rw [va_conv_lower za sd 0 0 h.1 h.2] at hr
    injection hr with hr
    simp only [Prod.mk.injEq] at hr
    obtain ⟨_, hs, hhz, hdh⟩ := hr
    have key : hz ^ 2 + dh ^ 2 = sd ^ 2 := by
      rw [← hhz, ← hdh]
      have := Real.cos_sq_add_sin_sq (PyR.radians (270 - za))
      linear_combination sd ^ 2 * this
    refine ⟨key, ?_⟩
    rw [← hs, hhz, hdh, add_comm, key, Real.sqrt_sq_eq_abs]

/-- heights: hz does not depend on the instrument/target heights and Δh = hᵢ + Δh₀ − hₜ. -/
theorem va_heights (za sd hi ht v s hz dh v0 s0 hz0 dh0 : ℝ)
    (hr : va_conv za sd hi ht = .ok (v, s, hz, dh))
    (hr0 : va_conv za sd 0 0 = .ok (v0, s0, hz0, dh0)) :
    hz = hz0 ∧ dh = hi + dh0 - ht := by
  by_cases hu : 0 < za ∧ za < 180
  · rw [va_conv_upper za sd _ _ hu.1 hu.2] at hr hr0
    injection hr with hr; injection hr0 with hr0
    simp only [Prod.mk.injEq] at hr hr0
    obtain ⟨_, _, hhz, hdh⟩ := hr
    obtain ⟨_, _, hhz0, hdh0⟩ := hr0
    refine ⟨by rw [← hhz, ← hhz0], ?_⟩
    rw [← hdh, ← hdh0]; ring
  · by_cases hl : 180 < za ∧ za < 360
    · rw [va_conv_lower za sd _ _ hl.1 hl.2] at hr hr0
      injection hr with hr; injection hr0 with hr0
      simp only [Prod.mk.injEq] at hr hr0
      obtain ⟨_, _, hhz, hdh⟩ := hr
      obtain ⟨_, _, hhz0, hdh0⟩ := hr0
      refine ⟨by rw [← hhz, ← hhz0], ?_⟩
      rw [← hdh, ← hdh0]; ring
    · rw [va_rejects za sd hi ht hu hl] at hr
      cases hr

example : ∃ v s hz dh : ℝ, va_conv 60 10 0 0 = .ok (v, s, hz, dh) :=
  ⟨_, _, _, _, va_conv_upper 60 10 0 0 (by norm_num) (by norm_num)⟩

private theorem arg_polar (d θ : ℝ) (hd : 0 < d) (hθ : θ ∈ Set.Ioc (-Real.pi) Real.pi) :
    Complex.arg (⟨d * Real.cos θ, d * Real.sin θ⟩ : ℂ) = θ := by
  have : (⟨d * Real.cos θ, d * Real.sin θ⟩ : ℂ) =
      (d : ℂ) * (Complex.cos θ + Complex.sin θ * Complex.I) := by
    apply Complex.ext <;>
      simp [Complex.cos_ofReal_re, Complex.sin_ofReal_re, Complex.cos_ofReal_im, Complex.sin_ofReal_im]
  rw [this]
  exact Complex.arg_mul_cos_add_sin_mul_I hd hθ

/-- C19.1 radiate→join: joining to the radiated point recovers distance and bearing. -/
theorem radiate_join (e n brg dist : ℝ) (hb0 : 0 ≤ brg) (hb1 : brg < 360) (hd : 0 < dist) :
    joins e n (radiations e n brg dist 0 1).1 (radiations e n brg dist 0 1).2 = (dist, brg) := by
  have hpi := Real.pi_pos
  have hr : Real.sqrt ((dist * Real.sin (PyR.radians brg)) ^ 2 +
      (dist * Real.cos (PyR.radians brg)) ^ 2) = dist := by
    have : (dist * Real.sin (PyR.radians brg)) ^ 2 + (dist * Real.cos (PyR.radians brg)) ^ 2
        = dist ^ 2 := by
      have := Real.sin_sq_add_cos_sq (PyR.radians brg)
      linear_combination dist ^ 2 * this
    rw [this, Real.sqrt_sq hd.le]
  unfold joins radiations polar2rect
  simp only [rect2polar_eq]
  simp only [sin_def, cos_def, add_zero, mul_one, add_sub_cancel_left, sqrt_def, pown_def,
    atan2_def, hr]
  by_cases hb : brg ≤ 180
  · have hθ : PyR.radians brg ∈ Set.Ioc (-Real.pi) Real.pi := by
      simp only [radians_def, Set.mem_Ioc]
      constructor
      · have : 0 ≤ brg * (Real.pi / 180) := by positivity
        linarith
      · have : brg * (Real.pi / 180) ≤ 180 * (Real.pi / 180) :=
          mul_le_mul_of_nonneg_right hb (by positivity)
        linarith
    rw [arg_polar _ _ hd hθ]
    have : ¬ (PyR.radians brg < 0) := by
      simp only [radians_def, not_lt]; positivity
    rw [if_neg this, degrees_radians]
  · have hb := not_le.mp hb
    have hθ : PyR.radians brg - 2 * Real.pi ∈ Set.Ioc (-Real.pi) Real.pi := by
      simp only [radians_def, Set.mem_Ioc]
      have h1 : 180 * (Real.pi / 180) < brg * (Real.pi / 180) :=
        mul_lt_mul_of_pos_right hb (by positivity)
      have h2 : brg * (Real.pi / 180) < 360 * (Real.pi / 180) :=
        mul_lt_mul_of_pos_right hb1 (by positivity)
      constructor <;> linarith
    have hneg : PyR.radians brg - 2 * Real.pi < 0 := by
      simp only [radians_def]
      have h2 : brg * (Real.pi / 180) < 360 * (Real.pi / 180) :=
        mul_lt_mul_of_pos_right hb1 (by positivity)
      linarith
    have := arg_polar dist _ hd hθ
    rw [Real.cos_sub_two_pi, Real.sin_sub_two_pi] at this
    rw [this, if_pos hneg]
    congr 1
    simp only [radians_def, degrees_def]
    field_simp
    ring

/-! ### first_vel_corrn -/

/-- `part_h2o_vap_press` with a relative humidity returns a value for EVERY humidity (incl. 0). -/
theorem vap_press_rh (t p rh : ℝ) (wt : Option ℝ) :
    part_h2o_vap_press t p (some rh) wt = .ok
      ((((PyR.dec 10007 4) + (((PyR.dec 346 2) * p) * (PyR.powz 10 (-6)))) * (PyR.dec 61121 4)) *
        (Real.exp (((PyR.dec 17502 3) * t) / ((PyR.dec 24094 2) + t))) * rh / 100) := by
  unfold part_h2o_vap_press
  simp only [Option.isNone_some, Bool.false_eq_true, false_and, if_false, not_false_eq_true,
    if_true, unopt_some, exp_def]

/-- `part_h2o_vap_press` with a wet-bulb temperature (no humidity) returns a value for EVERY
wet-bulb temperature (incl. 0). -/
theorem vap_press_wet (t p wt : ℝ) :
    part_h2o_vap_press t p none (some wt) = .ok
      ((((PyR.dec 10007 4) + (((PyR.dec 346 2) * p) * (PyR.powz 10 (-6)))) * (PyR.dec 61121 4)) *
        (Real.exp (((PyR.dec 17502 3) * wt) / ((PyR.dec 24094 2) + wt))) -
        ((PyR.dec 662 6) * p) * (t - wt)) := by
  unfold part_h2o_vap_press
  simp only [Option.isNone_some, Option.isNone_none, Bool.false_eq_true, and_false, if_false,
    not_true_eq_false, unopt_some, exp_def]

/-- closed-formula branch (no CO₂ given): the correction is `dist × c`, with `c` explicit. -/
theorem fvc_closed_form (dist t p e : ℝ) (prm : ℝ × ℝ) (rh wt wl : Option ℝ)
    (he : part_h2o_vap_press t p rh wt = .ok e) :
    first_vel_corrn dist prm t p rh wt none wl = .ok
      (dist * (((prm.1 - prm.2 * p / (t + 273.15)) + 11.27 * e / (t + 273.15)) * 10 ^ (-6 : ℤ))) := by
  unfold first_vel_corrn
  simp only [truthyO_none, not_false_eq_true, if_true, he, Except.bind, powz_def, dec_def]
  congr 1
  norm_num
  ring


/-- C19.4a: in the closed-formula branch the correction is proportional to the distance
(whenever the vapour pressure is defined, i.e. humidity or wet-bulb given). -/
theorem fvc_proportional_closed (t p : ℝ) (prm : ℝ × ℝ) (rh wt wl : Option ℝ)
    (hd : ¬ (rh.isNone = true ∧ wt.isNone = true)) :
    ∃ c : ℝ, ∀ dist : ℝ, first_vel_corrn dist prm t p rh wt none wl = .ok (dist * c) := by
  have he : ∃ e, part_h2o_vap_press t p rh wt = .ok e := by
    unfold part_h2o_vap_press
    rw [if_neg hd]
    exact ⟨_, rfl⟩
  obtain ⟨e, he⟩ := he
  exact ⟨_, fun dist => fvc_closed_form dist t p e prm rh wt wl he⟩

/-- scaling form of proportionality, closed branch -/
theorem fvc_scale_closed (k dist t p v : ℝ) (prm : ℝ × ℝ) (rh wt wl : Option ℝ)
    (h : first_vel_corrn dist prm t p rh wt none wl = .ok v) :
    first_vel_corrn (k * dist) prm t p rh wt none wl = .ok (k * v) := by
  by_cases hd : rh.isNone = true ∧ wt.isNone = true
  · exfalso
    unfold first_vel_corrn part_h2o_vap_press at h
    simp only [truthyO_none, not_false_eq_true, if_true, if_pos hd, Except.bind] at h
    cases h
  · obtain ⟨c, hc⟩ := fvc_proportional_closed t p prm rh wt wl hd
    rw [hc dist] at h
    injection h with h
    rw [hc (k * dist), ← h, mul_assoc]

/-- C19.5 (closed branch): defined for every temperature, pressure and EVERY relative humidity,
including `rh = 0` and `temp = 0`. -/
theorem fvc_defined_closed (dist t p rh : ℝ) (prm : ℝ × ℝ) :
    ∃ v, first_vel_corrn dist prm t p (some rh) none none none = .ok v :=
  ⟨_, fvc_closed_form dist t p _ prm _ _ _ (vap_press_rh t p rh none)⟩

/-- C19.5 (closed branch, wet bulb): defined for every wet-bulb temperature including 0. -/
theorem fvc_defined_closed_wet (dist t p wt : ℝ) (prm : ℝ × ℝ) :
    ∃ v, first_vel_corrn dist prm t p none (some wt) none none = .ok v :=
  ⟨_, fvc_closed_form dist t p _ prm _ _ _ (vap_press_wet t p wt)⟩

example : ∃ v, first_vel_corrn 1000 (281.8, 79.4) 0 1013.25 (some 0) none none none = .ok v :=
  fvc_defined_closed _ _ _ _ _
example : ∃ v, first_vel_corrn 1000 (281.8, 79.4) 0 1013.25 none (some 0) none none = .ok v :=
  fvc_defined_closed_wet _ _ _ _ _

/-- neither humidity nor wet bulb: `ValueError` (the only rejected case of the closed branch) -/
theorem fvc_rejects_no_humidity (dist t p : ℝ) (prm : ℝ × ℝ) (wl : Option ℝ) :
    first_vel_corrn dist prm t p none none none wl = .error .ValueError := by
  unfold first_vel_corrn part_h2o_vap_press
  simp only [truthyO_none, not_false_eq_true, if_true, if_false, Option.isNone_none, and_self, Except.bind]

/-- C19.4b: the CO₂ (Ciddor) branch is `(n_ref / n_g − 1) · dist`, `n_ref = 1 + C·10⁻⁶`,
`n_g = 1 + N_g·10⁻⁸`, `N_g` the group refractivity at the ambient atmosphere. -/
theorem fvc_ciddor_form (dist t p rh co2 wl : ℝ) (prm : ℝ × ℝ) (wt : Option ℝ) (hc : co2 ≠ 0) :
    first_vel_corrn dist prm t p (some rh) wt (some co2) (some wl) = .ok
      (((1 + prm.1 / 10 ^ 6) /
        (1 + group_refractivity wl t p (humidity2part_water_vapour_press rh t) co2 / 10 ^ 8) - 1)
        * dist) := by
  unfold first_vel_corrn
  simp only [truthyO_some, ne_eq, hc, not_false_eq_true, not_true_eq_false, if_false,
    Option.isNone_some, Bool.false_eq_true, and_self, if_true, unopt_some, Except.bind]
  congr 1
  norm_num

theorem fvc_proportional_co2 (t p rh co2 wl : ℝ) (prm : ℝ × ℝ) (wt : Option ℝ) (hc : co2 ≠ 0) :
    ∃ c : ℝ, ∀ dist : ℝ,
      first_vel_corrn dist prm t p (some rh) wt (some co2) (some wl) = .ok (dist * c) :=
  ⟨_, fun dist => by rw [fvc_ciddor_form dist t p rh co2 wl prm wt hc, mul_comm]⟩

theorem fvc_scale_co2 (k dist t p rh co2 wl v : ℝ) (prm : ℝ × ℝ) (wt : Option ℝ) (hc : co2 ≠ 0)
    (h : first_vel_corrn dist prm t p (some rh) wt (some co2) (some wl) = .ok v) :
    first_vel_corrn (k * dist) prm t p (some rh) wt (some co2) (some wl) = .ok (k * v) := by
  rw [fvc_ciddor_form _ t p rh co2 wl prm wt hc] at h ⊢
  injection h with h
  rw [← h]; congr 1; ring

/-- C19.5 (CO₂ branch): defined for every non-zero CO₂ content, EVERY humidity and temperature
(including 0 % and 0 °C) and every wavelength. -/
theorem fvc_defined_co2 (dist t p rh co2 wl : ℝ) (prm : ℝ × ℝ) (hc : co2 ≠ 0) :
    ∃ v, first_vel_corrn dist prm t p (some rh) none (some co2) (some wl) = .ok v :=
  ⟨_, fvc_ciddor_form dist t p rh co2 wl prm none hc⟩

example : ∃ v, first_vel_corrn 1000 (281.8, 79.4) 0 1013.25 (some 0) none (some 420) (some 0.85)
    = .ok v := fvc_defined_co2 _ _ _ _ _ _ _ (by norm_num)

/-- CO₂ branch without humidity or without wavelength: `ValueError`. -/
theorem fvc_rejects_co2_missing (dist t p co2 : ℝ) (prm : ℝ × ℝ) (rh wt wl : Option ℝ)
    (hc : co2 ≠ 0) (hm : rh = none ∨ wl = none) :
    first_vel_corrn dist prm t p rh wt (some co2) wl = .error .ValueError := by
  unfold first_vel_corrn
  rcases hm with h | h <;> subst h <;>
    simp [truthyO_some, hc, Except.bind]

/-! ### group refractivity = phase refractivity + σ · d(phase)/dσ -/

/-- shape of the Ciddor phase refractivity as a function of the wavenumber `s`;
`Da`, `Dv` the density ratios and `c` the CO₂ factor. -/
noncomputable def phaseT (K0 K1 K2 K3 W0 W1 W2 W3 CF Da Dv c s : ℝ) : ℝ :=
  Da * ((K1 / (K0 - s * s) + K3 / (K2 - s * s)) * c) +
  Dv * (CF * (W0 + W1 * (s * s) + W2 * ((s * s) * (s * s)) + W3 * ((s * s) * ((s * s) * (s * s)))))

/-- shape of the Ciddor group refractivity -/
noncomputable def groupT (K0 K1 K2 K3 W0 W1 W2 W3 CF Da Dv c s : ℝ) : ℝ :=
  Da * ((K1 * ((K0 + s * s) / ((K0 - s * s) * (K0 - s * s))) +
         K3 * ((K2 + s * s) / ((K2 - s * s) * (K2 - s * s)))) * c) +
  Dv * (CF * (W0 + 3 * W1 * (s * s) + 5 * W2 * ((s * s) * (s * s)) +
    7 * W3 * ((s * s) * ((s * s) * (s * s)))))

theorem density_terms_shared (TC P PV XC : ℝ) : ∃ Da Dv c : ℝ, ∀ L : ℝ,
    phase_refractivity L TC P PV XC =
      phaseT (dec 2380185 4) 5792105 (dec 57362 3) 167917
        (dec 295235 3) (dec 26422 4) (-(dec 3238 5)) (dec 4028 6) (dec 1022 3) Da Dv c (1 / L) ∧
    group_refractivity L TC P PV XC =
      groupT (dec 2380185 4) 5792105 (dec 57362 3) 167917
        (dec 295235 3) (dec 26422 4) (-(dec 3238 5)) (dec 4028 6) (dec 1022 3) Da Dv c (1 / L) := by
  unfold phase_refractivity group_refractivity refractivity_constants phaseT groupT
  simp only []
  exact ⟨_, _, _, fun L => ⟨rfl, rfl⟩⟩


/-- derivative of `phaseT` with respect to the wavenumber -/
noncomputable def dphaseT (K0 K1 K2 K3 W1 W2 W3 CF Da Dv c s : ℝ) : ℝ :=
  Da * ((K1 * (2 * s) / ((K0 - s * s) * (K0 - s * s)) +
         K3 * (2 * s) / ((K2 - s * s) * (K2 - s * s))) * c) +
  Dv * (CF * (2 * W1 * s + 4 * W2 * s ^ 3 + 6 * W3 * s ^ 5))

private theorem sq_hasDeriv (s : ℝ) : HasDerivAt (fun s : ℝ => s * s) (2 * s) s := by
  have h := (hasDerivAt_id' s).mul (hasDerivAt_id' s)
  exact h.congr_deriv (by ring)

private theorem recip_hasDeriv (K k s : ℝ) (h : k - s * s ≠ 0) :
    HasDerivAt (fun s : ℝ => K / (k - s * s)) (K * (2 * s) / ((k - s * s) * (k - s * s))) s := by
  have hd : HasDerivAt (fun s : ℝ => k - s * s) (-(2 * s)) s := (sq_hasDeriv s).const_sub k
  have := (hasDerivAt_const s K).fun_div hd h
  exact this.congr_deriv (by field_simp; ring)

theorem phaseT_hasDeriv (K0 K1 K2 K3 W0 W1 W2 W3 CF Da Dv c s : ℝ)
    (h0 : K0 - s * s ≠ 0) (h2 : K2 - s * s ≠ 0) :
    HasDerivAt (phaseT K0 K1 K2 K3 W0 W1 W2 W3 CF Da Dv c)
      (dphaseT K0 K1 K2 K3 W1 W2 W3 CF Da Dv c s) s := by
  unfold phaseT dphaseT
  have hs := sq_hasDeriv s
  have hA := recip_hasDeriv K1 K0 s h0
  have hB := recip_hasDeriv K3 K2 s h2
  have hW : HasDerivAt (fun s : ℝ => W0 + W1 * (s * s) + W2 * ((s * s) * (s * s)) +
      W3 * ((s * s) * ((s * s) * (s * s))))
      (2 * W1 * s + 4 * W2 * s ^ 3 + 6 * W3 * s ^ 5) s := by
    have h := (((hs.const_mul W1).const_add W0).add ((hs.mul hs).const_mul W2)).add
      ((hs.mul (hs.mul hs)).const_mul W3)
    exact h.congr_deriv (by simp only [Pi.mul_apply]; ring)
  exact (((hA.add hB).mul_const c).const_mul Da).add ((hW.const_mul CF).const_mul Dv)

theorem groupT_eq (K0 K1 K2 K3 W0 W1 W2 W3 CF Da Dv c s : ℝ)
    (h0 : K0 - s * s ≠ 0) (h2 : K2 - s * s ≠ 0) :
    groupT K0 K1 K2 K3 W0 W1 W2 W3 CF Da Dv c s =
      phaseT K0 K1 K2 K3 W0 W1 W2 W3 CF Da Dv c s +
        s * dphaseT K0 K1 K2 K3 W1 W2 W3 CF Da Dv c s := by
  unfold groupT phaseT dphaseT
  have h0' : K0 - s ^ 2 ≠ 0 := by rwa [sq]
  have h2' : K2 - s ^ 2 ≠ 0 := by rwa [sq]
  have e : s * s = s ^ 2 := (sq s).symm
  simp only [e]
  field_simp
  ring

/-- C19.6. With `Pσ s := phase_refractivity (1/s) …` (phase refractivity as a function of the
wavenumber): `Pσ` is differentiable at every admissible `σ`, its derivative is
`(group − phase)/σ`, i.e. `group_refractivity = Pσ + σ · dPσ/dσ`. -/
theorem group_is_phase_plus_dispersion (σ TC P PV XC : ℝ) (hσ : σ ≠ 0)
    (h0 : (238.0185 : ℝ) - σ ^ 2 ≠ 0) (h2 : (57.362 : ℝ) - σ ^ 2 ≠ 0) :
    HasDerivAt (fun s : ℝ => phase_refractivity (1 / s) TC P PV XC)
      ((group_refractivity (1 / σ) TC P PV XC - phase_refractivity (1 / σ) TC P PV XC) / σ) σ ∧
    group_refractivity (1 / σ) TC P PV XC =
      phase_refractivity (1 / σ) TC P PV XC +
        σ * deriv (fun s : ℝ => phase_refractivity (1 / s) TC P PV XC) σ := by
  obtain ⟨Da, Dv, c, h⟩ := density_terms_shared TC P PV XC
  have k0 : dec 2380185 4 - σ * σ ≠ 0 := by
    rw [dec_def, ← sq]; norm_num at h0 ⊢; exact h0
  have k2 : dec 57362 3 - σ * σ ≠ 0 := by
    rw [dec_def, ← sq]; norm_num at h2 ⊢; exact h2
  have hf : (fun s : ℝ => phase_refractivity (1 / s) TC P PV XC) =
      phaseT (dec 2380185 4) 5792105 (dec 57362 3) 167917
        (dec 295235 3) (dec 26422 4) (-(dec 3238 5)) (dec 4028 6) (dec 1022 3) Da Dv c := by
    funext s
    rw [(h (1 / s)).1, one_div_one_div]
  have hd := phaseT_hasDeriv (dec 2380185 4) 5792105 (dec 57362 3) 167917
        (dec 295235 3) (dec 26422 4) (-(dec 3238 5)) (dec 4028 6) (dec 1022 3) Da Dv c σ k0 k2
  have hg := groupT_eq (dec 2380185 4) 5792105 (dec 57362 3) 167917
        (dec 295235 3) (dec 26422 4) (-(dec 3238 5)) (dec 4028 6) (dec 1022 3) Da Dv c σ k0 k2
  have hG := (h (1 / σ)).2
  have hP := (h (1 / σ)).1
  rw [one_div_one_div] at hG hP
  rw [hf, hd.deriv, hG, hP]
  refine ⟨?_, hg⟩
  have : (groupT (dec 2380185 4) 5792105 (dec 57362 3) 167917
        (dec 295235 3) (dec 26422 4) (-(dec 3238 5)) (dec 4028 6) (dec 1022 3) Da Dv c σ -
      phaseT (dec 2380185 4) 5792105 (dec 57362 3) 167917
        (dec 295235 3) (dec 26422 4) (-(dec 3238 5)) (dec 4028 6) (dec 1022 3) Da Dv c σ) / σ =
      dphaseT (dec 2380185 4) 5792105 (dec 57362 3) 167917
        (dec 26422 4) (-(dec 3238 5)) (dec 4028 6) (dec 1022 3) Da Dv c σ := by
    rw [hg]; field_simp; ring
  rw [this]
  exact hd

/-- the same in terms of the wavelength `LAMDA ≠ 0` (µm), `σ = 1/LAMDA`. -/
theorem group_is_phase_plus_dispersion_wavelength (LAMDA TC P PV XC : ℝ) (hL : LAMDA ≠ 0)
    (h0 : (238.0185 : ℝ) - (1 / LAMDA) ^ 2 ≠ 0) (h2 : (57.362 : ℝ) - (1 / LAMDA) ^ 2 ≠ 0) :
    group_refractivity LAMDA TC P PV XC =
      phase_refractivity LAMDA TC P PV XC +
        (1 / LAMDA) * deriv (fun s : ℝ => phase_refractivity (1 / s) TC P PV XC) (1 / LAMDA) := by
  have h := (group_is_phase_plus_dispersion (1 / LAMDA) TC P PV XC
    (one_div_ne_zero hL) h0 h2).2
  rwa [one_div_one_div] at h

example : ∃ σ : ℝ, σ ≠ 0 ∧ (238.0185 : ℝ) - σ ^ 2 ≠ 0 ∧ (57.362 : ℝ) - σ ^ 2 ≠ 0 :=
  ⟨1, by norm_num, by norm_num, by norm_num⟩

/-- **Angle-class arguments.** Every angle parameter of `polar2rect` is read by the source only through
`angular_typecheck` (list regenerated by the translator from the current text), so passing an angle object of any of
the five classes is passing its decimal-degree value: the theorems of this file, stated for numbers, cover them. -/
theorem angle_arguments_reduced : GenR.Convert.polar2rect_angle_params = ["theta"] := rfl

end GeodeVerif.C19

#print axioms GeodeVerif.C19.join_radiate
#print axioms GeodeVerif.C19.radiate_join
#print axioms GeodeVerif.C19.bearing_range
#print axioms GeodeVerif.C19.bearing_south
#print axioms GeodeVerif.C19.bearing_west
#print axioms GeodeVerif.C19.bearing_west_half
#print axioms GeodeVerif.C19.bearing_east_half
#print axioms GeodeVerif.C19.back_bearing_east
#print axioms GeodeVerif.C19.back_bearing_west
#print axioms GeodeVerif.C19.joins_reverse
#print axioms GeodeVerif.C19.rect2polar_scale
#print axioms GeodeVerif.C19.joins_reverse_west
#print axioms GeodeVerif.C19.joins_reverse_meridian
#print axioms GeodeVerif.C19.rotation_scale
#print axioms GeodeVerif.C19.rotation_scale_as_plain
#print axioms GeodeVerif.C19.rotation_full_turn
#print axioms GeodeVerif.C19.scale_linear
#print axioms GeodeVerif.C19.va_pythagoras
#print axioms GeodeVerif.C19.va_heights
#print axioms GeodeVerif.C19.va_rejects
#print axioms GeodeVerif.C19.va_second_range
#print axioms GeodeVerif.C19.fvc_proportional_closed
#print axioms GeodeVerif.C19.fvc_proportional_co2
#print axioms GeodeVerif.C19.fvc_ciddor_form
#print axioms GeodeVerif.C19.fvc_defined_closed
#print axioms GeodeVerif.C19.fvc_defined_closed_wet
#print axioms GeodeVerif.C19.fvc_defined_co2
#print axioms GeodeVerif.C19.density_terms_shared
#print axioms GeodeVerif.C19.group_is_phase_plus_dispersion
#print axioms GeodeVerif.C19.group_is_phase_plus_dispersion_wavelength
