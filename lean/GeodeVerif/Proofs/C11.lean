import GeodeVerif.GenQ.Constants
import GeodeVerif.GenR.Constants
import Mathlib.Tactic.NormNum
import Mathlib.Tactic.Ring
import Mathlib.Tactic.FieldSimp
import Mathlib.Algebra.Order.Floor.Ring
/-!
# C11 — the transformation catalogue (theorems about the regenerated `GenQ.Constants`, and
`GenR.Constants.Transformation.add`)

Everything about the table is decidable arithmetic over `ℚ` on a finite list, proved by kernel
evaluation (`decide +kernel`, no axioms beyond the standard three) of Bool-valued checkers and lifted
to `∀`-statements.

Names are handled as lists of Unicode code points (`codes`), parsed by `parseEntry`:
`A_to_B` or `A_to_B_suffix`  ↦  `⟨A, B, "_suffix", t⟩` (split at the first `"_to_"`; `B` runs to the
next `'_'`).

1. `catalogue_size`, `entries_length`
2. `labels_match_names` (with `parseEntry_sound`: the parser only returns genuine decompositions
   `name = A ++ "_to_" ++ B ++ suffix`)
3. `neg_is_negation`, `neg_involutive`, `neg_involutive_pyid0`, `reverse_pairs`, `reverse_pairs_entries`,
   `reverse_pair_count`, `every_reverse_is_present_except`
4. `add_keeps_labels_and_rates`, `add_params`
5. `iers_conversion`, `iers_rounding_identity`, `iers_conversion_exact`
6. `chain_triple_count`, `chain_consistency`, `chain_consistency_names`, `mem_triples`,
   `chain_rates_exact`, `chain_consistency_any_epoch`
7. `epochs`, `epochless_names`, `epochs_dated`

Layout: parsing; forcing combinators; definitions of the predicates; the kernel evaluations
(`labels_check`, `table_check_A`, `table_check_B`, `chain_check_1..3`); then the theorems in the order
above.

Evaluation strategy (section `Force`): the kernel evaluates lazily and re-evaluates shared thunks, and
string literals are expensive to take apart, so every checker is run through `forceEntries`, a
continuation-passing identity function (`forceEntries_eq : forceEntries l k = k l`) that makes the
kernel compute every code point, date and rational of the parsed table to a literal exactly once.
-/
namespace GeodeVerif.C11
open GenQ.Constants

/-! ## Parsing the binding names -/

/-- the Unicode code points of a string (`'_'` = 95, `'t'` = 116, `'o'` = 111) -/
def codes (s : String) : List Nat := s.toList.map Char.toNat

/-- the string with the given code points, upper-cased by `String.toUpper` -/
def upper (l : List Nat) : String := (String.ofList (l.map Char.ofNat)).toUpper

/-- split at the first occurrence of `"_to_"`; `acc` is the reversed prefix read so far -/
def splitTo : List Nat → List Nat → Option (List Nat × List Nat)
  | acc, 95 :: 116 :: 111 :: 95 :: rest => some (acc.reverse, rest)
  | acc, c :: rest => splitTo (c :: acc) rest
  | _, [] => none

/-- a catalogue entry with its parsed name `a_to_b<suffix>` (`suffix` is empty or starts with `'_'`) -/
structure Entry where
  a : List Nat
  b : List Nat
  suffix : List Nat
  t : Transformation

def parseCodes (cs : List Nat) (t : Transformation) : Option Entry :=
  match splitTo [] cs with
  | none => none
  | some (a, rest) => some ⟨a, rest.takeWhile (· != 95), rest.dropWhile (· != 95), t⟩

def parseEntry (e : String × Transformation) : Option Entry := parseCodes (codes e.1) e.2

/-- the parsed catalogue (by `labels_match_names` every catalogue entry parses, `entries_length`) -/
def entries : List Entry := catalogue_Transformation.filterMap parseEntry

theorem parseEntry_t {c : String × Transformation} {p : Entry} (h : parseEntry c = some p) :
    p.t = c.2 := by
  unfold parseEntry parseCodes at h
  split at h
  · cases h
  · cases h; rfl

theorem mem_entries {c : String × Transformation} {p : Entry}
    (hc : c ∈ catalogue_Transformation) (h : parseEntry c = some p) : p ∈ entries :=
  List.mem_filterMap.mpr ⟨c, hc, h⟩

theorem splitTo_sound : ∀ (cs acc : List Nat) {a rest : List Nat}, splitTo acc cs = some (a, rest) →
    acc.reverse ++ cs = a ++ [95, 116, 111, 95] ++ rest := by
  intro cs acc
  fun_induction splitTo acc cs with
  | case1 acc rest' => intro a rest h; cases h; simp
  | case2 acc c rest' hne ih => intro a rest h; simpa using ih h
  | case3 acc => intro a rest h; cases h

/-- the parser only ever returns a decomposition `name = A ++ "_to_" ++ B ++ suffix` with no `'_'` in
`B` and the suffix empty or starting with `'_'` -/
theorem parseEntry_sound {c : String × Transformation} {p : Entry} (h : parseEntry c = some p) :
    codes c.1 = p.a ++ [95, 116, 111, 95] ++ p.b ++ p.suffix ∧ 95 ∉ p.b ∧
      (p.suffix = [] ∨ ∃ s, p.suffix = 95 :: s) := by
  unfold parseEntry parseCodes at h
  split at h
  · cases h
  · rename_i a rest hs
    cases h
    have h0 := splitTo_sound _ _ hs
    simp only [List.reverse_nil, List.nil_append] at h0
    refine ⟨?_, ?_, ?_⟩
    · rw [h0, List.append_assoc _ (List.takeWhile _ rest), List.takeWhile_append_dropWhile]
    · intro hm
      have hall := List.all_eq_true.mp (List.all_takeWhile (l := rest) (p := fun x => x != 95)) _ hm
      simp at hall
    · cases hd : List.dropWhile (fun x => x != 95) rest with
      | nil => exact Or.inl rfl
      | cons x s =>
        right
        have := List.head?_dropWhile_not (fun x => x != 95) rest
        simp only [hd, List.head?_cons] at this
        have hx : x = 95 := by simpa using this
        exact ⟨s, by rw [hx]⟩

example : (parseEntry ("agd66_to_gda94_vicnsw", agd66_to_gda94_vicnsw)).map
    (fun p => (p.a, p.b, p.suffix)) = some (codes "agd66", codes "gda94", codes "_vicnsw") := by
  decide +kernel

/-! ## Forcing combinators (identity functions that fix the kernel's evaluation order) -/
section Force

def forceNat (n : Nat) (k : Nat → Bool) : Bool :=
  match n + 1 with
  | 0 => k n
  | m + 1 => k m
theorem forceNat_eq (n : Nat) (k : Nat → Bool) : forceNat n k = k n := by simp [forceNat]

def forceNats : List Nat → (List Nat → Bool) → Bool
  | [], k => k []
  | x :: xs, k => forceNat x fun x' => forceNats xs fun xs' => k (x' :: xs')
theorem forceNats_eq (l : List Nat) (k : List Nat → Bool) : forceNats l k = k l := by
  induction l generalizing k with
  | nil => rfl
  | cons x xs ih => simp [forceNats, forceNat_eq, ih]

def forceInt (i : Int) (k : Int → Bool) : Bool :=
  match i with
  | .ofNat n => forceNat n fun n' => k (.ofNat n')
  | .negSucc n => forceNat n fun n' => k (.negSucc n')
theorem forceInt_eq (i : Int) (k : Int → Bool) : forceInt i k = k i := by
  cases i <;> simp [forceInt, forceNat_eq]

def forceRat (q : ℚ) (k : ℚ → Bool) : Bool :=
  forceInt q.num fun n => forceNat q.den fun d =>
    if h : d ≠ 0 ∧ n.natAbs.Coprime d then k ⟨n, d, h.1, h.2⟩ else k q
theorem forceRat_eq (q : ℚ) (k : ℚ → Bool) : forceRat q k = k q := by
  simp only [forceRat, forceInt_eq, forceNat_eq]
  split <;> rfl

def forceEpoch (e : Option (Int × Int × Int)) (k : Option (Int × Int × Int) → Bool) : Bool :=
  match e with
  | none => k none
  | some (y, m, d) =>
    forceInt y fun y' => forceInt m fun m' => forceInt d fun d' => k (some (y', m', d'))
theorem forceEpoch_eq (e : Option (Int × Int × Int)) (k : Option (Int × Int × Int) → Bool) :
    forceEpoch e k = k e := by
  rcases e with _ | ⟨y, m, d⟩ <;> simp [forceEpoch, forceInt_eq]

def forceT (t : Transformation) (k : Transformation → Bool) : Bool :=
  forceEpoch t.ref_epoch fun ep =>
  forceRat t.tx fun tx => forceRat t.ty fun ty => forceRat t.tz fun tz => forceRat t.sc fun sc =>
  forceRat t.rx fun rx => forceRat t.ry fun ry => forceRat t.rz fun rz =>
  forceRat t.d_tx fun d_tx => forceRat t.d_ty fun d_ty => forceRat t.d_tz fun d_tz =>
  forceRat t.d_sc fun d_sc =>
  forceRat t.d_rx fun d_rx => forceRat t.d_ry fun d_ry => forceRat t.d_rz fun d_rz =>
    k { t with ref_epoch := ep, tx := tx, ty := ty, tz := tz, sc := sc, rx := rx, ry := ry, rz := rz,
               d_tx := d_tx, d_ty := d_ty, d_tz := d_tz, d_sc := d_sc,
               d_rx := d_rx, d_ry := d_ry, d_rz := d_rz }
theorem forceT_eq (t : Transformation) (k : Transformation → Bool) : forceT t k = k t := by
  simp [forceT, forceRat_eq, forceEpoch_eq]

def forceEntry (e : Entry) (k : Entry → Bool) : Bool :=
  forceNats e.a fun a => forceNats e.b fun b => forceNats e.suffix fun s => forceT e.t fun t =>
    k ⟨a, b, s, t⟩
theorem forceEntry_eq (e : Entry) (k : Entry → Bool) : forceEntry e k = k e := by
  simp [forceEntry, forceNats_eq, forceT_eq]

def forceEntries : List Entry → (List Entry → Bool) → Bool
  | [], k => k []
  | x :: xs, k => forceEntry x fun x' => forceEntries xs fun xs' => k (x' :: xs')
theorem forceEntries_eq (l : List Entry) (k : List Entry → Bool) : forceEntries l k = k l := by
  induction l generalizing k with
  | nil => rfl
  | cons x xs ih => simp [forceEntries, forceEntry_eq, ih]

end Force

/-! ## Definitions of the checked predicates -/

/-! ### labels -/

def labelsOkE (p : Entry) : Bool :=
  !p.a.isEmpty && !p.b.isEmpty && p.t.from_datum == upper p.a && p.t.to_datum == upper p.b

def labelsOk (e : String × Transformation) : Bool :=
  match parseEntry e with
  | none => false
  | some p => labelsOkE p

example : upper (codes "itrf2014") = "ITRF2014" := by decide +kernel

/-! ### reverse pairs -/

/-- `q` is the reverse of `p`: 7 parameters and 7 rates negated, same epoch, labels swapped -/
def IsNegOf (q p : Transformation) : Prop :=
  q.from_datum = p.to_datum ∧ q.to_datum = p.from_datum ∧ q.ref_epoch = p.ref_epoch ∧
  q.tx = -p.tx ∧ q.ty = -p.ty ∧ q.tz = -p.tz ∧ q.sc = -p.sc ∧
  q.rx = -p.rx ∧ q.ry = -p.ry ∧ q.rz = -p.rz ∧
  q.d_tx = -p.d_tx ∧ q.d_ty = -p.d_ty ∧ q.d_tz = -p.d_tz ∧ q.d_sc = -p.d_sc ∧
  q.d_rx = -p.d_rx ∧ q.d_ry = -p.d_ry ∧ q.d_rz = -p.d_rz

instance (q p : Transformation) : Decidable (IsNegOf q p) := by unfold IsNegOf; infer_instance

/-- `e2` is named as the reverse of `e1` (`B_to_A[_s]` against `A_to_B[_s]`) -/
def isReverseName (e2 e1 : Entry) : Bool := e2.a == e1.b && e2.b == e1.a && e2.suffix == e1.suffix

def reverseCheck (es : List Entry) : Bool :=
  es.all fun e1 => es.all fun e2 => !isReverseName e2 e1 || decide (IsNegOf e2.t e1.t)

/-- the ordered pairs (`A_to_B[_s]`, `B_to_A[_s]`) present in the table -/
def reversePairs (es : List Entry) : List (Entry × Entry) :=
  es.flatMap fun e1 => (es.filter fun e2 => isReverseName e2 e1).map fun e2 => (e1, e2)

/-- entries whose reverse is not in the table -/
def unpaired (es : List Entry) : List Entry :=
  es.filter fun e1 => !(es.any fun e2 => isReverseName e2 e1)

/-! ### epochs -/

def ratesZero (t : Transformation) : Prop :=
  t.d_tx = 0 ∧ t.d_ty = 0 ∧ t.d_tz = 0 ∧ t.d_sc = 0 ∧ t.d_rx = 0 ∧ t.d_ry = 0 ∧ t.d_rz = 0

instance (t : Transformation) : Decidable (ratesZero t) := by unfold ratesZero; infer_instance

/-- `codes "itrf"` -/
def itrfPrefix : List Nat := [105, 116, 114, 102]
example : itrfPrefix = codes "itrf" := by decide +kernel

/-- `codes "atrf"` -/
def atrfPrefix : List Nat := [97, 116, 114, 102]
example : atrfPrefix = codes "atrf" := by decide +kernel

/-- the name starts with `"itrf"` -/
def isItrf (l : List Nat) : Bool := itrfPrefix.isPrefixOf l

/-- the name is an ITRF or ATRF realisation -/
def isTrf (l : List Nat) : Bool := itrfPrefix.isPrefixOf l || atrfPrefix.isPrefixOf l

def datedCheck (es : List Entry) : Bool :=
  es.all fun e => (isTrf e.a || isTrf e.b) == e.t.ref_epoch.isSome

/-! ### chains -/

/-- unsuffixed sets between two ITRF realisations -/
def itrfSets (es : List Entry) : List Entry :=
  es.filter fun e => e.suffix.isEmpty && isItrf e.a && isItrf e.b

/-- for a set `ab`, the sets `bcs` leaving its target and the sets `acs` leaving its source: all
(`ab`, `bc`, `ac`) with `bc` and `ac` arriving at the same frame -/
def triplesWith (ab : Entry) (bcs acs : List Entry) : List (Entry × Entry × Entry) :=
  bcs.flatMap fun bc => (acs.filter fun ac => ac.b == bc.b).map fun ac => (ab, bc, ac)

/-- the triples whose first member is in `part` -/
def triplesPart (part s : List Entry) : List (Entry × Entry × Entry) :=
  part.flatMap fun ab =>
    triplesWith ab (s.filter fun bc => bc.a == ab.b) (s.filter fun ac => ac.a == ab.a)

def triplesFrom (s : List Entry) : List (Entry × Entry × Entry) := triplesPart s s

/-- all ordered triples (`A_to_B`, `B_to_C`, `A_to_C`) of unsuffixed ITRF sets, computed from the
table (characterised by `mem_triples`) -/
def triplesOf (es : List Entry) : List (Entry × Entry × Entry) := triplesFrom (itrfSets es)

def triples : List (Entry × Entry × Entry) := triplesOf entries

theorem mem_triplesFrom (s : List Entry) (x : Entry × Entry × Entry) :
    x ∈ triplesFrom s ↔ x.1 ∈ s ∧ x.2.1 ∈ s ∧ x.2.2 ∈ s ∧
      x.2.1.a = x.1.b ∧ x.2.2.a = x.1.a ∧ x.2.2.b = x.2.1.b := by
  obtain ⟨ab, bc, ac⟩ := x
  simp only [triplesFrom, triplesPart, triplesWith, List.mem_flatMap, List.mem_map, List.mem_filter,
    beq_iff_eq, Prod.mk.injEq]
  constructor
  · rintro ⟨ab', hab, bc', ⟨hbc, h1⟩, ac', ⟨⟨hac, h2⟩, h3⟩, rfl, rfl, rfl⟩
    exact ⟨hab, hbc, hac, h1, h2, h3⟩
  · rintro ⟨hab, hbc, hac, h1, h2, h3⟩
    exact ⟨ab, hab, bc, ⟨hbc, h1⟩, ac, ⟨⟨hac, h2⟩, h3⟩, rfl, rfl, rfl⟩

theorem mem_triples (x : Entry × Entry × Entry) :
    x ∈ triples ↔ x.1 ∈ itrfSets entries ∧ x.2.1 ∈ itrfSets entries ∧ x.2.2 ∈ itrfSets entries ∧
      x.2.1.a = x.1.b ∧ x.2.2.a = x.1.a ∧ x.2.2.b = x.2.1.b :=
  mem_triplesFrom _ x

/-- years from `t`'s reference epoch to the target epoch (`Δdays / 365.25`) -/
def years (target : Option (Int × Int × Int)) (t : Transformation) : ℚ :=
  match target with
  | some d => PyQ.dateDiffDays d t.ref_epoch / 365.25
  | none => 0

/-- a parameter moved by its own rate over `y` years -/
def atEpoch (par rate y : ℚ) : ℚ := par + rate * y

/-- published rounding: 0.15 mm = 0.00015 m; 0.015 ppb = 0.000015 ppm; 0.015 mas = 0.000015″ -/
def tolT : ℚ := 0.00015
def tolS : ℚ := 0.000015
def tolR : ℚ := 0.000015

/-- `|par(A→B) + par(B→C) − par(A→C)| ≤ tol` for the 7 parameters, each set moved by its own rates
over `yab`, `ybc`, `yac` years, and for the 7 rates -/
def ChainOkAt (ab bc ac : Transformation) (yab ybc yac : ℚ) : Prop :=
  |atEpoch ab.tx ab.d_tx yab + atEpoch bc.tx bc.d_tx ybc - atEpoch ac.tx ac.d_tx yac| ≤ tolT ∧
  |atEpoch ab.ty ab.d_ty yab + atEpoch bc.ty bc.d_ty ybc - atEpoch ac.ty ac.d_ty yac| ≤ tolT ∧
  |atEpoch ab.tz ab.d_tz yab + atEpoch bc.tz bc.d_tz ybc - atEpoch ac.tz ac.d_tz yac| ≤ tolT ∧
  |atEpoch ab.sc ab.d_sc yab + atEpoch bc.sc bc.d_sc ybc - atEpoch ac.sc ac.d_sc yac| ≤ tolS ∧
  |atEpoch ab.rx ab.d_rx yab + atEpoch bc.rx bc.d_rx ybc - atEpoch ac.rx ac.d_rx yac| ≤ tolR ∧
  |atEpoch ab.ry ab.d_ry yab + atEpoch bc.ry bc.d_ry ybc - atEpoch ac.ry ac.d_ry yac| ≤ tolR ∧
  |atEpoch ab.rz ab.d_rz yab + atEpoch bc.rz bc.d_rz ybc - atEpoch ac.rz ac.d_rz yac| ≤ tolR ∧
  |ab.d_tx + bc.d_tx - ac.d_tx| ≤ tolT ∧ |ab.d_ty + bc.d_ty - ac.d_ty| ≤ tolT ∧
  |ab.d_tz + bc.d_tz - ac.d_tz| ≤ tolT ∧ |ab.d_sc + bc.d_sc - ac.d_sc| ≤ tolS ∧
  |ab.d_rx + bc.d_rx - ac.d_rx| ≤ tolR ∧ |ab.d_ry + bc.d_ry - ac.d_ry| ≤ tolR ∧
  |ab.d_rz + bc.d_rz - ac.d_rz| ≤ tolR

/-- all three sets carry a date epoch, and the chain closes when all three are brought to `A→C`'s
reference epoch by their own rates -/
def ChainOk (ab bc ac : Transformation) : Prop :=
  (∃ d, ab.ref_epoch = some d) ∧ (∃ d, bc.ref_epoch = some d) ∧ (∃ d, ac.ref_epoch = some d) ∧
  ChainOkAt ab bc ac (years ac.ref_epoch ab) (years ac.ref_epoch bc) (years ac.ref_epoch ac)

instance (o : Option (Int × Int × Int)) : Decidable (∃ d, o = some d) :=
  match o with
  | some d => isTrue ⟨d, rfl⟩
  | none => isFalse (by rintro ⟨d, h⟩; cases h)

instance (ab bc ac : Transformation) (yab ybc yac : ℚ) : Decidable (ChainOkAt ab bc ac yab ybc yac) := by
  unfold ChainOkAt; infer_instance

instance (ab bc ac : Transformation) : Decidable (ChainOk ab bc ac) := by
  unfold ChainOk; infer_instance

/-- `decide (|atEpoch p1 r1 y1 + atEpoch p2 r2 y2 - atEpoch p3 r3 y3| ≤ tol)`, every intermediate
result computed once -/
def closeB (p1 r1 y1 p2 r2 y2 p3 r3 y3 tol : ℚ) : Bool :=
  forceRat (r1 * y1) fun a1 => forceRat (p1 + a1) fun b1 =>
  forceRat (r2 * y2) fun a2 => forceRat (p2 + a2) fun b2 =>
  forceRat (r3 * y3) fun a3 => forceRat (p3 + a3) fun b3 =>
  forceRat (b1 + b2) fun c => forceRat (c - b3) fun m => decide (|m| ≤ tol)

theorem closeB_iff (p1 r1 y1 p2 r2 y2 p3 r3 y3 tol : ℚ) :
    closeB p1 r1 y1 p2 r2 y2 p3 r3 y3 tol = true ↔
      |atEpoch p1 r1 y1 + atEpoch p2 r2 y2 - atEpoch p3 r3 y3| ≤ tol := by
  simp only [closeB, forceRat_eq, atEpoch, decide_eq_true_eq]

def closeRateB (r1 r2 r3 tol : ℚ) : Bool :=
  forceRat (r1 + r2) fun c => forceRat (c - r3) fun m => decide (|m| ≤ tol)

theorem closeRateB_iff (r1 r2 r3 tol : ℚ) : closeRateB r1 r2 r3 tol = true ↔ |r1 + r2 - r3| ≤ tol := by
  simp only [closeRateB, forceRat_eq, decide_eq_true_eq]

/-- `decide (ChainOk ab bc ac)` with the year differences and tolerances computed once -/
def chainOkB (ab bc ac : Transformation) : Bool :=
  decide (∃ d, ab.ref_epoch = some d) && (decide (∃ d, bc.ref_epoch = some d) &&
  (decide (∃ d, ac.ref_epoch = some d) &&
  forceRat (years ac.ref_epoch ab) fun yab => forceRat (years ac.ref_epoch bc) fun ybc =>
  forceRat (years ac.ref_epoch ac) fun yac =>
  forceRat tolT fun tT => forceRat tolS fun tS => forceRat tolR fun tR =>
  (closeB ab.tx ab.d_tx yab bc.tx bc.d_tx ybc ac.tx ac.d_tx yac tT &&
  (closeB ab.ty ab.d_ty yab bc.ty bc.d_ty ybc ac.ty ac.d_ty yac tT &&
  (closeB ab.tz ab.d_tz yab bc.tz bc.d_tz ybc ac.tz ac.d_tz yac tT &&
  (closeB ab.sc ab.d_sc yab bc.sc bc.d_sc ybc ac.sc ac.d_sc yac tS &&
  (closeB ab.rx ab.d_rx yab bc.rx bc.d_rx ybc ac.rx ac.d_rx yac tR &&
  (closeB ab.ry ab.d_ry yab bc.ry bc.d_ry ybc ac.ry ac.d_ry yac tR &&
  (closeB ab.rz ab.d_rz yab bc.rz bc.d_rz ybc ac.rz ac.d_rz yac tR &&
  (closeRateB ab.d_tx bc.d_tx ac.d_tx tT && (closeRateB ab.d_ty bc.d_ty ac.d_ty tT &&
  (closeRateB ab.d_tz bc.d_tz ac.d_tz tT && (closeRateB ab.d_sc bc.d_sc ac.d_sc tS &&
  (closeRateB ab.d_rx bc.d_rx ac.d_rx tR && (closeRateB ab.d_ry bc.d_ry ac.d_ry tR &&
  closeRateB ab.d_rz bc.d_rz ac.d_rz tR)))))))))))))))

theorem chainOkB_iff (ab bc ac : Transformation) : chainOkB ab bc ac = true ↔ ChainOk ab bc ac := by
  simp only [chainOkB, forceRat_eq, Bool.and_eq_true, closeB_iff, closeRateB_iff, decide_eq_true_eq,
    ChainOk, ChainOkAt]

/-- the rates of a chain close exactly -/
def RatesExact (ab bc ac : Transformation) : Prop :=
  ab.d_tx + bc.d_tx = ac.d_tx ∧ ab.d_ty + bc.d_ty = ac.d_ty ∧ ab.d_tz + bc.d_tz = ac.d_tz ∧
  ab.d_sc + bc.d_sc = ac.d_sc ∧
  ab.d_rx + bc.d_rx = ac.d_rx ∧ ab.d_ry + bc.d_ry = ac.d_ry ∧ ab.d_rz + bc.d_rz = ac.d_rz

instance (ab bc ac : Transformation) : Decidable (RatesExact ab bc ac) := by
  unfold RatesExact; infer_instance

def ratesExactCheck (s : List Entry) : Bool :=
  (triplesFrom s).all fun x => decide (RatesExact x.1.t x.2.1.t x.2.2.t)

def chainCheckPart (part s : List Entry) : Bool :=
  (triplesPart part s).all fun x => chainOkB x.1.t x.2.1.t x.2.2.t

theorem chainCheckPart_append (p1 p2 s : List Entry) :
    chainCheckPart (p1 ++ p2) s = (chainCheckPart p1 s && chainCheckPart p2 s) := by
  simp [chainCheckPart, triplesPart, List.flatMap_append, List.all_append]

/-! ## The kernel evaluations -/

theorem labels_check : catalogue_Transformation.all labelsOk = true := by
  have h : catalogue_Transformation.all (fun e => match parseEntry e with
      | none => false
      | some p => forceEntry p labelsOkE) = true := by decide +kernel
  simp only [forceEntry_eq] at h
  exact h

/-- names of the entries without a reverse -/
def unpairedNames : List (List Nat × List Nat × List Nat) :=
  [(codes "atrf2014", codes "gda2020", []), (codes "itrf2020", codes "itrf2014", codes "_vel")]

def tableCheckA (es : List Entry) : Bool :=
  es.length == 120 && reverseCheck es && (reversePairs es).length == 118 &&
  (unpaired es).map (fun e => (e.a, e.b, e.suffix)) == unpairedNames && datedCheck es

theorem table_check_A : tableCheckA entries = true := by
  have h : forceEntries entries tableCheckA = true := by decide +kernel
  simpa only [forceEntries_eq] using h

def tableCheckB (s : List Entry) : Bool :=
  s.length == 92 && (triplesFrom s).length == 384 && ratesExactCheck s

theorem table_check_B : tableCheckB (itrfSets entries) = true := by
  have h : forceEntries entries (fun es => forceEntries (itrfSets es) tableCheckB) = true := by
    decide +kernel
  simpa only [forceEntries_eq] using h

/-! the chain check is run in three parts (first member among the first 31, the next 31, the remaining
ITRF sets) to keep each kernel evaluation short -/
theorem chain_check_1 : chainCheckPart ((itrfSets entries).take 31) (itrfSets entries) = true := by
  have h : forceEntries entries (fun es => forceEntries (itrfSets es) fun s =>
      chainCheckPart (s.take 31) s) = true := by decide +kernel
  simpa only [forceEntries_eq] using h

theorem chain_check_2 :
    chainCheckPart (((itrfSets entries).drop 31).take 31) (itrfSets entries) = true := by
  have h : forceEntries entries (fun es => forceEntries (itrfSets es) fun s =>
      chainCheckPart ((s.drop 31).take 31) s) = true := by decide +kernel
  simpa only [forceEntries_eq] using h

theorem chain_check_3 :
    chainCheckPart (((itrfSets entries).drop 31).drop 31) (itrfSets entries) = true := by
  have h : forceEntries entries (fun es => forceEntries (itrfSets es) fun s =>
      chainCheckPart ((s.drop 31).drop 31) s) = true := by decide +kernel
  simpa only [forceEntries_eq] using h

theorem chain_check : chainCheckPart (itrfSets entries) (itrfSets entries) = true := by
  have hs : itrfSets entries = (itrfSets entries).take 31 ++
      (((itrfSets entries).drop 31).take 31 ++ ((itrfSets entries).drop 31).drop 31) := by
    simp only [List.take_append_drop]
  have h : chainCheckPart ((itrfSets entries).take 31 ++
      (((itrfSets entries).drop 31).take 31 ++ ((itrfSets entries).drop 31).drop 31))
      (itrfSets entries) = true := by
    simp only [chainCheckPart_append, chain_check_1, chain_check_2, chain_check_3, Bool.and_self]
  rwa [← hs] at h

theorem table_A_parts : (entries.length = 120 ∧ reverseCheck entries = true ∧
    (reversePairs entries).length = 118 ∧
    (unpaired entries).map (fun e => (e.a, e.b, e.suffix)) = unpairedNames) ∧
    datedCheck entries = true := by
  have h := table_check_A
  simp only [tableCheckA, Bool.and_eq_true, beq_iff_eq] at h
  exact ⟨⟨h.1.1.1.1, h.1.1.1.2, h.1.1.2, h.1.2⟩, h.2⟩

theorem table_B_parts : (itrfSets entries).length = 92 ∧ (triplesFrom (itrfSets entries)).length = 384 ∧
    ratesExactCheck (itrfSets entries) = true := by
  have h := table_check_B
  simp only [tableCheckB, Bool.and_eq_true, beq_iff_eq] at h
  exact ⟨h.1.1, h.1.2, h.2⟩

/-! ## 1. Size -/

/-- the catalogue has exactly 120 `Transformation` constants -/
theorem catalogue_size : catalogue_Transformation.length = 120 := by decide +kernel

/-- every catalogue entry parses, so `entries` is the whole catalogue -/
theorem entries_length : entries.length = 120 := table_A_parts.1.1

/-! ## 2. Labels match the binding names -/

/-- every catalogue name has the form `A_to_B` or `A_to_B_suffix` (A, B non-empty) and the entry is
labelled `from_datum = upper A`, `to_datum = upper B` -/
theorem labels_match_names : ∀ e ∈ catalogue_Transformation, ∃ p : Entry,
    parseEntry e = some p ∧ p.a ≠ [] ∧ p.b ≠ [] ∧
    e.2.from_datum = upper p.a ∧ e.2.to_datum = upper p.b := by
  intro e he
  have h := List.all_eq_true.mp labels_check e he
  unfold labelsOk at h
  split at h
  · cases h
  · rename_i p hp
    have ht := parseEntry_t hp
    simp only [labelsOkE, Bool.and_eq_true, Bool.not_eq_true', List.isEmpty_eq_false_iff,
      beq_iff_eq, ht] at h
    exact ⟨p, hp, h.1.1.1, h.1.1.2, h.1.2, h.2⟩

/-! ## 3. Negation and reverse pairs -/

/-- `-p` for EVERY transformation `p`: all parameters and rates negated, labels swapped, same epoch,
same `tf_sd` -/
theorem neg_is_negation (p : Transformation) :
    IsNegOf (Transformation.neg p) p ∧ (Transformation.neg p).tf_sd = p.tf_sd :=
  ⟨⟨rfl, rfl, rfl, rfl, rfl, rfl, rfl, rfl, rfl, rfl, rfl, rfl, rfl, rfl, rfl, rfl, rfl⟩, rfl⟩

/-- `-(-p)` has all of `p`'s fields; it is a fresh object (`pyid` is the model's object identity of
catalogue constants and is 0 for every constructed value) -/
theorem neg_involutive (p : Transformation) :
    Transformation.neg (Transformation.neg p) = { p with pyid := 0 } := by
  cases p
  simp [Transformation.neg, Transformation.init]

theorem neg_involutive_pyid0 (p : Transformation) (h : p.pyid = 0) :
    Transformation.neg (Transformation.neg p) = p := by
  rw [neg_involutive]; cases p; cases h; rfl

example : gda94_to_gda2020.pyid = 0 := rfl

/-- in the parsed catalogue, whenever `A_to_B[_s]` and `B_to_A[_s]` are both present the second is the
exact negation of the first -/
theorem reverse_pairs_entries : ∀ e1 ∈ entries, ∀ e2 ∈ entries,
    e2.a = e1.b → e2.b = e1.a → e2.suffix = e1.suffix → IsNegOf e2.t e1.t := by
  intro e1 h1 e2 h2 ha hb hs
  have h := List.all_eq_true.mp (List.all_eq_true.mp table_A_parts.1.2.1 e1 h1) e2 h2
  simpa [isReverseName, ha, hb, hs] using h

/-- the same for the catalogue itself: entries `(n1, t1)`, `(n2, t2)` with `n1 = A_to_B[_s]`,
`n2 = B_to_A[_s]` -/
theorem reverse_pairs : ∀ c1 ∈ catalogue_Transformation, ∀ c2 ∈ catalogue_Transformation,
    ∀ p1 p2 : Entry, parseEntry c1 = some p1 → parseEntry c2 = some p2 →
    p2.a = p1.b → p2.b = p1.a → p2.suffix = p1.suffix → IsNegOf c2.2 c1.2 := by
  intro c1 h1 c2 h2 p1 p2 hp1 hp2 ha hb hs
  have := reverse_pairs_entries p1 (mem_entries h1 hp1) p2 (mem_entries h2 hp2) ha hb hs
  rwa [parseEntry_t hp1, parseEntry_t hp2] at this

/-- 118 of the 120 entries have their reverse in the catalogue (59 pairs, both orders) -/
theorem reverse_pair_count : (reversePairs entries).length = 118 := table_A_parts.1.2.2.1

/-- the two without: `atrf2014_to_gda2020` and `itrf2020_to_itrf2014_vel` -/
theorem every_reverse_is_present_except :
    (unpaired entries).map (fun e => (e.a, e.b, e.suffix)) =
      [(codes "atrf2014", codes "gda2020", []), (codes "itrf2020", codes "itrf2014", codes "_vel")] :=
  table_A_parts.1.2.2.2

/-! ## 4. `__add__` (re-referencing to another epoch), real-number reading -/

/-- years from `p`'s reference epoch to the date `d`, as `__add__` computes them
(`(d - p.ref_epoch).days / 365.25`) -/
noncomputable def yearsR (p : GenR.Constants.Transformation) (d : Int × Int × Int) : ℝ :=
  PyR.dateDiffDays d p.ref_epoch / 365.25

/-- `p + d` keeps the direction labels and all seven rates, and is referenced to `d` -/
theorem add_keeps_labels_and_rates (p : GenR.Constants.Transformation) (d : Int × Int × Int) :
    (p.add d).from_datum = p.from_datum ∧ (p.add d).to_datum = p.to_datum ∧
    (p.add d).ref_epoch = some d ∧
    (p.add d).d_tx = p.d_tx ∧ (p.add d).d_ty = p.d_ty ∧ (p.add d).d_tz = p.d_tz ∧
    (p.add d).d_sc = p.d_sc ∧
    (p.add d).d_rx = p.d_rx ∧ (p.add d).d_ry = p.d_ry ∧ (p.add d).d_rz = p.d_rz :=
  ⟨rfl, rfl, rfl, rfl, rfl, rfl, rfl, rfl, rfl, rfl⟩

theorem dec_36525 : PyR.dec 36525 2 = (365.25 : ℝ) := by norm_num [PyR.dec]

/-- each parameter of `p + d` is `round(par + rate·Δ, 8)` -/
theorem add_params (p : GenR.Constants.Transformation) (d : Int × Int × Int) :
    (p.add d).tx = PyR.pround 8 (p.tx + p.d_tx * yearsR p d) ∧
    (p.add d).ty = PyR.pround 8 (p.ty + p.d_ty * yearsR p d) ∧
    (p.add d).tz = PyR.pround 8 (p.tz + p.d_tz * yearsR p d) ∧
    (p.add d).sc = PyR.pround 8 (p.sc + p.d_sc * yearsR p d) ∧
    (p.add d).rx = PyR.pround 8 (p.rx + p.d_rx * yearsR p d) ∧
    (p.add d).ry = PyR.pround 8 (p.ry + p.d_ry * yearsR p d) ∧
    (p.add d).rz = PyR.pround 8 (p.rz + p.d_rz * yearsR p d) := by
  unfold yearsR
  rw [← dec_36525]
  exact ⟨rfl, rfl, rfl, rfl, rfl, rfl, rfl⟩

/-! ## 5. IERS units and sign convention -/

/-- `iers2trans`: translations mm → m, scale ppb → ppm, rotations mas → arc-seconds WITH THE SIGN
REVERSED, rates likewise, each through `round(·, 8)`; labels and epoch passed on, no `tf_sd` -/
theorem iers_conversion (f t : String) (ep : Option (Int × Int × Int))
    (tx ty tz sc rx ry rz d_tx d_ty d_tz d_sc d_rx d_ry d_rz : ℚ) :
    let r := iers2trans f t ep tx ty tz sc rx ry rz d_tx d_ty d_tz d_sc d_rx d_ry d_rz
    r.from_datum = f ∧ r.to_datum = t ∧ r.ref_epoch = ep ∧ r.tf_sd = none ∧
    r.tx = PyQ.pround 8 (tx / 1000) ∧ r.ty = PyQ.pround 8 (ty / 1000) ∧
    r.tz = PyQ.pround 8 (tz / 1000) ∧ r.sc = PyQ.pround 8 (sc / 1000) ∧
    r.rx = PyQ.pround 8 (-rx / 1000) ∧ r.ry = PyQ.pround 8 (-ry / 1000) ∧
    r.rz = PyQ.pround 8 (-rz / 1000) ∧
    r.d_tx = PyQ.pround 8 (d_tx / 1000) ∧ r.d_ty = PyQ.pround 8 (d_ty / 1000) ∧
    r.d_tz = PyQ.pround 8 (d_tz / 1000) ∧ r.d_sc = PyQ.pround 8 (d_sc / 1000) ∧
    r.d_rx = PyQ.pround 8 (-d_rx / 1000) ∧ r.d_ry = PyQ.pround 8 (-d_ry / 1000) ∧
    r.d_rz = PyQ.pround 8 (-d_rz / 1000) :=
  ⟨rfl, rfl, rfl, rfl, rfl, rfl, rfl, rfl, rfl, rfl, rfl, rfl, rfl, rfl, rfl, rfl, rfl, rfl⟩

theorem roundHalfEven_intCast (k : ℤ) : PyQ.roundHalfEven (k : ℚ) = k := by
  unfold PyQ.roundHalfEven
  simp

/-- for an input with at most 5 decimals the 8-decimal rounding is the identity, for both signs -/
theorem iers_rounding_identity (k : ℤ) :
    PyQ.pround 8 ((k : ℚ) / 10 ^ 5 / 1000) = (k : ℚ) / 10 ^ 5 / 1000 ∧
    PyQ.pround 8 (-((k : ℚ) / 10 ^ 5) / 1000) = -((k : ℚ) / 10 ^ 5) / 1000 := by
  have h1 : (k : ℚ) / 10 ^ 5 / 1000 * 10 ^ 8 = (k : ℚ) := by ring
  have h2 : -((k : ℚ) / 10 ^ 5) / 1000 * 10 ^ 8 = ((-k : ℤ) : ℚ) := by push_cast; ring
  constructor
  · unfold PyQ.pround; rw [h1, roundHalfEven_intCast]; ring
  · unfold PyQ.pround; rw [h2, roundHalfEven_intCast]; push_cast; ring

/-- `x` has at most 5 decimals -/
def Dec5 (x : ℚ) : Prop := ∃ k : ℤ, x = k / 10 ^ 5

example : Dec5 (-(PyQ.dec 171 2)) := ⟨-171000, by norm_num [PyQ.dec]⟩

theorem pround_dec5 {x : ℚ} (h : Dec5 x) :
    PyQ.pround 8 (x / 1000) = x / 1000 ∧ PyQ.pround 8 (-x / 1000) = -x / 1000 := by
  obtain ⟨k, rfl⟩ := h
  exact iers_rounding_identity k

/-- hence for IERS tables given to ≤ 5 decimals `iers2trans` is exactly ÷1000 and rotation-sign flip -/
theorem iers_conversion_exact (f t : String) (ep : Option (Int × Int × Int))
    (tx ty tz sc rx ry rz d_tx d_ty d_tz d_sc d_rx d_ry d_rz : ℚ)
    (h1 : Dec5 tx) (h2 : Dec5 ty) (h3 : Dec5 tz) (h4 : Dec5 sc) (h5 : Dec5 rx) (h6 : Dec5 ry)
    (h7 : Dec5 rz) (h8 : Dec5 d_tx) (h9 : Dec5 d_ty) (h10 : Dec5 d_tz) (h11 : Dec5 d_sc)
    (h12 : Dec5 d_rx) (h13 : Dec5 d_ry) (h14 : Dec5 d_rz) :
    let r := iers2trans f t ep tx ty tz sc rx ry rz d_tx d_ty d_tz d_sc d_rx d_ry d_rz
    r.tx = tx / 1000 ∧ r.ty = ty / 1000 ∧ r.tz = tz / 1000 ∧ r.sc = sc / 1000 ∧
    r.rx = -rx / 1000 ∧ r.ry = -ry / 1000 ∧ r.rz = -rz / 1000 ∧
    r.d_tx = d_tx / 1000 ∧ r.d_ty = d_ty / 1000 ∧ r.d_tz = d_tz / 1000 ∧ r.d_sc = d_sc / 1000 ∧
    r.d_rx = -d_rx / 1000 ∧ r.d_ry = -d_ry / 1000 ∧ r.d_rz = -d_rz / 1000 :=
  ⟨(pround_dec5 h1).1, (pround_dec5 h2).1, (pround_dec5 h3).1, (pround_dec5 h4).1,
   (pround_dec5 h5).2, (pround_dec5 h6).2, (pround_dec5 h7).2,
   (pround_dec5 h8).1, (pround_dec5 h9).1, (pround_dec5 h10).1, (pround_dec5 h11).1,
   (pround_dec5 h12).2, (pround_dec5 h13).2, (pround_dec5 h14).2⟩

/-! ## 6. Chains of ITRF sets -/

/-- the catalogue offers exactly 384 chains A→B→C with a direct set A→C between ITRF realisations
(from 92 unsuffixed ITRF-to-ITRF sets) -/
theorem chain_triple_count : triples.length = 384 ∧ (itrfSets entries).length = 92 :=
  ⟨table_B_parts.2.1, table_B_parts.1⟩

/-- every chain agrees with the direct set within the published rounding, in all 7 parameters (at the
direct set's epoch) and all 7 rates -/
theorem chain_consistency : ∀ x ∈ triples, ChainOk x.1.t x.2.1.t x.2.2.t := by
  intro x hx
  exact (chainOkB_iff _ _ _).mp (List.all_eq_true.mp chain_check x hx)

/-- the same, spelled out by names: unsuffixed sets `A_to_B`, `B_to_C`, `A_to_C` with A, B, C all
starting with "itrf" -/
theorem chain_consistency_names : ∀ ab ∈ entries, ∀ bc ∈ entries, ∀ ac ∈ entries,
    ab.suffix = [] → bc.suffix = [] → ac.suffix = [] →
    isItrf ab.a = true → isItrf ab.b = true → isItrf bc.b = true →
    bc.a = ab.b → ac.a = ab.a → ac.b = bc.b → ChainOk ab.t bc.t ac.t := by
  intro ab hab bc hbc ac hac sab sbc sac iA iB iC h1 h2 h3
  refine chain_consistency (ab, bc, ac) ((mem_triples _).mpr ⟨?_, ?_, ?_, h1, h2, h3⟩)
  · simp [itrfSets, hab, sab, iA, iB]
  · simp [itrfSets, hbc, sbc, h1, iB, iC]
  · simp [itrfSets, hac, sac, h2, h3, iA, iC]

example : triples ≠ [] := by
  intro h; have := chain_triple_count.1; rw [h] at this; cases this


/-- in every chain the seven rates close exactly -/
theorem chain_rates_exact : ∀ x ∈ triples, RatesExact x.1.t x.2.1.t x.2.2.t := by
  intro x hx
  exact of_decide_eq_true (List.all_eq_true.mp table_B_parts.2.2 x hx)

/-- when the rates close exactly, the misclosure of the parameters is the same at every target date -/
theorem chainOkAt_date_independent {ab bc ac : Transformation} (hr : RatesExact ab bc ac)
    (h1 : ∃ e, ab.ref_epoch = some e) (h2 : ∃ e, bc.ref_epoch = some e)
    (h3 : ∃ e, ac.ref_epoch = some e) (d d' : Int × Int × Int) :
    ChainOkAt ab bc ac (years (some d) ab) (years (some d) bc) (years (some d) ac) ↔
    ChainOkAt ab bc ac (years (some d') ab) (years (some d') bc) (years (some d') ac) := by
  obtain ⟨e1, he1⟩ := h1
  obtain ⟨e2, he2⟩ := h2
  obtain ⟨e3, he3⟩ := h3
  have key : ∀ p1 p2 p3 r1 r2 r3 : ℚ, r1 + r2 = r3 →
      atEpoch p1 r1 (years (some d) ab) + atEpoch p2 r2 (years (some d) bc)
        - atEpoch p3 r3 (years (some d) ac) =
      atEpoch p1 r1 (years (some d') ab) + atEpoch p2 r2 (years (some d') bc)
        - atEpoch p3 r3 (years (some d') ac) := by
    intro p1 p2 p3 r1 r2 r3 h
    simp only [years, PyQ.dateDiffDays, he1, he2, he3, atEpoch]
    push_cast
    linear_combination (((Py.dateDays d : ℚ) - (Py.dateDays d' : ℚ)) / 365.25) * h
  unfold ChainOkAt
  rw [key _ _ _ _ _ _ hr.1, key _ _ _ _ _ _ hr.2.1, key _ _ _ _ _ _ hr.2.2.1,
    key _ _ _ _ _ _ hr.2.2.2.1, key _ _ _ _ _ _ hr.2.2.2.2.1, key _ _ _ _ _ _ hr.2.2.2.2.2.1,
    key _ _ _ _ _ _ hr.2.2.2.2.2.2]

/-- hence every chain closes within the published rounding when the three sets are brought to ANY
common date `d` (in particular every reference epoch occurring in the catalogue) -/
theorem chain_consistency_any_epoch : ∀ x ∈ triples, ∀ d : Int × Int × Int,
    ChainOkAt x.1.t x.2.1.t x.2.2.t (years (some d) x.1.t) (years (some d) x.2.1.t)
      (years (some d) x.2.2.t) := by
  intro x hx d
  obtain ⟨h1, h2, h3, h⟩ := chain_consistency x hx
  obtain ⟨d0, hd0⟩ := h3
  rw [hd0] at h
  exact (chainOkAt_date_independent (chain_rates_exact x hx) h1 h2 ⟨d0, hd0⟩ d d0).mpr h

/-! ## 7. Reference epochs -/

/-- an entry without a date epoch (Python: `ref_epoch=0`) has all seven rates 0 -/
theorem epochs : ∀ e ∈ catalogue_Transformation, e.2.ref_epoch = none → ratesZero e.2 := by
  have h : (catalogue_Transformation.all fun e =>
      e.2.ref_epoch.isSome || decide (ratesZero e.2)) = true := by decide +kernel
  intro e he hn
  have := List.all_eq_true.mp h e he
  simpa [hn] using this

/-- the 14 entries without a date epoch: GDA94↔GDA2020 and the six AGD sets with their reverses -/
theorem epochless_names :
    (catalogue_Transformation.filter fun e => e.2.ref_epoch.isNone).map (·.1) =
      ["gda94_to_gda2020", "gda2020_to_gda94", "agd84_to_gda94", "agd66_to_gda94",
       "agd66_to_gda94_act", "agd66_to_gda94_tas", "agd66_to_gda94_vicnsw", "agd66_to_gda94_nt",
       "gda94_to_agd84", "gda94_to_agd66", "gda94_to_agd66_act", "gda94_to_agd66_tas",
       "gda94_to_agd66_vicnsw", "gda94_to_agd66_nt"] := by
  decide +kernel

/-- an entry has a date epoch exactly when one of its two frames is an ITRF/ATRF realisation: all
sets built by `iers2trans`, the GDA94↔ITRF sets and the plate-motion sets ITRF2014/ATRF2014↔GDA2020 -/
theorem epochs_dated : ∀ e ∈ entries,
    (isTrf e.a = true ∨ isTrf e.b = true) ↔ ∃ d, e.t.ref_epoch = some d := by
  intro e he
  have h := List.all_eq_true.mp table_A_parts.2 e he
  simp only [beq_iff_eq] at h
  rw [← Option.isSome_iff_exists, ← h, Bool.or_eq_true]

/-- `iers2trans` passes its epoch through -/
theorem iers2trans_epoch (f t : String) (d : Int × Int × Int)
    (tx ty tz sc rx ry rz d_tx d_ty d_tz d_sc d_rx d_ry d_rz : ℚ) :
    (iers2trans f t (some d) tx ty tz sc rx ry rz d_tx d_ty d_tz d_sc d_rx d_ry d_rz).ref_epoch
      = some d := rfl

end GeodeVerif.C11
