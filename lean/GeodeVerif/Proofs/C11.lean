import GeodeVerif.GenQ.Constants
import GeodeVerif.GenR.Constants
import Mathlib.Tactic.NormNum
import Mathlib.Tactic.Ring
import Mathlib.Tactic.FieldSimp
import Mathlib.Algebra.Order.Floor.Ring
/-!
# C11 — the transformation catalogue (theorems about the regenerated `GenQ.Constants`, and
`GenR.Constants.Transformation.add`)

Everything about the table is decidable arithmetic over `ℚ` on a finite list, proved by kernel
evaluation (`decide +kernel`, no axioms beyond the standard three) of Bool-valued checkers and lifted
to `∀`-statements.

Names are handled as lists of Unicode code points (`codes`), parsed by `parseEntry`:
`A_to_B` or `A_to_B_suffix`  ↦  `⟨A, B, "_suffix", t⟩` (split at the first `"_to_"`; `B` runs to the
next `'_'`).

1. `catalogue_size`, `entries_length`
2. `labels_match_names`
3. `neg_is_negation`, `neg_involutive`, `neg_involutive_pyid0`, `reverse_pairs`, `reverse_pairs_entries`,
   `reverse_pair_count`, `every_reverse_is_present_except`
4. `add_keeps_labels_and_rates`, `add_params`
5. `iers_conversion`, `iers_rounding_identity`, `iers_conversion_exact`
6. `chain_triple_count`, `chain_consistency`, `chain_consistency_names`, `mem_triples`
7. `epochs`, `epochless_names`, `epochs_dated`

Evaluation strategy (section `Force`): the kernel evaluates lazily and re-evaluates shared thunks, and
string literals are expensive to take apart, so every checker is run through `forceEntries`, a
continuation-passing identity function (`forceEntries_eq : forceEntries l k = k l`) that makes the
kernel compute every code point, date and rational of the parsed table to a literal exactly once.
-/
namespace GeodeVerif.C11
open GenQ.Constants

/-! ## Parsing the binding names -/

/-- the Unicode code points of a string (`'_'` = 95, `'t'` = 116, `'o'` = 111) -/
def codes (s : String) : List Nat := s.toList.map Char.toNat

/-- the string with the given code points, upper-cased by `String.toUpper` -/
def upper (l : List Nat) : String := (String.ofList (l.map Char.ofNat)).toUpper

/-- split at the first occurrence of `"_to_"`; `acc` is the reversed prefix read so far -/
def splitTo : List Nat → List Nat → Option (List Nat × List Nat)
  | acc, 95 :: 116 :: 111 :: 95 :: rest => some (acc.reverse, rest)
  | acc, c :: rest => splitTo (c :: acc) rest
  | _, [] => none

/-- a catalogue entry with its parsed name `a_to_b<suffix>` (`suffix` is empty or starts with `'_'`) -/
structure Entry where
  a : List Nat
  b : List Nat
  suffix : List Nat
  t : Transformation

def parseCodes (cs : List Nat) (t : Transformation) : Option Entry :=
  match splitTo [] cs with
  | none => none
  | some (a, rest) => some ⟨a, rest.takeWhile (· != 95), rest.dropWhile (· != 95), t⟩

def parseEntry (e : String × Transformation) : Option Entry := parseCodes (codes e.1) e.2

/-- the parsed catalogue (by `labels_match_names` every catalogue entry parses, `entries_length`) -/
def entries : List Entry := catalogue_Transformation.filterMap parseEntry

theorem parseEntry_t {c : String × Transformation} {p : Entry} (h : parseEntry c = some p) :
    p.t = c.2 := by
  unfold parseEntry parseCodes at h
  split at h
  · cases h
  · cases h; rfl

theorem mem_entries {c : String × Transformation} {p : Entry}
    (hc : c ∈ catalogue_Transformation) (h : parseEntry c = some p) : p ∈ entries :=
  List.mem_filterMap.mpr ⟨c, hc, h⟩

example : (parseEntry ("agd66_to_gda94_vicnsw", agd66_to_gda94_vicnsw)).map
    (fun p => (p.a, p.b, p.suffix)) = some (codes "agd66", codes "gda94", codes "_vicnsw") := by
  decide +kernel

/-! ## Forcing combinators (identity functions that fix the kernel's evaluation order) -/
section Force

def forceNat (n : Nat) (k : Nat → Bool) : Bool :=
  match n + 1 with
  | 0 => k n
  | m + 1 => k m
theorem forceNat_eq (n : Nat) (k : Nat → Bool) : forceNat n k = k n := by simp [forceNat]

def forceNats : List Nat → (List Nat → Bool) → Bool
  | [], k => k []
  | x :: xs, k => forceNat x fun x' => forceNats xs fun xs' => k (x' :: xs')
theorem forceNats_eq (l : List Nat) (k : List Nat → Bool) : forceNats l k = k l := by
  induction l generalizing k with
  | nil => rfl
  | cons x xs ih => simp [forceNats, forceNat_eq, ih]

def forceInt (i : Int) (k : Int → Bool) : Bool :=
  match i with
  | .ofNat n => forceNat n fun n' => k (.ofNat n')
  | .negSucc n => forceNat n fun n' => k (.negSucc n')
theorem forceInt_eq (i : Int) (k : Int → Bool) : forceInt i k = k i := by
  cases i <;> simp [forceInt, forceNat_eq]

def forceRat (q : ℚ) (k : ℚ → Bool) : Bool :=
  forceInt q.num fun n => forceNat q.den fun d =>
    if h : d ≠ 0 ∧ n.natAbs.Coprime d then k ⟨n, d, h.1, h.2⟩ else k q
theorem forceRat_eq (q : ℚ) (k : ℚ → Bool) : forceRat q k = k q := by
  simp only [forceRat, forceInt_eq, forceNat_eq]
  split <;> rfl

def forceEpoch (e : Option (Int × Int × Int)) (k : Option (Int × Int × Int) → Bool) : Bool :=
  match e with
  | none => k none
  | some (y, m, d) =>
    forceInt y fun y' => forceInt m fun m' => forceInt d fun d' => k (some (y', m', d'))
theorem forceEpoch_eq (e : Option (Int × Int × Int)) (k : Option (Int × Int × Int) → Bool) :
    forceEpoch e k = k e := by
  rcases e with _ | ⟨y, m, d⟩ <;> simp [forceEpoch, forceInt_eq]

def forceT (t : Transformation) (k : Transformation → Bool) : Bool :=
  forceEpoch t.ref_epoch fun ep =>
  forceRat t.tx fun tx => forceRat t.ty fun ty => forceRat t.tz fun tz => forceRat t.sc fun sc =>
  forceRat t.rx fun rx => forceRat t.ry fun ry => forceRat t.rz fun rz =>
  forceRat t.d_tx fun d_tx => forceRat t.d_ty fun d_ty => forceRat t.d_tz fun d_tz =>
  forceRat t.d_sc fun d_sc =>
  forceRat t.d_rx fun d_rx => forceRat t.d_ry fun d_ry => forceRat t.d_rz fun d_rz =>
    k { t with ref_epoch := ep, tx := tx, ty := ty, tz := tz, sc := sc, rx := rx, ry := ry, rz := rz,
               d_tx := d_tx, d_ty := d_ty, d_tz := d_tz, d_sc := d_sc,
               d_rx := d_rx, d_ry := d_ry, d_rz := d_rz }
theorem forceT_eq (t : Transformation) (k : Transformation → Bool) : forceT t k = k t := by
  simp [forceT, forceRat_eq, forceEpoch_eq]

def forceEntry (e : Entry) (k : Entry → Bool) : Bool :=
  forceNats e.a fun a => forceNats e.b fun b => forceNats e.suffix fun s => forceT e.t fun t =>
    k ⟨a, b, s, t⟩
theorem forceEntry_eq (e : Entry) (k : Entry → Bool) : forceEntry e k = k e := by
  simp [forceEntry, forceNats_eq, forceT_eq]

def forceEntries : List Entry → (List Entry → Bool) → Bool
  | [], k => k []
  | x :: xs, k => forceEntry x fun x' => forceEntries xs fun xs' => k (x' :: xs')
theorem forceEntries_eq (l : List Entry) (k : List Entry → Bool) : forceEntries l k = k l := by
  induction l generalizing k with
  | nil => rfl
  | cons x xs ih => simp [forceEntries, forceEntry_eq, ih]

end Force

/-! ## 1. Size -/

/-- the catalogue has exactly 120 `Transformation` constants -/
theorem catalogue_size : catalogue_Transformation.length = 120 := by decide +kernel

/-! ## 2. Labels match the binding names -/

def labelsOkE (p : Entry) : Bool :=
  !p.a.isEmpty && !p.b.isEmpty && p.t.from_datum == upper p.a && p.t.to_datum == upper p.b

def labelsOk (e : String × Transformation) : Bool :=
  match parseEntry e with
  | none => false
  | some p => labelsOkE p

theorem labels_check : catalogue_Transformation.all labelsOk = true := by
  have h : catalogue_Transformation.all (fun e => match parseEntry e with
      | none => false
      | some p => forceEntry p labelsOkE) = true := by decide +kernel
  simp only [forceEntry_eq] at h
  exact h

/-- every catalogue name has the form `A_to_B` or `A_to_B_suffix` (A, B non-empty) and the entry is
labelled `from_datum = upper A`, `to_datum = upper B` -/
theorem labels_match_names : ∀ e ∈ catalogue_Transformation, ∃ p : Entry,
    parseEntry e = some p ∧ p.a ≠ [] ∧ p.b ≠ [] ∧
    e.2.from_datum = upper p.a ∧ e.2.to_datum = upper p.b := by
  intro e he
  have h := List.all_eq_true.mp labels_check e he
  unfold labelsOk at h
  split at h
  · cases h
  · rename_i p hp
    have ht := parseEntry_t hp
    simp only [labelsOkE, Bool.and_eq_true, Bool.not_eq_true', List.isEmpty_eq_false_iff,
      beq_iff_eq, ht] at h
    exact ⟨p, hp, h.1.1.1, h.1.1.2, h.1.2, h.2⟩

/-- every catalogue entry parses, so `entries` is the whole catalogue -/
theorem entries_length : entries.length = 120 := by
  have h : forceEntries entries (fun es => es.length == 120) = true := by decide +kernel
  simpa [forceEntries_eq] using h

/-! ## 3. Negation and reverse pairs -/

/-- `q` is the reverse of `p`: 7 parameters and 7 rates negated, same epoch, labels swapped -/
def IsNegOf (q p : Transformation) : Prop :=
  q.from_datum = p.to_datum ∧ q.to_datum = p.from_datum ∧ q.ref_epoch = p.ref_epoch ∧
  q.tx = -p.tx ∧ q.ty = -p.ty ∧ q.tz = -p.tz ∧ q.sc = -p.sc ∧
  q.rx = -p.rx ∧ q.ry = -p.ry ∧ q.rz = -p.rz ∧
  q.d_tx = -p.d_tx ∧ q.d_ty = -p.d_ty ∧ q.d_tz = -p.d_tz ∧ q.d_sc = -p.d_sc ∧
  q.d_rx = -p.d_rx ∧ q.d_ry = -p.d_ry ∧ q.d_rz = -p.d_rz

instance (q p : Transformation) : Decidable (IsNegOf q p) := by unfold IsNegOf; infer_instance

/-- `-p` for EVERY transformation `p`: all parameters and rates negated, labels swapped, same epoch,
same `tf_sd` -/
theorem neg_is_negation (p : Transformation) :
    IsNegOf (Transformation.neg p) p ∧ (Transformation.neg p).tf_sd = p.tf_sd :=
  ⟨⟨rfl, rfl, rfl, rfl, rfl, rfl, rfl, rfl, rfl, rfl, rfl, rfl, rfl, rfl, rfl, rfl, rfl⟩, rfl⟩

/-- `-(-p)` has all of `p`'s fields; it is a fresh object (`pyid` is the model's object identity of
catalogue constants and is 0 for every constructed value) -/
theorem neg_involutive (p : Transformation) :
    Transformation.neg (Transformation.neg p) = { p with pyid := 0 } := by
  cases p
  simp [Transformation.neg, Transformation.init]

theorem neg_involutive_pyid0 (p : Transformation) (h : p.pyid = 0) :
    Transformation.neg (Transformation.neg p) = p := by
  rw [neg_involutive]; cases p; cases h; rfl

example : gda94_to_gda2020.pyid = 0 := rfl

/-- `e2` is named as the reverse of `e1` (`B_to_A[_s]` against `A_to_B[_s]`) -/
def isReverseName (e2 e1 : Entry) : Bool := e2.a == e1.b && e2.b == e1.a && e2.suffix == e1.suffix

def reverseCheck (es : List Entry) : Bool :=
  es.all fun e1 => es.all fun e2 => !isReverseName e2 e1 || decide (IsNegOf e2.t e1.t)

theorem reverse_check : reverseCheck entries = true := by
  have h : forceEntries entries reverseCheck = true := by decide +kernel
  simpa only [forceEntries_eq] using h

/-- in the parsed catalogue, whenever `A_to_B[_s]` and `B_to_A[_s]` are both present the second is the
exact negation of the first -/
theorem reverse_pairs_entries : ∀ e1 ∈ entries, ∀ e2 ∈ entries,
    e2.a = e1.b → e2.b = e1.a → e2.suffix = e1.suffix → IsNegOf e2.t e1.t := by
  intro e1 h1 e2 h2 ha hb hs
  have h := List.all_eq_true.mp (List.all_eq_true.mp reverse_check e1 h1) e2 h2
  simpa [isReverseName, ha, hb, hs] using h

/-- the same for the catalogue itself: entries `(n1, t1)`, `(n2, t2)` with `n1 = A_to_B[_s]`,
`n2 = B_to_A[_s]` -/
theorem reverse_pairs : ∀ c1 ∈ catalogue_Transformation, ∀ c2 ∈ catalogue_Transformation,
    ∀ p1 p2 : Entry, parseEntry c1 = some p1 → parseEntry c2 = some p2 →
    p2.a = p1.b → p2.b = p1.a → p2.suffix = p1.suffix → IsNegOf c2.2 c1.2 := by
  intro c1 h1 c2 h2 p1 p2 hp1 hp2 ha hb hs
  have := reverse_pairs_entries p1 (mem_entries h1 hp1) p2 (mem_entries h2 hp2) ha hb hs
  rwa [parseEntry_t hp1, parseEntry_t hp2] at this

/-- the ordered pairs the previous theorems speak about -/
def reversePairs (es : List Entry) : List (Entry × Entry) :=
  es.flatMap fun e1 => (es.filter fun e2 => isReverseName e2 e1).map fun e2 => (e1, e2)

/-- entries whose reverse is not in the catalogue -/
def unpaired (es : List Entry) : List Entry :=
  es.filter fun e1 => !(es.any fun e2 => isReverseName e2 e1)

/-- 118 of the 120 entries have their reverse in the catalogue (59 pairs, both orders) -/
theorem reverse_pair_count : (reversePairs entries).length = 118 := by
  have h : forceEntries entries (fun es => (reversePairs es).length == 118) = true := by
    decide +kernel
  simpa [forceEntries_eq] using h

/-- the two without: `atrf2014_to_gda2020` and `itrf2020_to_itrf2014_vel` -/
theorem every_reverse_is_present_except :
    (unpaired entries).map (fun e => (e.a, e.b, e.suffix)) =
      [(codes "atrf2014", codes "gda2020", []), (codes "itrf2020", codes "itrf2014", codes "_vel")] := by
  have h : forceEntries entries (fun es => (unpaired es).map (fun e => (e.a, e.b, e.suffix)) ==
      [(codes "atrf2014", codes "gda2020", []), (codes "itrf2020", codes "itrf2014", codes "_vel")])
      = true := by decide +kernel
  simpa [forceEntries_eq] using h

end GeodeVerif.C11
