import GeodeVerif.Proofs.C20
import GeodeVerif.GenF.Api
/-!
# C20 — the regenerated reading of `api/app.py` is the hand model

`GenF/Api.lean` (namespace `GenApi`) is regenerated from `/repo/api/app.py` on every run by
`translator/api2lean.py`. The theorems below identify it with `Model/Api.lean`, for every record of
wired functions and every query, so the wiring theorems of `Proofs/C20.lean` are statements about the
text of `app.py` as it is now: a change to a query field name, a dispatch table, the order or the
number of arguments of a library call, a JSON key or a route breaks `gen_vincinv` / `gen_vincdir` /
`gen_routes` (or the translator rejects the file).

* `gen_in_table`, `gen_out_table` — the two dispatch dictionaries, with `default='dd'` for an absent key;
* `gen_vincinv`, `gen_vincdir` — handler text = model handler, all error paths included;
* `gen_routes`, `gen_index` — routed paths and the index;
* `gen_vincinv_wiring`, `gen_vincdir_wiring` — the Spec of `Proofs/C20.lean` holds of the regenerated handlers.
-/
namespace GeodeVerif.C20
open Api Py

variable {α : Type} (L : Lib α)

theorem gen_in_table (o : Option String) :
    GenApi.angle_type_to_dd L (o.getD "dd") = angleTypeToDd L o := by
  cases o with
  | none => simp [GenApi.angle_type_to_dd, angleTypeToDd]
  | some s => simp [GenApi.angle_type_to_dd, angleTypeToDd]

theorem gen_out_table (o : Option String) :
    GenApi.dd_to_angle_type L (o.getD "dd") = ddToAngleType L o := by
  cases o with
  | none => simp [GenApi.dd_to_angle_type, ddToAngleType]
  | some s => simp [GenApi.dd_to_angle_type, ddToAngleType]

theorem gen_vincinv (q : Query α) : GenApi.handle_vincinv L q = handleVincinv L q := by
  simp only [GenApi.handle_vincinv, handleVincinv, gen_in_table, gen_out_table]

theorem gen_vincdir (q : Query α) : GenApi.handle_vincdir L q = handleVincdir L q := by
  simp only [GenApi.handle_vincdir, handleVincdir, gen_in_table, gen_out_table]

theorem gen_routes : GenApi.routes = Api.routes := rfl

theorem gen_index : GenApi.list_routes = Api.listRoutes := rfl

/-- the contract of `/vincinv` holds of the regenerated handler -/
theorem gen_vincinv_wiring (q : Query α) : GenApi.handle_vincinv L q = Spec.vincinv L q := by
  rw [gen_vincinv]; exact vincinv_wiring L q

/-- the contract of `/vincdir` holds of the regenerated handler -/
theorem gen_vincdir_wiring (q : Query α) : GenApi.handle_vincdir L q = Spec.vincdir L q := by
  rw [gen_vincdir]; exact vincdir_wiring L q

end GeodeVerif.C20
