import GeodeVerif.Model.Coord
import Mathlib.Algebra.Group.Basic
/-!
# C15 — coordinate objects: theorems about the generic model `Model/Coord.lean`

All theorems are about the definitions of `Model/Coord.lean` for an ARBITRARY record `cv : Conv α E P`
of conversion functions (the four functional conversions, the notation conversions, subtraction) — the
same definitions the driver `crddrv` executes at `cv := Crd.convF` (generated `GenF.Convert.*` + the
`Float` angle model) and that `harness/corr_coord.py` ties to the real classes. The model follows
/repo WITH `tools/proposed_fixes/C15-1.diff`, `C15-2.diff`, `C15-3.diff`.

1. **same_numbers** — `same_numbers_geo_cart`, `same_numbers_geo_tm`, `same_numbers_cart_geo`,
   `same_numbers_tm_geo`, `same_numbers_cart_tm`, `same_numbers_tm_cart`, `same_numbers_notation_*`
   and the bundle `same_numbers`: each method returns exactly `cv.f` of its fields for the ellipsoid,
   the projection (the call's for `geo → tm`, the stored one for `tm → geo`) and the notation requested,
   and fails exactly when `cv.f` fails.
2. **heights_carried** — `geo ↔ tm` (and `notation`) keep `ell_ht`, `orth_ht` exactly (`none`, `0`, any).
3. **n_value** — `cart → geo`: `orth = ell − N` iff N is present (also `N = 0`); `geo → cart`:
   `N = ell − orth` iff both are present (also zeros); `n_value_roundtrip` (additive group): if the
   height comes back, the orthometric height comes back.
4. **notation_total** — for every source and target among the six types `notation` returns a value
   of the requested type with the heights unchanged (given that the supplied angle conversions return);
   `notation_same_angles`: it denotes the same angles whenever the supplied conversions do.
5. **chain_closed** — by induction over any list of calls: the position part of the result is a
   function of the position part of the start only (`chain_closed_position`: N and orthometric height
   never influence it, so it is the composition of the conversion functions), the geoid separation
   `N = ell − orth` is the same at every link (`chain_closed_sep`, additive group), and heights are
   untouched as long as the chain stays off Cartesian form (`chain_closed_heights`).
Not proved here: the 0.3 mm closure in binary64 (C02/C03's numeric matter; searched by probes/C15.py).
-/
namespace GeodeVerif.C15
open Crd Py Ang

variable {α E P : Type} (cv : Conv α E P)

/-! ## The executable instance is the generic model at the generated functions -/

theorem convF_llh2xyz : convF.llh2xyz = GenF.Convert.llh2xyz := rfl
theorem convF_xyz2llh : convF.xyz2llh = GenF.Convert.xyz2llh := rfl
theorem convF_grid2geo (z : Int) (e n : Float) (h : String) (el : GenF.Constants.Ellipsoid)
    (p : GenF.Constants.Projection) :
    convF.grid2geo z e n h el p = GenF.Convert.grid2geo (Float.ofInt z) e n h el p := rfl
theorem convF_geo2grid (lat lon : Float) (z : Int) (el : GenF.Constants.Ellipsoid)
    (p : GenF.Constants.Projection) :
    convF.geo2grid lat lon z el p =
      (GenF.Convert.geo2grid lat lon (Float.ofInt z) el p).map
        (fun (h, z, east, north, psf, gc) => (h, Ang.F.trunc z, east, north, psf, gc)) := rfl
theorem convF_defaults : convF.grs80 = GenF.Constants.grs80 ∧ convF.utm = GenF.Constants.utm := ⟨rfl, rfl⟩

/-! ## Small facts about `Except` used below -/

private theorem map_ok {ε β γ} (f : β → γ) (x : Except ε β) (v : γ) :
    x.map f = .ok v ↔ ∃ b, x = .ok b ∧ f b = v := by
  cases x <;> simp [Except.map]

private theorem bind_ok {ε β γ} (f : β → Except ε γ) (x : Except ε β) (v : γ) :
    x.bind f = .ok v ↔ ∃ b, x = .ok b ∧ f b = .ok v := by
  cases x <;> simp [Except.bind]

private theorem map_map' {ε β γ δ} (f : β → γ) (g : γ → δ) (x : Except ε β) :
    (x.map f).map g = x.map (fun a => g (f a)) := by
  cases x <;> rfl

/-- the N value `CoordGeo.cart` produces from the two heights -/
def nOf (ell orth : Option α) : Option α :=
  match ell, orth with
  | some a, some b => some (cv.sub a b)
  | _, _ => none

/-! ## 1. same_numbers -/

/-- `geo.cart(e)` = `llh2xyz(lat, lon, ell_ht or 0, e)`, N from the two heights -/
theorem same_numbers_geo_cart (g : CoordGeo α) (e : Option E) :
    g.cart cv e =
      (cv.llh2xyzA g.lat g.lon (g.ell_ht.getD cv.zero) (e.getD cv.grs80)).map
        (fun r => { xaxis := r.1, yaxis := r.2.1, zaxis := r.2.2, nval := nOf cv g.ell_ht g.orth_ht }) := by
  unfold CoordGeo.cart nOf
  cases hl : g.ell_ht <;> cases ho : g.orth_ht <;>
    simp only [Option.getD_none, Option.getD_some, bind, Except.bind, pure, Except.pure] <;>
    cases cv.llh2xyzA g.lat g.lon _ (e.getD cv.grs80) <;> rfl

/-- `geo.tm(e, p)` = `geo2grid(lat, lon, 0, e, p)` with the CALL's projection, which is also stored -/
theorem same_numbers_geo_tm (g : CoordGeo α) (e : Option E) (p : Option P) :
    g.tm cv e p =
      (cv.geo2gridA g.lat g.lon 0 (e.getD cv.grs80) (p.getD cv.utm)).map
        (fun r => { zone := r.2.1, east := r.2.2.1, north := r.2.2.2.1, ell_ht := g.ell_ht,
                    orth_ht := g.orth_ht, hemi_north := r.1 == "North", projection := p.getD cv.utm }) := by
  unfold CoordGeo.tm
  simp only [bind, Except.bind, pure, Except.pure]
  cases cv.geo2gridA g.lat g.lon 0 (e.getD cv.grs80) (p.getD cv.utm) <;> rfl

/-- `cart.geo(e, nt)` when the functional conversion and the notation wrapping return -/
theorem same_numbers_cart_geo (c : CoordCart α) (e : Option E) (nt : Option Notation)
    {φ l h : α} {lat lon : LatLon α}
    (hx : cv.xyz2llh c.xaxis c.yaxis c.zaxis (e.getD cv.grs80) = .ok (φ, l, h))
    (hlat : cv.wrap (nt.getD (.cls .DEC)) φ = .ok lat) (hlon : cv.wrap (nt.getD (.cls .DEC)) l = .ok lon)
    (hk : lat.kind = lon.kind) :
    c.geo cv e nt = .ok { lat := lat, lon := lon, ell_ht := some h, orth_ht := c.nval.map (cv.sub h) } := by
  unfold CoordCart.geo
  cases hn : c.nval <;>
    simp [hx, hlat, hlon, hk, CoordGeo.new, bind, Except.bind]

/-- `cart.geo` raises what `xyz2llh` raises -/
theorem same_numbers_cart_geo_err (c : CoordCart α) (e : Option E) (nt : Option Notation) {err : PyErr}
    (hx : cv.xyz2llh c.xaxis c.yaxis c.zaxis (e.getD cv.grs80) = .error err) :
    c.geo cv e nt = .error err := by
  unfold CoordCart.geo
  simp [hx, bind, Except.bind]

/-- `tm.geo(e, nt)` = `grid2geo(zone, east, north, hemisphere, e, self.projection)` in the notation asked -/
theorem same_numbers_tm_geo (t : CoordTM α P) (e : Option E) (nt : Option Notation)
    {φ l psf gc : α} {lat lon : LatLon α}
    (hx : cv.grid2geo t.zone t.east t.north (if t.hemi_north then "north" else "south") (e.getD cv.grs80)
            t.projection = .ok (φ, l, psf, gc))
    (hlat : cv.wrap (nt.getD (.cls .DEC)) φ = .ok lat) (hlon : cv.wrap (nt.getD (.cls .DEC)) l = .ok lon)
    (hk : lat.kind = lon.kind) :
    t.geo cv e nt = .ok { lat := lat, lon := lon, ell_ht := t.ell_ht, orth_ht := t.orth_ht } := by
  unfold CoordTM.geo
  simp [hx, hlat, hlon, hk, CoordGeo.new, bind, Except.bind]

/-- `tm.geo` raises what `grid2geo` raises (e.g. an ISG zone with the stored projection UTM) -/
theorem same_numbers_tm_geo_err (t : CoordTM α P) (e : Option E) (nt : Option Notation) {err : PyErr}
    (hx : cv.grid2geo t.zone t.east t.north (if t.hemi_north then "north" else "south") (e.getD cv.grs80)
            t.projection = .error err) :
    t.geo cv e nt = .error err := by
  unfold CoordTM.geo
  simp [hx, bind, Except.bind]

/-- `cart.tm(e, p)` is `cart.geo(e)` (default notation) followed by `geo.tm(e, p)` with the same
ellipsoid and the call's projection -/
theorem same_numbers_cart_tm (c : CoordCart α) (e : Option E) (p : Option P) :
    c.tm cv e p =
      (c.geo cv (some (e.getD cv.grs80)) none).bind
        (fun g => g.tm cv (some (e.getD cv.grs80)) (some (p.getD cv.utm))) := by
  rfl

/-- `tm.cart(e)` is `tm.geo(e)` followed by `geo.cart(e)` -/
theorem same_numbers_tm_cart (t : CoordTM α P) (e : Option E) :
    t.cart cv e =
      (t.geo cv (some (e.getD cv.grs80)) none).bind (fun g => g.cart cv (some (e.getD cv.grs80))) := by
  rfl

/-- `notation(nt)` with `nt` the present type: the same fields -/
theorem same_numbers_notation_same (g : CoordGeo α) (hk : g.lat.kind = g.lon.kind) :
    g.notate cv g.lat.kind = .ok g := by
  unfold CoordGeo.notate
  simp [CoordGeo.new, hk]

/-- `notation(cls)` from floats: `DECAngle(x)` / `dec2hpa(x)` / … of both fields -/
theorem same_numbers_notation_float (x y : α) (ell orth : Option α) (c : Cls) {a b : AngleObj α}
    (ha : cv.fltTo c x = .ok a) (hb : cv.fltTo c y = .ok b) (hc : a.cls = b.cls) :
    (CoordGeo.mk (.flt x) (.flt y) ell orth).notate cv (.cls c) =
      .ok { lat := .obj a, lon := .obj b, ell_ht := ell, orth_ht := orth } := by
  unfold CoordGeo.notate
  simp [LatLon.kind, Conv.fromFloat, ha, hb, hc, CoordGeo.new, Except.map, bind, Except.bind]

/-- `notation(float)` from objects: `.dec()` of both fields -/
theorem same_numbers_notation_dec (a b : AngleObj α) (ell orth : Option α) {x y : α}
    (ha : cv.objDec a = .ok x) (hb : cv.objDec b = .ok y) :
    (CoordGeo.mk (.obj a) (.obj b) ell orth).notate cv .flt =
      .ok { lat := .flt x, lon := .flt y, ell_ht := ell, orth_ht := orth } := by
  unfold CoordGeo.notate
  simp [LatLon.kind, Conv.fromObj, ha, hb, CoordGeo.new, Except.map, bind, Except.bind]

/-- `notation(cls)` from objects of another class: `.deca()` / `.hpa()` / … of both fields -/
theorem same_numbers_notation_obj (a b : AngleObj α) (ell orth : Option α) (c : Cls) (hne : c ≠ a.cls)
    {a' b' : AngleObj α} (ha : cv.objTo c a = .ok a') (hb : cv.objTo c b = .ok b') (hc : a'.cls = b'.cls) :
    (CoordGeo.mk (.obj a) (.obj b) ell orth).notate cv (.cls c) =
      .ok { lat := .obj a', lon := .obj b', ell_ht := ell, orth_ht := orth } := by
  unfold CoordGeo.notate
  have : ¬ (Notation.cls c = Notation.cls a.cls) := by
    intro h; exact hne (by injection h)
  simp [LatLon.kind, this, Conv.fromObj, ha, hb, hc, CoordGeo.new, Except.map, bind, Except.bind]

/-- the bundle: the five conversion methods, each as the functional conversion of its fields -/
theorem same_numbers :
    (∀ (g : CoordGeo α) (e : Option E),
      g.cart cv e = (cv.llh2xyzA g.lat g.lon (g.ell_ht.getD cv.zero) (e.getD cv.grs80)).map
        (fun r => { xaxis := r.1, yaxis := r.2.1, zaxis := r.2.2, nval := nOf cv g.ell_ht g.orth_ht })) ∧
    (∀ (g : CoordGeo α) (e : Option E) (p : Option P),
      g.tm cv e p = (cv.geo2gridA g.lat g.lon 0 (e.getD cv.grs80) (p.getD cv.utm)).map
        (fun r => { zone := r.2.1, east := r.2.2.1, north := r.2.2.2.1, ell_ht := g.ell_ht,
                    orth_ht := g.orth_ht, hemi_north := r.1 == "North", projection := p.getD cv.utm })) ∧
    (∀ (c : CoordCart α) (e : Option E) (nt : Option Notation) (φ l h : α) (lat lon : LatLon α),
      cv.xyz2llh c.xaxis c.yaxis c.zaxis (e.getD cv.grs80) = .ok (φ, l, h) →
      cv.wrap (nt.getD (.cls .DEC)) φ = .ok lat → cv.wrap (nt.getD (.cls .DEC)) l = .ok lon →
      lat.kind = lon.kind →
      c.geo cv e nt = .ok { lat := lat, lon := lon, ell_ht := some h, orth_ht := c.nval.map (cv.sub h) }) ∧
    (∀ (t : CoordTM α P) (e : Option E) (nt : Option Notation) (φ l psf gc : α) (lat lon : LatLon α),
      cv.grid2geo t.zone t.east t.north (if t.hemi_north then "north" else "south") (e.getD cv.grs80)
        t.projection = .ok (φ, l, psf, gc) →
      cv.wrap (nt.getD (.cls .DEC)) φ = .ok lat → cv.wrap (nt.getD (.cls .DEC)) l = .ok lon →
      lat.kind = lon.kind →
      t.geo cv e nt = .ok { lat := lat, lon := lon, ell_ht := t.ell_ht, orth_ht := t.orth_ht }) :=
  ⟨same_numbers_geo_cart cv, same_numbers_geo_tm cv,
   fun c e nt _ _ _ _ _ hx h1 h2 hk => same_numbers_cart_geo cv c e nt hx h1 h2 hk,
   fun t e nt _ _ _ _ _ _ hx h1 h2 hk => same_numbers_tm_geo cv t e nt hx h1 h2 hk⟩

/-! ## 2. heights_carried -/

theorem heights_carried_geo_tm (g : CoordGeo α) (e : Option E) (p : Option P) {t : CoordTM α P}
    (h : g.tm cv e p = .ok t) : t.ell_ht = g.ell_ht ∧ t.orth_ht = g.orth_ht := by
  rw [same_numbers_geo_tm] at h
  obtain ⟨r, _, rfl⟩ := (map_ok _ _ _).1 h
  exact ⟨rfl, rfl⟩

theorem heights_carried_tm_geo (t : CoordTM α P) (e : Option E) (nt : Option Notation) {g : CoordGeo α}
    (h : t.geo cv e nt = .ok g) : g.ell_ht = t.ell_ht ∧ g.orth_ht = t.orth_ht := by
  unfold CoordTM.geo at h
  simp only [bind, Except.bind] at h
  split at h
  · cases h
  · split at h
    · cases h
    · split at h
      · cases h
      · unfold CoordGeo.new at h
        split at h
        · cases h
        · cases h; exact ⟨rfl, rfl⟩

private theorem new_heights {lat lon : LatLon α} {ell orth : Option α} {g : CoordGeo α}
    (h : CoordGeo.new lat lon ell orth = .ok g) : g.ell_ht = ell ∧ g.orth_ht = orth ∧ g.lat = lat ∧ g.lon = lon := by
  unfold CoordGeo.new at h
  split at h
  · cases h
  · cases h; exact ⟨rfl, rfl, rfl, rfl⟩

theorem heights_carried_notation (g : CoordGeo α) (nt : Notation) {g' : CoordGeo α}
    (h : g.notate cv nt = .ok g') : g'.ell_ht = g.ell_ht ∧ g'.orth_ht = g.orth_ht := by
  unfold CoordGeo.notate at h
  split at h
  · exact ⟨(new_heights h).1, (new_heights h).2.1⟩
  · split at h <;> simp only [bind, Except.bind] at h <;>
    · split at h
      · cases h
      · split at h
        · cases h
        · exact ⟨(new_heights h).1, (new_heights h).2.1⟩

/-- `geo ↔ tm` carry both heights exactly, whatever they are (`none`, `0`, a value) -/
theorem heights_carried :
    (∀ (g : CoordGeo α) (e : Option E) (p : Option P) (t : CoordTM α P),
      g.tm cv e p = .ok t → t.ell_ht = g.ell_ht ∧ t.orth_ht = g.orth_ht) ∧
    (∀ (t : CoordTM α P) (e : Option E) (nt : Option Notation) (g : CoordGeo α),
      t.geo cv e nt = .ok g → g.ell_ht = t.ell_ht ∧ g.orth_ht = t.orth_ht) :=
  ⟨fun g e p _ h => heights_carried_geo_tm cv g e p h, fun t e nt _ h => heights_carried_tm_geo cv t e nt h⟩

/-! ## 3. n_value -/

/-- `cart → geo`: the ellipsoid height is the one `xyz2llh` returns and `orth_ht = ell_ht − N` exactly
when an N value is present (whatever its value, `0` included); no N, no orthometric height -/
theorem n_value_cart_geo (c : CoordCart α) (e : Option E) (nt : Option Notation) {g : CoordGeo α}
    (h : c.geo cv e nt = .ok g) :
    ∃ φ l ht, cv.xyz2llh c.xaxis c.yaxis c.zaxis (e.getD cv.grs80) = .ok (φ, l, ht) ∧
      g.ell_ht = some ht ∧ g.orth_ht = c.nval.map (cv.sub ht) := by
  unfold CoordCart.geo at h
  simp only [bind, Except.bind] at h
  split at h
  · cases h
  · rename_i r hr
    obtain ⟨φ, l, ht⟩ := r
    refine ⟨φ, l, ht, hr, ?_⟩
    split at h
    · cases h
    · split at h
      · cases h
      · split at h
        · rename_i hn
          have := new_heights h
          simp [this.1, this.2.1, hn]
        · rename_i n hn
          have := new_heights h
          simp [this.1, this.2.1, hn]

/-- `geo → cart`: `N = ell_ht − orth_ht` exactly when both heights are present (zeros included) -/
theorem n_value_geo_cart (g : CoordGeo α) (e : Option E) {c : CoordCart α} (h : g.cart cv e = .ok c) :
    c.nval = nOf cv g.ell_ht g.orth_ht := by
  rw [same_numbers_geo_cart] at h
  obtain ⟨r, _, rfl⟩ := (map_ok _ _ _).1 h
  rfl

theorem n_value_geo_cart_both (g : CoordGeo α) (e : Option E) {c : CoordCart α} {a b : α}
    (ha : g.ell_ht = some a) (hb : g.orth_ht = some b) (h : g.cart cv e = .ok c) :
    c.nval = some (cv.sub a b) := by
  rw [n_value_geo_cart cv g e h, ha, hb]; rfl

/-- the witnesses of the unpatched defect, in the model: a height that is exactly `0` is a height -/
theorem n_value_zero_heights (g : CoordGeo α) (e : Option E) {c : CoordCart α} {a : α}
    (h : g.cart cv e = .ok c) :
    (g.ell_ht = some a → g.orth_ht = some cv.zero → c.nval = some (cv.sub a cv.zero)) ∧
    (g.ell_ht = some cv.zero → g.orth_ht = some a → c.nval = some (cv.sub cv.zero a)) :=
  ⟨fun ha hb => n_value_geo_cart_both cv g e ha hb h, fun ha hb => n_value_geo_cart_both cv g e ha hb h⟩

/-- the constructor keeps a given N, `0` included -/
theorem n_value_ctor (x y z n : α) : (CoordCart.new x y z (some n)).nval = some n := rfl

/-- `tm → cart`: N from the projected object's two heights -/
theorem n_value_tm_cart (t : CoordTM α P) (e : Option E) {c : CoordCart α} (h : t.cart cv e = .ok c) :
    c.nval = nOf cv t.ell_ht t.orth_ht := by
  rw [same_numbers_tm_cart] at h
  cases hg : t.geo cv (some (e.getD cv.grs80)) none with
  | error err => rw [hg] at h; cases h
  | ok g =>
    rw [hg] at h
    have hh := heights_carried_tm_geo cv t _ _ hg
    have := n_value_geo_cart cv g _ h
    rw [this, hh.1, hh.2]

/-- `cart → tm`: `orth_ht = ell_ht − N` on the projected object -/
theorem n_value_cart_tm (c : CoordCart α) (e : Option E) (p : Option P) {t : CoordTM α P}
    (h : c.tm cv e p = .ok t) :
    ∃ φ l ht, cv.xyz2llh c.xaxis c.yaxis c.zaxis (e.getD cv.grs80) = .ok (φ, l, ht) ∧
      t.ell_ht = some ht ∧ t.orth_ht = c.nval.map (cv.sub ht) := by
  rw [same_numbers_cart_tm] at h
  cases hg : c.geo cv (some (e.getD cv.grs80)) none with
  | error err => rw [hg] at h; cases h
  | ok g =>
    rw [hg] at h
    obtain ⟨φ, l, ht, hx, h1, h2⟩ := n_value_cart_geo cv c _ _ hg
    have hh := heights_carried_geo_tm cv g _ _ h
    exact ⟨φ, l, ht, by simpa using hx, by rw [hh.1, h1], by rw [hh.2, h2]⟩

/-- bundle -/
theorem n_value :
    (∀ (c : CoordCart α) (e : Option E) (nt : Option Notation) (g : CoordGeo α), c.geo cv e nt = .ok g →
      ∃ φ l ht, cv.xyz2llh c.xaxis c.yaxis c.zaxis (e.getD cv.grs80) = .ok (φ, l, ht) ∧
        g.ell_ht = some ht ∧ g.orth_ht = c.nval.map (cv.sub ht)) ∧
    (∀ (g : CoordGeo α) (e : Option E) (c : CoordCart α), g.cart cv e = .ok c →
      c.nval = nOf cv g.ell_ht g.orth_ht) :=
  ⟨fun c e nt _ h => n_value_cart_geo cv c e nt h, fun g e _ h => n_value_geo_cart cv g e h⟩

/-- in exact arithmetic: geo → cart → geo gives back the orthometric height whenever `xyz2llh` gives
back the ellipsoid height -/
theorem n_value_roundtrip [AddCommGroup α] (hsub : ∀ a b, cv.sub a b = a - b)
    (g : CoordGeo α) (e e' : Option E) (nt : Option Notation) {c : CoordCart α} {g' : CoordGeo α} {a b : α}
    (ha : g.ell_ht = some a) (hb : g.orth_ht = some b)
    (h1 : g.cart cv e = .ok c) (h2 : c.geo cv e' nt = .ok g') (hback : g'.ell_ht = some a) :
    g'.orth_ht = some b := by
  obtain ⟨φ, l, ht, _, he, ho⟩ := n_value_cart_geo cv c e' nt h2
  have hn := n_value_geo_cart_both cv g e ha hb h1
  rw [he] at hback
  cases hback
  rw [ho, hn]
  simp [hsub]

/-! ## 4. notation_total -/

/-- the supplied angle conversions return an object of the class asked for -/
structure ClassOK : Prop where
  fltTo : ∀ c x o, cv.fltTo c x = .ok o → o.cls = c
  objTo : ∀ c o o', cv.objTo c o = .ok o' → o'.cls = c

/-- the supplied angle conversions return (they are total on what they are given) -/
structure ConvTotal : Prop where
  fltTo : ∀ c x, ∃ o, cv.fltTo c x = .ok o
  objDec : ∀ o, ∃ x, cv.objDec o = .ok x
  objTo : ∀ c o, c ≠ o.cls → ∃ o', cv.objTo c o = .ok o'

/-- every one of the 6 × 6 source/target pairs returns a `CoordGeo` of the requested type with the
heights unchanged: nothing in `notation` itself can fail (no unbound variable, no missing method) -/
theorem notation_total (hc : ClassOK cv) (ht : ConvTotal cv) (g : CoordGeo α)
    (hk : g.lat.kind = g.lon.kind) (nt : Notation) :
    ∃ g', g.notate cv nt = .ok g' ∧ g'.lat.kind = nt ∧ g'.lon.kind = nt ∧
      g'.ell_ht = g.ell_ht ∧ g'.orth_ht = g.orth_ht := by
  obtain ⟨lat, lon, ell, orth⟩ := g
  simp only at hk
  by_cases hsame : nt = lat.kind
  · subst hsame
    exact ⟨_, same_numbers_notation_same cv _ hk, rfl, hk.symm, rfl, rfl⟩
  · cases lat with
    | flt x =>
      cases lon with
      | obj b => simp [LatLon.kind] at hk
      | flt y =>
        cases nt with
        | flt => exact absurd rfl hsame
        | cls c =>
          obtain ⟨a, ha⟩ := ht.fltTo c x
          obtain ⟨b, hb⟩ := ht.fltTo c y
          have hab : a.cls = b.cls := by rw [hc.fltTo _ _ _ ha, hc.fltTo _ _ _ hb]
          refine ⟨_, same_numbers_notation_float cv x y ell orth c ha hb hab, ?_, ?_, rfl, rfl⟩
          · simp [LatLon.kind, hc.fltTo _ _ _ ha]
          · simp [LatLon.kind, hc.fltTo _ _ _ hb]
    | obj a =>
      cases lon with
      | flt y => simp [LatLon.kind] at hk
      | obj b =>
        have hcls : a.cls = b.cls := by simpa [LatLon.kind] using hk
        cases nt with
        | flt =>
          obtain ⟨x, hx⟩ := ht.objDec a
          obtain ⟨y, hy⟩ := ht.objDec b
          exact ⟨_, same_numbers_notation_dec cv a b ell orth hx hy, rfl, rfl, rfl, rfl⟩
        | cls c =>
          have hne : c ≠ a.cls := fun h => hsame (by simp [LatLon.kind, h])
          obtain ⟨a', ha⟩ := ht.objTo c a hne
          obtain ⟨b', hb⟩ := ht.objTo c b (hcls ▸ hne)
          have hab : a'.cls = b'.cls := by rw [hc.objTo _ _ _ ha, hc.objTo _ _ _ hb]
          refine ⟨_, same_numbers_notation_obj cv a b ell orth c hne ha hb hab, ?_, ?_, rfl, rfl⟩
          · simp [LatLon.kind, hc.objTo _ _ _ ha]
          · simp [LatLon.kind, hc.objTo _ _ _ hb]

/-- the 36 pairs, spelled out: source type `s`, target type `t` -/
theorem notation_total_pairs (hc : ClassOK cv) (ht : ConvTotal cv) (s t : Notation) (g : CoordGeo α)
    (hs : g.lat.kind = s) (hs' : g.lon.kind = s) :
    ∃ g', g.notate cv t = .ok g' ∧ g'.lat.kind = t ∧ g'.lon.kind = t :=
  let ⟨g', h, h1, h2, _⟩ := notation_total cv hc ht g (hs.trans hs'.symm) t
  ⟨g', h, h1, h2⟩

/-- the angle functions of `geodepy.angles` as `coord.py` spells them do return the class asked for,
in every arithmetic -/
private theorem mkHP_cls {β : Type} [Add β] [Sub β] [Mul β] [Div β] [Neg β] [AngArith β] {x : β}
    {o : AngleObj β} (h : mkHP x = .ok o) : o.cls = .HP := by
  unfold mkHP at h
  split at h
  · cases h
  · cases h; rfl

theorem ang_classOK {β : Type} [Add β] [Sub β] [Mul β] [Div β] [Neg β] [AngArith β] :
    (∀ c (x : β) o, Crd.fltTo c x = .ok o → o.cls = c) ∧
    (∀ c (o o' : AngleObj β), Crd.objTo c o = .ok o' → o'.cls = c) ∧
    (∀ c (x : β) o, Crd.decaTo c x = .ok o → o.cls = c) := by
  refine ⟨?_, ?_, ?_⟩
  · intro c x o h
    cases c <;> simp only [Crd.fltTo] at h
    · injection h with h; subst h; rfl
    · exact mkHP_cls h
    · injection h with h; subst h; rfl
    · injection h with h; subst h; rfl
    · injection h with h; subst h; rfl
  · intro c o o' h
    cases c <;> simp only [Crd.objTo] at h
    · cases o <;> simp only [AngleObj.deca] at h <;>
        first | (obtain ⟨b, _, rfl⟩ := (map_ok _ _ _).1 h; rfl) | exact nomatch h
    · cases o <;> simp only [AngleObj.hpa] at h <;>
        first | (obtain ⟨b, _, hb⟩ := (bind_ok _ _ _).1 h; exact mkHP_cls hb) | exact nomatch h
    · cases o <;> simp only [AngleObj.gona] at h <;>
        first | (obtain ⟨b, _, rfl⟩ := (map_ok _ _ _).1 h; rfl) | exact nomatch h
    · cases o <;> simp only [AngleObj.dms] at h <;>
        first | (injection h with h; subst h; rfl) | exact nomatch h
    · cases o <;> simp only [AngleObj.ddm] at h <;>
        first | (injection h with h; subst h; rfl) | exact nomatch h
  · intro c x o h
    cases c <;> simp only [Crd.decaTo] at h
    · injection h with h; subst h; rfl
    · simp only [AngleObj.hpa] at h
      obtain ⟨b, _, hb⟩ := (bind_ok _ _ _).1 h
      exact mkHP_cls hb
    · simp only [AngleObj.gona] at h
      obtain ⟨b, _, rfl⟩ := (map_ok _ _ _).1 h
      rfl
    · simp only [AngleObj.dms] at h; injection h with h; subst h; rfl
    · simp only [AngleObj.ddm] at h; injection h with h; subst h; rfl

/-- denotation of a latitude/longitude field, given a denotation of angle objects -/
def LatLon.den (den : AngleObj α → α) : LatLon α → α
  | .flt x => x
  | .obj o => den o

/-- `notation` changes only the representation: if the supplied conversions preserve the denoted
angle (C08 proves this of `geodepy.angles` in exact arithmetic), so does `notation`, for every pair -/
theorem notation_same_angles (den : AngleObj α → α)
    (hflt : ∀ c x o, cv.fltTo c x = .ok o → den o = x)
    (hdec : ∀ o x, cv.objDec o = .ok x → x = den o)
    (hobj : ∀ c o o', cv.objTo c o = .ok o' → den o' = den o)
    (g : CoordGeo α) (nt : Notation) {g' : CoordGeo α} (h : g.notate cv nt = .ok g') :
    LatLon.den den g'.lat = LatLon.den den g.lat ∧ LatLon.den den g'.lon = LatLon.den den g.lon := by
  have field_flt : ∀ (v v' : LatLon α), cv.fromFloat nt v = .ok v' → LatLon.den den v' = LatLon.den den v := by
    intro v v' hv
    cases v with
    | obj o => simp [Conv.fromFloat] at hv
    | flt x =>
      cases nt with
      | flt => simp [Conv.fromFloat] at hv
      | cls c =>
        simp only [Conv.fromFloat] at hv
        obtain ⟨o, ho, rfl⟩ := (map_ok _ _ _).1 hv
        exact hflt c x o ho
  have field_obj : ∀ (v v' : LatLon α), cv.fromObj nt v = .ok v' → LatLon.den den v' = LatLon.den den v := by
    intro v v' hv
    cases v with
    | flt x => simp [Conv.fromObj] at hv
    | obj o =>
      cases nt with
      | flt =>
        simp only [Conv.fromObj] at hv
        obtain ⟨x, hx, rfl⟩ := (map_ok _ _ _).1 hv
        exact hdec o x hx
      | cls c =>
        simp only [Conv.fromObj] at hv
        obtain ⟨o', ho, rfl⟩ := (map_ok _ _ _).1 hv
        exact hobj c o o' ho
  unfold CoordGeo.notate at h
  split at h
  · have := new_heights h
    rw [this.2.2.1, this.2.2.2]; exact ⟨rfl, rfl⟩
  · split at h <;> simp only [bind, Except.bind] at h
    · split at h
      · cases h
      · rename_i la hla
        split at h
        · cases h
        · rename_i lo hlo
          have := new_heights h
          rw [this.2.2.1, this.2.2.2]
          exact ⟨by rw [field_flt _ _ hla], by rw [field_flt _ _ hlo]⟩
    · split at h
      · cases h
      · rename_i la hla
        split at h
        · cases h
        · rename_i lo hlo
          have := new_heights h
          rw [this.2.2.1, this.2.2.2]
          exact ⟨by rw [field_obj _ _ hla], by rw [field_obj _ _ hlo]⟩

/-! ## 5. chain_closed -/

/-- the position part of a coordinate object: N value and orthometric height erased -/
def erase : Coord α P → Coord α P
  | .cart c => .cart { c with nval := none }
  | .geo g => .geo { g with orth_ht := none }
  | .tm t => .tm { t with orth_ht := none }

private theorem geo_erase_of_eq {g₁ g₂ : CoordGeo α}
    (h : ({ g₁ with orth_ht := none } : CoordGeo α) = { g₂ with orth_ht := none }) :
    g₁.lat = g₂.lat ∧ g₁.lon = g₂.lon ∧ g₁.ell_ht = g₂.ell_ht := by
  cases g₁; cases g₂; simp at h; exact ⟨h.1, h.2.1, h.2.2⟩

private theorem geo_cart_erase (g₁ g₂ : CoordGeo α) (e : Option E)
    (h : g₁.lat = g₂.lat ∧ g₁.lon = g₂.lon ∧ g₁.ell_ht = g₂.ell_ht) :
    (g₁.cart cv e).map (fun c => erase (Coord.cart (P := P) c)) =
      (g₂.cart cv e).map (fun c => erase (Coord.cart c)) := by
  rw [same_numbers_geo_cart, same_numbers_geo_cart, h.1, h.2.1, h.2.2]
  cases cv.llh2xyzA g₂.lat g₂.lon _ _ <;> simp [Except.map, erase]

private theorem geo_tm_erase (g₁ g₂ : CoordGeo α) (e : Option E) (p : Option P)
    (h : g₁.lat = g₂.lat ∧ g₁.lon = g₂.lon ∧ g₁.ell_ht = g₂.ell_ht) :
    (g₁.tm cv e p).map (fun t => erase (Coord.tm t)) = (g₂.tm cv e p).map (fun t => erase (Coord.tm t)) := by
  rw [same_numbers_geo_tm, same_numbers_geo_tm, h.1, h.2.1, h.2.2]
  cases cv.geo2gridA g₂.lat g₂.lon 0 _ _ <;> simp [Except.map, erase]

private theorem new_erase (lat lon : LatLon α) (ell o₁ o₂ : Option α) :
    (CoordGeo.new lat lon ell o₁).map (fun g => erase (Coord.geo (P := P) g)) =
      (CoordGeo.new lat lon ell o₂).map (fun g => erase (Coord.geo g)) := by
  unfold CoordGeo.new
  split <;> simp [Except.map, erase]

private theorem geo_notate_erase (g₁ g₂ : CoordGeo α) (nt : Notation)
    (h : g₁.lat = g₂.lat ∧ g₁.lon = g₂.lon ∧ g₁.ell_ht = g₂.ell_ht) :
    (g₁.notate cv nt).map (fun g => erase (Coord.geo (P := P) g)) =
      (g₂.notate cv nt).map (fun g => erase (Coord.geo g)) := by
  obtain ⟨lat₁, lon₁, ell₁, o₁⟩ := g₁
  obtain ⟨lat₂, lon₂, ell₂, o₂⟩ := g₂
  obtain ⟨rfl, rfl, rfl⟩ := h
  unfold CoordGeo.notate
  simp only
  split
  · exact new_erase _ _ _ _ _
  · cases lat₁ <;> simp only [bind, Except.bind]
    · cases cv.fromFloat nt _ <;> simp only [Except.map]
      cases cv.fromFloat nt lon₁ <;> simp only
      exact new_erase _ _ _ _ _
    · cases cv.fromObj nt _ <;> simp only [Except.map]
      cases cv.fromObj nt lon₁ <;> simp only
      exact new_erase _ _ _ _ _

private theorem cart_geo_erase (c₁ c₂ : CoordCart α) (e : Option E) (nt : Option Notation)
    (h : c₁.xaxis = c₂.xaxis ∧ c₁.yaxis = c₂.yaxis ∧ c₁.zaxis = c₂.zaxis) :
    (c₁.geo cv e nt).map (fun g => erase (Coord.geo (P := P) g)) =
      (c₂.geo cv e nt).map (fun g => erase (Coord.geo g)) := by
  unfold CoordCart.geo
  simp only [bind, Except.bind, h.1, h.2.1, h.2.2]
  cases cv.xyz2llh c₂.xaxis c₂.yaxis c₂.zaxis _ with
  | error err => rfl
  | ok r =>
    obtain ⟨φ, l, ht⟩ := r
    simp only
    cases cv.wrap _ φ with
    | error err => rfl
    | ok lat =>
      simp only
      cases cv.wrap _ l with
      | error err => rfl
      | ok lon =>
        simp only
        cases c₁.nval <;> cases c₂.nval <;> exact new_erase _ _ _ _ _

private theorem tm_geo_erase (t₁ t₂ : CoordTM α P) (e : Option E) (nt : Option Notation)
    (h : ({ t₁ with orth_ht := none } : CoordTM α P) = { t₂ with orth_ht := none }) :
    (t₁.geo cv e nt).map (fun g => erase (Coord.geo (P := P) g)) =
      (t₂.geo cv e nt).map (fun g => erase (Coord.geo g)) := by
  obtain ⟨z₁, e₁, n₁, l₁, o₁, hn₁, p₁⟩ := t₁
  obtain ⟨z₂, e₂, n₂, l₂, o₂, hn₂, p₂⟩ := t₂
  simp only [CoordTM.mk.injEq] at h
  obtain ⟨rfl, rfl, rfl, rfl, _, rfl, rfl⟩ := h
  unfold CoordTM.geo
  simp only [bind, Except.bind]
  cases cv.grid2geo z₁ e₁ n₁ _ _ p₁ with
  | error err => rfl
  | ok r =>
    obtain ⟨φ, l, psf, gc⟩ := r
    simp only
    cases cv.wrap _ φ with
    | error err => rfl
    | ok lat =>
      simp only
      cases cv.wrap _ l with
      | error err => rfl
      | ok lon => exact new_erase _ _ _ _ _

/-- from `(x.map f) = (y.map f)` to the same for a continuation that respects `f` -/
private theorem bind_congr_erase {β γ : Type} {f : β → Coord α P} {k : β → Except PyErr γ}
    {f' : γ → Coord α P} {x y : Except PyErr β}
    (hxy : x.map f = y.map f)
    (hk : ∀ a b, f a = f b → (k a).map f' = (k b).map f') :
    (x.bind k).map f' = (y.bind k).map f' := by
  cases x with
  | error ex =>
    cases y with
    | error ey => simp only [Except.map] at hxy; cases hxy; rfl
    | ok b => simp [Except.map] at hxy
  | ok a =>
    cases y with
    | error ey => simp [Except.map] at hxy
    | ok b => simp only [Except.map, Except.ok.injEq] at hxy; exact hk a b hxy

/-- one call: the position part of the result depends on the position part of the object only -/
theorem apply_erase (c₁ c₂ : Coord α P) (op : Op E P) (h : erase c₁ = erase c₂) :
    (c₁.apply cv op).map erase = (c₂.apply cv op).map erase := by
  cases c₁ with
  | cart a =>
    cases c₂ with
    | cart b =>
      have hh : a.xaxis = b.xaxis ∧ a.yaxis = b.yaxis ∧ a.zaxis = b.zaxis := by
        cases a; cases b; simp [erase] at h; exact ⟨h.1, h.2.1, h.2.2⟩
      cases op with
      | geo e nt =>
        simp only [Coord.apply, map_map']
        exact cart_geo_erase (P := P) cv a b e nt hh
      | tm e p =>
        simp only [Coord.apply, map_map']
        rw [same_numbers_cart_tm, same_numbers_cart_tm]
        exact bind_congr_erase (cart_geo_erase (P := P) cv a b (some (e.getD cv.grs80)) none hh)
          (fun g₁ g₂ hg => geo_tm_erase cv g₁ g₂ _ _ (geo_erase_of_eq (by simpa [erase] using hg)))
      | cart e => rfl
      | nota nt => rfl
    | geo b => simp [erase] at h
    | tm b => simp [erase] at h
  | geo a =>
    cases c₂ with
    | cart b => simp [erase] at h
    | tm b => simp [erase] at h
    | geo b =>
      have hh := geo_erase_of_eq (g₁ := a) (g₂ := b) (by simpa [erase] using h)
      cases op with
      | cart e => simp only [Coord.apply, map_map']; exact geo_cart_erase (P := P) cv a b e hh
      | tm e p => simp only [Coord.apply, map_map']; exact geo_tm_erase cv a b e p hh
      | nota nt => simp only [Coord.apply, map_map']; exact geo_notate_erase (P := P) cv a b nt hh
      | geo e nt => rfl
  | tm a =>
    cases c₂ with
    | cart b => simp [erase] at h
    | geo b => simp [erase] at h
    | tm b =>
      have hh : ({ a with orth_ht := none } : CoordTM α P) = { b with orth_ht := none } := by
        simpa [erase] using h
      cases op with
      | geo e nt => simp only [Coord.apply, map_map']; exact tm_geo_erase cv a b e nt hh
      | cart e =>
        simp only [Coord.apply, map_map']
        rw [same_numbers_tm_cart, same_numbers_tm_cart]
        exact bind_congr_erase (tm_geo_erase cv a b (some (e.getD cv.grs80)) none hh)
          (fun g₁ g₂ hg => geo_cart_erase (P := P) cv g₁ g₂ _ (geo_erase_of_eq (by simpa [erase] using hg)))
      | tm e p => rfl
      | nota nt => rfl

/-- **chain_closed, position**: for every list of calls, the position part of the result (and whether
and how the chain fails) is determined by the position part of the start — the N value and the
orthometric height never enter any conversion function. -/
theorem chain_closed_position (ops : List (Op E P)) :
    ∀ (c₁ c₂ : Coord α P), erase c₁ = erase c₂ →
      (Coord.run cv ops c₁).map erase = (Coord.run cv ops c₂).map erase := by
  induction ops with
  | nil => intro c₁ c₂ h; simp [Coord.run, Except.map, h]
  | cons op t ih =>
    intro c₁ c₂ h
    simp only [Coord.run]
    exact bind_congr_erase (apply_erase cv c₁ c₂ op h) (fun a b hab => ih a b hab)

/-- a chain is the composition of its calls -/
theorem run_append (ops₁ ops₂ : List (Op E P)) (c : Coord α P) :
    Coord.run cv (ops₁ ++ ops₂) c = (Coord.run cv ops₁ c).bind (Coord.run cv ops₂) := by
  induction ops₁ generalizing c with
  | nil => rfl
  | cons op t ih =>
    simp only [List.cons_append, Coord.run]
    cases c.apply cv op <;> simp [Except.bind, ih]

/-- the geoid separation an object carries: its N value, or `ell_ht − orth_ht` when both are set -/
def sep [Sub α] : Coord α P → Option α
  | .cart c => c.nval
  | .geo g => match g.ell_ht, g.orth_ht with | some a, some b => some (a - b) | _, _ => none
  | .tm t => match t.ell_ht, t.orth_ht with | some a, some b => some (a - b) | _, _ => none

/-- one call keeps the geoid separation (exact arithmetic) -/
theorem apply_sep [AddCommGroup α] (hsub : ∀ a b, cv.sub a b = a - b) (c c' : Coord α P) (op : Op E P)
    (h : c.apply cv op = .ok c') : sep c' = sep c := by
  have nOf_eq : ∀ (ell orth : Option α),
      nOf cv ell orth = (match ell, orth with | some a, some b => some (a - b) | _, _ => none) := by
    intro ell orth; cases ell <;> cases orth <;> simp [nOf, hsub]
  have geo_of_cart : ∀ (a : CoordCart α) (g : CoordGeo α) e nt, a.geo cv e nt = .ok g →
      sep (P := P) (.geo g) = a.nval := by
    intro a g e nt hg
    obtain ⟨φ, l, ht, _, h1, h2⟩ := n_value_cart_geo cv a e nt hg
    simp only [sep, h1, h2]
    cases a.nval <;> simp [hsub]
  cases c with
  | cart a =>
    cases op with
    | geo e nt =>
      simp only [Coord.apply] at h
      obtain ⟨g, hg, rfl⟩ := (map_ok _ _ _).1 h
      exact geo_of_cart a g e nt hg
    | tm e p =>
      simp only [Coord.apply] at h
      obtain ⟨t, ht', rfl⟩ := (map_ok _ _ _).1 h
      obtain ⟨φ, l, ht, _, h1, h2⟩ := n_value_cart_tm cv a e p ht'
      simp only [sep, h1, h2]
      cases a.nval <;> simp [hsub]
    | cart e => simp [Coord.apply] at h
    | nota nt => simp [Coord.apply] at h
  | geo g =>
    cases op with
    | cart e =>
      simp only [Coord.apply] at h
      obtain ⟨a, ha, rfl⟩ := (map_ok _ _ _).1 h
      simp only [sep, n_value_geo_cart cv g e ha, nOf_eq]
    | tm e p =>
      simp only [Coord.apply] at h
      obtain ⟨t, ht', rfl⟩ := (map_ok _ _ _).1 h
      have := heights_carried_geo_tm cv g e p ht'
      simp only [sep, this.1, this.2]
    | nota nt =>
      simp only [Coord.apply] at h
      obtain ⟨g', hg, rfl⟩ := (map_ok _ _ _).1 h
      have := heights_carried_notation cv g nt hg
      simp only [sep, this.1, this.2]
    | geo e nt => simp [Coord.apply] at h
  | tm t =>
    cases op with
    | geo e nt =>
      simp only [Coord.apply] at h
      obtain ⟨g, hg, rfl⟩ := (map_ok _ _ _).1 h
      have := heights_carried_tm_geo cv t e nt hg
      simp only [sep, this.1, this.2]
    | cart e =>
      simp only [Coord.apply] at h
      obtain ⟨a, ha, rfl⟩ := (map_ok _ _ _).1 h
      simp only [sep, n_value_tm_cart cv t e ha, nOf_eq]
    | tm e p => simp [Coord.apply] at h
    | nota nt => simp [Coord.apply] at h

/-- **chain_closed, N value**: along any chain of calls the geoid separation `N = ell_ht − orth_ht`
stays the same at every link (exact arithmetic): heights and N obey the rules of 2–3 all the way. -/
theorem chain_closed_sep [AddCommGroup α] (hsub : ∀ a b, cv.sub a b = a - b) (ops : List (Op E P)) :
    ∀ (c c' : Coord α P), Coord.run cv ops c = .ok c' → sep c' = sep c := by
  induction ops with
  | nil => intro c c' h; simp [Coord.run] at h; rw [h]
  | cons op t ih =>
    intro c c' h
    simp only [Coord.run] at h
    cases hc : c.apply cv op with
    | error err => rw [hc] at h; cases h
    | ok c₁ =>
      rw [hc] at h
      exact (ih c₁ c' h).trans (apply_sep cv hsub c c₁ op hc)

/-- both heights of a geographic or projected object -/
def heights : Coord α P → Option (Option α × Option α)
  | .cart _ => none
  | .geo g => some (g.ell_ht, g.orth_ht)
  | .tm t => some (t.ell_ht, t.orth_ht)

def Op.isCart : Op E P → Bool
  | .cart _ => true
  | _ => false

/-- **chain_closed, heights**: a chain that starts off Cartesian form and never calls `.cart()`
returns exactly the heights it started with (`none`, `0`, any value). -/
theorem chain_closed_heights (ops : List (Op E P)) (hops : ∀ op ∈ ops, Op.isCart op = false) :
    ∀ (c c' : Coord α P), heights c ≠ none → Coord.run cv ops c = .ok c' → heights c' = heights c := by
  induction ops with
  | nil => intro c c' _ h; simp [Coord.run] at h; rw [h]
  | cons op t ih =>
    intro c c' hne h
    simp only [Coord.run] at h
    cases hc : c.apply cv op with
    | error err => rw [hc] at h; cases h
    | ok c₁ =>
      rw [hc] at h
      have hop : Op.isCart op = false := hops op (List.mem_cons_self ..)
      have step : heights c₁ = heights c := by
        cases c with
        | cart a => exact absurd rfl hne
        | geo g =>
          cases op with
          | cart e => simp [Op.isCart] at hop
          | tm e p =>
            simp only [Coord.apply] at hc
            obtain ⟨t', ht', rfl⟩ := (map_ok _ _ _).1 hc
            have := heights_carried_geo_tm cv g e p ht'
            simp [heights, this.1, this.2]
          | nota nt =>
            simp only [Coord.apply] at hc
            obtain ⟨g', hg, rfl⟩ := (map_ok _ _ _).1 hc
            have := heights_carried_notation cv g nt hg
            simp [heights, this.1, this.2]
          | geo e nt => simp [Coord.apply] at hc
        | tm t' =>
          cases op with
          | cart e => simp [Op.isCart] at hop
          | geo e nt =>
            simp only [Coord.apply] at hc
            obtain ⟨g, hg, rfl⟩ := (map_ok _ _ _).1 hc
            have := heights_carried_tm_geo cv t' e nt hg
            simp [heights, this.1, this.2]
          | tm e p => simp [Coord.apply] at hc
          | nota nt => simp [Coord.apply] at hc
      have := ih (fun o ho => hops o (List.mem_cons_of_mem _ ho)) c₁ c' (by rw [step]; exact hne) h
      rw [this, step]

/-- **chain_closed**: the three chain statements together -/
theorem chain_closed [AddCommGroup α] (hsub : ∀ a b, cv.sub a b = a - b) (ops : List (Op E P)) :
    (∀ c₁ c₂ : Coord α P, erase c₁ = erase c₂ →
      (Coord.run cv ops c₁).map erase = (Coord.run cv ops c₂).map erase) ∧
    (∀ c c' : Coord α P, Coord.run cv ops c = .ok c' → sep c' = sep c) ∧
    ((∀ op ∈ ops, Op.isCart op = false) → ∀ c c' : Coord α P, heights c ≠ none →
      Coord.run cv ops c = .ok c' → heights c' = heights c) :=
  ⟨chain_closed_position cv ops, chain_closed_sep cv hsub ops, fun h => chain_closed_heights cv ops h⟩

/-- the hypotheses of `chain_closed` are satisfiable: exact integers with the trivial conversions -/
example : ∃ cv : Conv Int Unit Unit, ∀ a b, cv.sub a b = a - b :=
  ⟨{ zero := 0, sub := fun a b => a - b, grs80 := (), utm := (),
     llh2xyz := fun a b c _ => (a, b, c), xyz2llh := fun a b c _ => .ok (a, b, c),
     geo2grid := fun a b z _ _ => .ok ("South", z, a, b, 0, 0),
     grid2geo := fun _ a b _ _ _ => .ok (a, b, 0, 0),
     objDec := fun _ => .ok 0, decaTo := fun _ x => .ok (.decA x), fltTo := fun _ x => .ok (.decA x),
     objTo := fun _ o => .ok o }, fun _ _ => rfl⟩

end GeodeVerif.C15
