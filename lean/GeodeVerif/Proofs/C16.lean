import GeodeVerif.GenR.Statistics
import GeodeVerif.GenR.Geodesy
import GeodeVerif.GenR.Convert
import Mathlib.LinearAlgebra.Matrix.Charpoly.Basic
import Mathlib.LinearAlgebra.Matrix.Charpoly.Coeff
import Mathlib.LinearAlgebra.Matrix.PosDef
import Mathlib.LinearAlgebra.Matrix.Determinant.Basic
import Mathlib.LinearAlgebra.Matrix.Trace
import Mathlib.LinearAlgebra.Matrix.Notation
import Mathlib.Tactic.FieldSimp
import Mathlib.Tactic.Ring
import Mathlib.Tactic.Linarith
import Mathlib.Tactic.LinearCombination
import Mathlib.Tactic.NormNum
import Mathlib.Tactic.Positivity
import Mathlib.Tactic.FinCases
/-!
# C16 — local frames, covariance rotation, error measures

Theorems about the regenerated `GenR.Statistics.*`, `GenR.Geodesy.enu2xyz`, `xyz2enu`.
A 3×3 numpy matrix is a row-major 9-tuple (`T9`); `toMat` reads it as a Mathlib matrix.
-/
set_option linter.unusedVariables false
namespace GeodeVerif.C16
open PyR GenR.Statistics GenR.Geodesy GenR.Convert GenR.Constants Matrix

/-- row-major 9-tuple, the model of a 3×3 numpy array -/
abbrev T9 := ℝ × ℝ × ℝ × ℝ × ℝ × ℝ × ℝ × ℝ × ℝ

/-- the Mathlib matrix denoted by a row-major 9-tuple -/
def toMat (m : T9) : Matrix (Fin 3) (Fin 3) ℝ :=
  !![m.1, m.2.1, m.2.2.1;
     m.2.2.2.1, m.2.2.2.2.1, m.2.2.2.2.2.1;
     m.2.2.2.2.2.2.1, m.2.2.2.2.2.2.2.1, m.2.2.2.2.2.2.2.2]

/-- row-major 9-tuple of a matrix (inverse of `toMat`) -/
def ofMat (M : Matrix (Fin 3) (Fin 3) ℝ) : T9 :=
  (M 0 0, M 0 1, M 0 2, M 1 0, M 1 1, M 1 2, M 2 0, M 2 1, M 2 2)

theorem toMat_ofMat (M : Matrix (Fin 3) (Fin 3) ℝ) : toMat (ofMat M) = M := by
  ext i j; fin_cases i <;> fin_cases j <;> rfl

theorem ofMat_toMat (m : T9) : ofMat (toMat m) = m := rfl

theorem toMat_injective : Function.Injective toMat := fun a b h => by
  rw [← ofMat_toMat a, ← ofMat_toMat b, h]

/-- the explicit rotation: columns east, north, up at latitude `φ`, longitude `l` (radians) -/
noncomputable def Rot (φ l : ℝ) : Matrix (Fin 3) (Fin 3) ℝ :=
  !![-Real.sin l, -Real.sin φ * Real.cos l, Real.cos φ * Real.cos l;
     Real.cos l, -Real.sin φ * Real.sin l, Real.cos φ * Real.sin l;
     0, Real.cos φ, Real.sin φ]

/-- the generated `rotation_matrix` (degrees in) denotes `Rot` of the angles in radians -/
theorem toMat_rotation_matrix (lat lon : ℝ) :
    toMat (rotation_matrix lat lon) = Rot (lat * (Real.pi / 180)) (lon * (Real.pi / 180)) := by
  unfold rotation_matrix toMat Rot
  simp

theorem Rot_transpose_mul (φ l : ℝ) : (Rot φ l)ᵀ * Rot φ l = 1 := by
  have h1 := Real.sin_sq_add_cos_sq φ
  have h2 := Real.sin_sq_add_cos_sq l
  ext i j
  fin_cases i <;> fin_cases j <;>
    simp [Rot, Matrix.mul_apply, Fin.sum_univ_three] <;> grind

theorem Rot_mul_transpose (φ l : ℝ) : Rot φ l * (Rot φ l)ᵀ = 1 :=
  mul_eq_one_comm.mp (Rot_transpose_mul φ l)

theorem Rot_det (φ l : ℝ) : (Rot φ l).det = 1 := by
  have h1 := Real.sin_sq_add_cos_sq φ
  have h2 := Real.sin_sq_add_cos_sq l
  rw [Matrix.det_fin_three]
  simp [Rot]
  grind

/-- the matrix denoted by the generated `rotation_matrix lat lon` -/
noncomputable abbrev R (lat lon : ℝ) : Matrix (Fin 3) (Fin 3) ℝ := toMat (rotation_matrix lat lon)

theorem R_transpose_mul (lat lon : ℝ) : (R lat lon)ᵀ * R lat lon = 1 := by
  rw [R, toMat_rotation_matrix]; exact Rot_transpose_mul _ _

theorem R_mul_transpose (lat lon : ℝ) : R lat lon * (R lat lon)ᵀ = 1 := by
  rw [R, toMat_rotation_matrix]; exact Rot_mul_transpose _ _

/-- **C16.1** The generated `rotation_matrix` is a proper rotation for every latitude and
longitude (degrees): `Rᵀ R = I`, `R Rᵀ = I`, `det R = 1`, and its columns are the unit vectors
east `(−sin λ, cos λ, 0)`, north `(−sin φ cos λ, −sin φ sin λ, cos φ)` and
up `(cos φ cos λ, cos φ sin λ, sin φ)`, with `φ = lat·π/180`, `λ = lon·π/180`. -/
theorem rot_orthonormal (lat lon : ℝ) :
    let φ := lat * (Real.pi / 180)
    let l := lon * (Real.pi / 180)
    (R lat lon)ᵀ * R lat lon = 1 ∧ R lat lon * (R lat lon)ᵀ = 1 ∧ (R lat lon).det = 1 ∧
    (fun i => R lat lon i 0) = ![-Real.sin l, Real.cos l, 0] ∧
    (fun i => R lat lon i 1) = ![-Real.sin φ * Real.cos l, -Real.sin φ * Real.sin l, Real.cos φ] ∧
    (fun i => R lat lon i 2) = ![Real.cos φ * Real.cos l, Real.cos φ * Real.sin l, Real.sin φ] := by
  intro φ l
  refine ⟨R_transpose_mul lat lon, R_mul_transpose lat lon, ?_, ?_, ?_, ?_⟩
  · rw [R, toMat_rotation_matrix]; exact Rot_det _ _
  all_goals
    rw [R, toMat_rotation_matrix]
    funext i; fin_cases i <;> simp [Rot, φ, l]

/-- the same facts read directly on the 9-tuple returned by `rotation_matrix` -/
theorem rot_columns_tuple (lat lon : ℝ) :
    let φ := lat * (Real.pi / 180)
    let l := lon * (Real.pi / 180)
    rotation_matrix lat lon =
      (-Real.sin l, -Real.sin φ * Real.cos l, Real.cos φ * Real.cos l,
       Real.cos l, -Real.sin φ * Real.sin l, Real.cos φ * Real.sin l,
       0, Real.cos φ, Real.sin φ) := by
  intro φ l
  unfold rotation_matrix
  simp [φ, l]

/-- **C16.1b** On every constructed ellipsoid (`a > 0`, `0 < f = 1/invf < 1`, so `b = a(1−f) > 0`)
the up column of `rotation_matrix lat lon` is parallel, with a positive factor `k`, to the gradient
`(2x/a², 2y/a², 2z/b²)` of `x²/a² + y²/a² + z²/b²` at the surface point `llh2xyz lat lon 0 ell`:
up is the outward ellipsoid normal. -/
theorem up_is_ellipsoid_normal (a invf : ℝ) (ha : 0 < a) (hf0 : 0 < 1 / invf) (hf1 : 1 / invf < 1)
    (lat lon : ℝ) :
    let ell := Ellipsoid.init a invf
    let p := llh2xyz lat lon 0 ell
    let up : ℝ × ℝ × ℝ := (R lat lon 0 2, R lat lon 1 2, R lat lon 2 2)
    0 < ell.semimin ∧
    ∃ k : ℝ, 0 < k ∧
      (2 * p.1 / ell.semimaj ^ 2, 2 * p.2.1 / ell.semimaj ^ 2, 2 * p.2.2 / ell.semimin ^ 2)
        = (k * up.1, k * up.2.1, k * up.2.2) := by
  intro ell p up
  set f := 1 / invf with hf
  have hb : 0 < a * (1 - f) := mul_pos ha (by linarith)
  have hs : 0 < 1 - f * (2 - f) * Real.sin (lat * (Real.pi / 180)) ^ 2 := by
    have h1 : Real.sin (lat * (Real.pi / 180)) ^ 2 ≤ 1 := Real.sin_sq_le_one _
    have h2 : 0 ≤ Real.sin (lat * (Real.pi / 180)) ^ 2 := sq_nonneg _
    have h3 : 0 < f * (2 - f) := by nlinarith
    have h4 : f * (2 - f) < 1 := by nlinarith
    nlinarith
  have hsq := Real.sqrt_pos.mpr hs
  refine ⟨hb, 2 * (a / Real.sqrt (1 - f * (2 - f) * Real.sin (lat * (Real.pi / 180)) ^ 2)) / a ^ 2,
    by positivity, ?_⟩
  have hRu : up = (Real.cos (lat * (Real.pi / 180)) * Real.cos (lon * (Real.pi / 180)),
      Real.cos (lat * (Real.pi / 180)) * Real.sin (lon * (Real.pi / 180)),
      Real.sin (lat * (Real.pi / 180))) := by
    simp only [up, R, toMat_rotation_matrix]; simp [Rot]
  rw [hRu]
  simp only [p, ell, llh2xyz, Ellipsoid.init, pyfloat, radians, pown, sqrt, sin, cos, ← hf]
  have ha' : a ≠ 0 := ha.ne'
  have hb' : a * (1 - f) ≠ 0 := hb.ne'
  have h1f : 1 - f ≠ 0 := by intro h; rw [h] at hb; simp at hb
  refine Prod.ext ?_ (Prod.ext ?_ ?_) <;> simp only [] <;> field_simp <;> ring

example : ∃ a invf : ℝ, 0 < a ∧ 0 < 1 / invf ∧ 1 / invf < 1 := ⟨1, 2, by norm_num⟩

/-! ## 2. vectors -/

/-- `enu2xyz` is `R · (e,n,u)` and `xyz2enu` is `Rᵀ · (x,y,z)` -/
theorem enu2xyz_eq_mulVec (lat lon e n u : ℝ) :
    enu2xyz lat lon e n u =
      ((R lat lon *ᵥ ![e, n, u]) 0, (R lat lon *ᵥ ![e, n, u]) 1, (R lat lon *ᵥ ![e, n, u]) 2) := by
  unfold enu2xyz
  simp [R, toMat, Matrix.mulVec, dotProduct, Fin.sum_univ_three]

theorem xyz2enu_eq_mulVec (lat lon x y z : ℝ) :
    xyz2enu lat lon x y z =
      (((R lat lon)ᵀ *ᵥ ![x, y, z]) 0, ((R lat lon)ᵀ *ᵥ ![x, y, z]) 1,
       ((R lat lon)ᵀ *ᵥ ![x, y, z]) 2) := by
  unfold xyz2enu
  simp [R, toMat, Matrix.mulVec, dotProduct, Fin.sum_univ_three]

/-- **C16.2** `xyz2enu` and `enu2xyz` (same latitude, longitude) are mutually inverse. -/
theorem enu_xyz_inverse (lat lon : ℝ) :
    (∀ e n u : ℝ,
      xyz2enu lat lon (enu2xyz lat lon e n u).1 (enu2xyz lat lon e n u).2.1
        (enu2xyz lat lon e n u).2.2 = (e, n, u)) ∧
    (∀ x y z : ℝ,
      enu2xyz lat lon (xyz2enu lat lon x y z).1 (xyz2enu lat lon x y z).2.1
        (xyz2enu lat lon x y z).2.2 = (x, y, z)) := by
  have h1 := Real.sin_sq_add_cos_sq (lat * (Real.pi / 180))
  have h2 := Real.sin_sq_add_cos_sq (lon * (Real.pi / 180))
  constructor
  · intro e n u
    simp only [xyz2enu, enu2xyz, rot_columns_tuple]
    refine Prod.ext ?_ (Prod.ext ?_ ?_) <;> simp only [] <;> grind
  · intro x y z
    simp only [xyz2enu, enu2xyz, rot_columns_tuple]
    refine Prod.ext ?_ (Prod.ext ?_ ?_) <;> simp only [] <;> grind

/-- **C16.2b** both conversions preserve the Euclidean norm. -/
theorem enu_norm (lat lon : ℝ) :
    (∀ e n u : ℝ,
      (enu2xyz lat lon e n u).1 ^ 2 + (enu2xyz lat lon e n u).2.1 ^ 2
        + (enu2xyz lat lon e n u).2.2 ^ 2 = e ^ 2 + n ^ 2 + u ^ 2) ∧
    (∀ x y z : ℝ,
      (xyz2enu lat lon x y z).1 ^ 2 + (xyz2enu lat lon x y z).2.1 ^ 2
        + (xyz2enu lat lon x y z).2.2 ^ 2 = x ^ 2 + y ^ 2 + z ^ 2) := by
  have h1 := Real.sin_sq_add_cos_sq (lat * (Real.pi / 180))
  have h2 := Real.sin_sq_add_cos_sq (lon * (Real.pi / 180))
  constructor
  · intro e n u
    simp only [enu2xyz, rot_columns_tuple]
    grind
  · intro x y z
    simp only [xyz2enu, rot_columns_tuple]
    grind

/-! ## 3. covariance rotation -/

/-- the 3×3 case of `vcv_cart2local` never raises and returns `Rᵀ V R` -/
theorem vcv_cart2local_33_eq (V : T9) (lat lon : ℝ) :
    vcv_cart2local_33 V lat lon = .ok (ofMat ((R lat lon)ᵀ * toMat V * R lat lon)) := by
  unfold vcv_cart2local_33 R
  generalize rotation_matrix lat lon = Q
  obtain ⟨r0, r1, r2, r3, r4, r5, r6, r7, r8⟩ := Q
  obtain ⟨v0, v1, v2, v3, v4, v5, v6, v7, v8⟩ := V
  simp only [ofMat, toMat, Matrix.mul_apply, Fin.sum_univ_three, Matrix.transpose_apply]
  simp

/-- the 3×3 case of `vcv_local2cart` never raises and returns `R V Rᵀ` -/
theorem vcv_local2cart_33_eq (V : T9) (lat lon : ℝ) :
    vcv_local2cart_33 V lat lon = .ok (ofMat (R lat lon * toMat V * (R lat lon)ᵀ)) := by
  unfold vcv_local2cart_33 R
  generalize rotation_matrix lat lon = Q
  obtain ⟨r0, r1, r2, r3, r4, r5, r6, r7, r8⟩ := Q
  obtain ⟨v0, v1, v2, v3, v4, v5, v6, v7, v8⟩ := V
  simp only [ofMat, toMat, Matrix.mul_apply, Fin.sum_univ_three, Matrix.transpose_apply]
  simp

/-- invariants of an orthogonal congruence `Qᵀ A Q` with `Qᵀ Q = Q Qᵀ = 1` -/
theorem conj_invariants (Q A : Matrix (Fin 3) (Fin 3) ℝ) (h1 : Qᵀ * Q = 1) (h2 : Q * Qᵀ = 1) :
    (A.IsSymm → (Qᵀ * A * Q).IsSymm) ∧
    (Qᵀ * A * Q).trace = A.trace ∧
    (Qᵀ * A * Q).det = A.det ∧
    (Qᵀ * A * Q).charpoly = A.charpoly ∧
    (A.PosSemidef → (Qᵀ * A * Q).PosSemidef) ∧
    Q * (Qᵀ * A * Q) * Qᵀ = A := by
  refine ⟨?_, ?_, ?_, ?_, ?_, ?_⟩
  · intro hA
    unfold Matrix.IsSymm at *
    rw [Matrix.transpose_mul, Matrix.transpose_mul, Matrix.transpose_transpose, hA, Matrix.mul_assoc]
  · rw [Matrix.mul_assoc, Matrix.trace_mul_comm, Matrix.mul_assoc, h2, Matrix.mul_one]
  · have hd : Qᵀ.det * Q.det = 1 := by rw [← Matrix.det_mul, h1, Matrix.det_one]
    rw [Matrix.det_mul, Matrix.det_mul, mul_right_comm, hd, one_mul]
  · rw [Matrix.mul_assoc, Matrix.charpoly_mul_comm, Matrix.mul_assoc, h2, Matrix.mul_one]
  · intro hA
    have := hA.conjTranspose_mul_mul_same Q
    rwa [Matrix.conjTranspose_eq_transpose_of_trivial] at this
  · calc Q * (Qᵀ * A * Q) * Qᵀ = (Q * Qᵀ) * A * (Q * Qᵀ) := by
          simp only [Matrix.mul_assoc]
      _ = A := by rw [h2, Matrix.one_mul, Matrix.mul_one]

/-- **C16.3** Cartesian → local rotation of a 3×3 covariance `V` at any latitude/longitude:
the call never raises, its result `W` denotes `Rᵀ V R`; symmetry is preserved; trace, determinant
and characteristic polynomial (hence the eigenvalues with multiplicity) are preserved; positive
semidefiniteness is preserved; and `vcv_local2cart` at the same position returns `V` exactly. -/
theorem vcv_rotation (V : T9) (lat lon : ℝ) :
    ∃ W : T9, vcv_cart2local_33 V lat lon = .ok W ∧
      toMat W = (R lat lon)ᵀ * toMat V * R lat lon ∧
      ((toMat V).IsSymm → (toMat W).IsSymm) ∧
      (toMat W).trace = (toMat V).trace ∧
      (toMat W).det = (toMat V).det ∧
      (toMat W).charpoly = (toMat V).charpoly ∧
      ((toMat V).PosSemidef → (toMat W).PosSemidef) ∧
      vcv_local2cart_33 W lat lon = .ok V := by
  obtain ⟨h1, h2, h3, h4, h5, h6⟩ :=
    conj_invariants (R lat lon) (toMat V) (R_transpose_mul lat lon) (R_mul_transpose lat lon)
  refine ⟨_, vcv_cart2local_33_eq V lat lon, toMat_ofMat _, ?_, ?_, ?_, ?_, ?_, ?_⟩
  · rwa [toMat_ofMat]
  · rwa [toMat_ofMat]
  · rwa [toMat_ofMat]
  · rwa [toMat_ofMat]
  · rwa [toMat_ofMat]
  · rw [vcv_local2cart_33_eq, toMat_ofMat, h6, ofMat_toMat]

/-- **C16.3 (converse direction)** local → Cartesian rotation: result denotes `R V Rᵀ`, with the
same invariants, and `vcv_cart2local` at the same position returns `V` exactly. -/
theorem vcv_rotation_inv (V : T9) (lat lon : ℝ) :
    ∃ W : T9, vcv_local2cart_33 V lat lon = .ok W ∧
      toMat W = R lat lon * toMat V * (R lat lon)ᵀ ∧
      ((toMat V).IsSymm → (toMat W).IsSymm) ∧
      (toMat W).trace = (toMat V).trace ∧
      (toMat W).det = (toMat V).det ∧
      (toMat W).charpoly = (toMat V).charpoly ∧
      ((toMat V).PosSemidef → (toMat W).PosSemidef) ∧
      vcv_cart2local_33 W lat lon = .ok V := by
  obtain ⟨h1, h2, h3, h4, h5, h6⟩ :=
    conj_invariants (R lat lon)ᵀ (toMat V) (by rw [Matrix.transpose_transpose]; exact R_mul_transpose lat lon)
      (by rw [Matrix.transpose_transpose]; exact R_transpose_mul lat lon)
  rw [Matrix.transpose_transpose] at h1 h2 h3 h4 h5 h6
  refine ⟨_, vcv_local2cart_33_eq V lat lon, toMat_ofMat _, ?_, ?_, ?_, ?_, ?_, ?_⟩
  · rwa [toMat_ofMat]
  · rwa [toMat_ofMat]
  · rwa [toMat_ofMat]
  · rwa [toMat_ofMat]
  · rwa [toMat_ofMat]
  · rw [vcv_cart2local_33_eq, toMat_ofMat, h6, ofMat_toMat]

/-- quadratic-form reading of PSD preservation: `xᵀ (Rᵀ V R) x = (R x)ᵀ V (R x)` -/
theorem vcv_rotation_quadratic_form (V : T9) (lat lon : ℝ) (x : Fin 3 → ℝ) :
    x ⬝ᵥ (((R lat lon)ᵀ * toMat V * R lat lon) *ᵥ x)
      = (R lat lon *ᵥ x) ⬝ᵥ (toMat V *ᵥ (R lat lon *ᵥ x)) := by
  rw [← Matrix.mulVec_mulVec, ← Matrix.mulVec_mulVec, Matrix.dotProduct_mulVec,
    Matrix.vecMul_transpose]

/-- **C16.3 (3×1 case)** a variance column `v` is treated as `diag v` and the diagonal of the rotated
matrix is returned, in both directions; neither call raises. -/
theorem vcv_rotation_31 (v : ℝ × ℝ × ℝ) (lat lon : ℝ) :
    let D := Matrix.diagonal ![v.1, v.2.1, v.2.2]
    vcv_cart2local_31 v lat lon =
      .ok (((R lat lon)ᵀ * D * R lat lon) 0 0, ((R lat lon)ᵀ * D * R lat lon) 1 1,
           ((R lat lon)ᵀ * D * R lat lon) 2 2) ∧
    vcv_local2cart_31 v lat lon =
      .ok ((R lat lon * D * (R lat lon)ᵀ) 0 0, (R lat lon * D * (R lat lon)ᵀ) 1 1,
           (R lat lon * D * (R lat lon)ᵀ) 2 2) := by
  intro D
  unfold vcv_cart2local_31 vcv_local2cart_31 R
  generalize rotation_matrix lat lon = Q
  obtain ⟨r0, r1, r2, r3, r4, r5, r6, r7, r8⟩ := Q
  obtain ⟨v0, v1, v2⟩ := v
  simp only [D, toMat, Matrix.mul_apply, Fin.sum_univ_three, Matrix.transpose_apply]
  constructor <;> simp [dec]

/-! ## 4. error ellipse -/

/-- Python `max(x, 0.0)` is the identity on nonnegative `x` -/
theorem pmax_of_nonneg {x : ℝ} (hx : 0 ≤ x) : pmax x 0 = x := by
  unfold pmax; rw [if_neg (not_lt.mpr hx)]

theorem pmax_eq_max (a b : ℝ) : pmax a b = max a b := by
  unfold pmax
  split_ifs with h
  · exact (max_eq_right h.le).symm
  · exact (max_eq_left (not_lt.mp h)).symm

/-- the semi-minor axis as returned by the generated code (with the `max(·, 0.0)` guard) -/
theorem ellipse_b_eq (V : T9) :
    (error_ellipse V).2.1 = Real.sqrt (pmax ((V.1 + V.2.2.2.2.1
      - Real.sqrt ((V.1 - V.2.2.2.2.1) ^ 2 + 4 * V.2.1 ^ 2)) / 2) 0) := by
  have h0 : dec 0 1 = (0 : ℝ) := by norm_num [dec]
  have h5 : ∀ x : ℝ, dec 5 1 * x = x / 2 := by intro x; simp only [dec]; ring
  simp only [error_ellipse, h5, h0, pown, sqrt]

/-- closed form of the squares of the semi-axes, for a PSD horizontal block -/
theorem ellipse_sq (V : T9) (hve : 0 ≤ V.1) (hvn : 0 ≤ V.2.2.2.2.1)
    (hdet : V.2.1 ^ 2 ≤ V.1 * V.2.2.2.2.1) :
    let z := Real.sqrt ((V.1 - V.2.2.2.2.1) ^ 2 + 4 * V.2.1 ^ 2)
    0 ≤ z ∧ z ≤ V.1 + V.2.2.2.2.1 ∧ z ^ 2 = (V.1 - V.2.2.2.2.1) ^ 2 + 4 * V.2.1 ^ 2 ∧
    (error_ellipse V).1 ^ 2 = (V.1 + V.2.2.2.2.1 + z) / 2 ∧
    (error_ellipse V).2.1 ^ 2 = (V.1 + V.2.2.2.2.1 - z) / 2 := by
  intro z
  have hz0 : 0 ≤ z := Real.sqrt_nonneg _
  have hrad : 0 ≤ (V.1 - V.2.2.2.2.1) ^ 2 + 4 * V.2.1 ^ 2 := by positivity
  have hz2 : z ^ 2 = (V.1 - V.2.2.2.2.1) ^ 2 + 4 * V.2.1 ^ 2 := Real.sq_sqrt hrad
  have hzle : z ≤ V.1 + V.2.2.2.2.1 := by
    have hs : 0 ≤ V.1 + V.2.2.2.2.1 := by linarith
    rw [← Real.sqrt_sq hs]
    apply Real.sqrt_le_sqrt
    nlinarith
  refine ⟨hz0, hzle, hz2, ?_, ?_⟩
  · show Real.sqrt (dec 5 1 * ((V.1 + V.2.2.2.2.1) + z)) ^ 2 = _
    rw [Real.sq_sqrt (by simp only [dec]; norm_num; linarith)]
    simp only [dec]; ring
  · have hnn : 0 ≤ (V.1 + V.2.2.2.2.1 - z) / 2 := by linarith
    rw [ellipse_b_eq, pmax_of_nonneg hnn, Real.sq_sqrt hnn]

/-- **C16.4** For `error_ellipse V = (a, b, θ)` with a positive-semidefinite horizontal block
`[[vₑ, c], [c, vₙ]]` (`vₑ = V₀₀`, `c = V₀₁`, `vₙ = V₁₁`): `a² + b² = vₑ + vₙ` (trace),
`a² b² = vₑ vₙ − c²` (determinant), `a ≥ b ≥ 0`, `a²`, `b²` are the two roots of the
characteristic polynomial `t² − (vₑ+vₙ) t + (vₑ vₙ − c²)` of the block, i.e. its eigenvalues. -/
theorem ellipse_axes (V : T9) (hve : 0 ≤ V.1) (hvn : 0 ≤ V.2.2.2.2.1)
    (hdet : V.2.1 ^ 2 ≤ V.1 * V.2.2.2.2.1) :
    let ve := V.1
    let c := V.2.1
    let vn := V.2.2.2.2.1
    let a := (error_ellipse V).1
    let b := (error_ellipse V).2.1
    a ^ 2 + b ^ 2 = ve + vn ∧ a ^ 2 * b ^ 2 = ve * vn - c ^ 2 ∧ b ≤ a ∧ 0 ≤ b ∧
    (∀ t : ℝ, t ^ 2 - (ve + vn) * t + (ve * vn - c ^ 2) = (t - a ^ 2) * (t - b ^ 2)) ∧
    (!![ve, c; c, vn] : Matrix (Fin 2) (Fin 2) ℝ).charpoly
      = (Polynomial.X - Polynomial.C (a ^ 2)) * (Polynomial.X - Polynomial.C (b ^ 2)) := by
  intro ve c vn a b
  obtain ⟨hz0, hzle, hz2, ha2, hb2⟩ := ellipse_sq V hve hvn hdet
  set z := Real.sqrt ((V.1 - V.2.2.2.2.1) ^ 2 + 4 * V.2.1 ^ 2) with hz
  have hsum : a ^ 2 + b ^ 2 = ve + vn := by
    show (error_ellipse V).1 ^ 2 + (error_ellipse V).2.1 ^ 2 = V.1 + V.2.2.2.2.1
    rw [ha2, hb2]; ring
  have hprod : a ^ 2 * b ^ 2 = ve * vn - c ^ 2 := by
    show (error_ellipse V).1 ^ 2 * (error_ellipse V).2.1 ^ 2 = V.1 * V.2.2.2.2.1 - V.2.1 ^ 2
    rw [ha2, hb2]; linear_combination (-1 / 4) * hz2
  have hb0 : 0 ≤ b := Real.sqrt_nonneg _
  have ha0 : 0 ≤ a := Real.sqrt_nonneg _
  have hba : b ≤ a := by
    rw [← pow_le_pow_iff_left₀ hb0 ha0 (two_ne_zero)]
    show (error_ellipse V).2.1 ^ 2 ≤ (error_ellipse V).1 ^ 2
    rw [ha2, hb2]; linarith
  refine ⟨hsum, hprod, hba, hb0, ?_, ?_⟩
  · intro t; linear_combination t * hsum - hprod
  · rw [Matrix.charpoly_fin_two, Matrix.trace_fin_two_of, Matrix.det_fin_two_of]
    have e1 : ve + vn = a ^ 2 + b ^ 2 := hsum.symm
    have e2 : ve * vn - c * c = a ^ 2 * b ^ 2 := by rw [hprod]; ring
    rw [e1, e2]
    simp only [map_add, map_mul]
    ring

example : ∃ V : T9, 0 ≤ V.1 ∧ 0 ≤ V.2.2.2.2.1 ∧ V.2.1 ^ 2 ≤ V.1 * V.2.2.2.2.1 :=
  ⟨(2, 1, 0, 1, 2, 0, 0, 0, 1), by norm_num, by norm_num, by norm_num⟩

/-- **C16.4c** rank-deficient PSD horizontal block (`vₑ vₙ = c²`, `vₑ, vₙ ≥ 0`): the ellipse is
defined and degenerates to a segment, `b = 0` and `a² = vₑ + vₙ` (before the `max(·, 0.0)` guard the
binary64 evaluation could raise "math domain error" here; in exact arithmetic the guarded term is
exactly 0). -/
theorem ellipse_defined_singular (V : T9) (hve : 0 ≤ V.1) (hvn : 0 ≤ V.2.2.2.2.1)
    (hdet : V.1 * V.2.2.2.2.1 = V.2.1 ^ 2) :
    (error_ellipse V).2.1 = 0 ∧ (error_ellipse V).1 ^ 2 = V.1 + V.2.2.2.2.1 := by
  obtain ⟨hz0, hzle, hz2, ha2, hb2⟩ := ellipse_sq V hve hvn hdet.ge
  have hs : 0 ≤ V.1 + V.2.2.2.2.1 := by linarith
  have hz : Real.sqrt ((V.1 - V.2.2.2.2.1) ^ 2 + 4 * V.2.1 ^ 2) = V.1 + V.2.2.2.2.1 := by
    rw [show (V.1 - V.2.2.2.2.1) ^ 2 + 4 * V.2.1 ^ 2 = (V.1 + V.2.2.2.2.1) ^ 2 by
      linear_combination (-4) * hdet]
    exact Real.sqrt_sq hs
  simp only [hz] at ha2 hb2
  constructor
  · have : (error_ellipse V).2.1 ^ 2 = 0 := by rw [hb2]; ring
    exact pow_eq_zero_iff (two_ne_zero) |>.mp this
  · rw [ha2]; ring

example : ∃ V : T9, 0 ≤ V.1 ∧ 0 ≤ V.2.2.2.2.1 ∧ V.1 * V.2.2.2.2.1 = V.2.1 ^ 2 :=
  ⟨(1, 2, 0, 2, 4, 0, 0, 0, 1), by norm_num, by norm_num, by norm_num⟩

/-- **C16.4b** the returned orientation (degrees, a bearing: clockwise from north; `θ` below is that
value converted to radians, `orientation·π/180`) points along the major axis: `(sin θ, cos θ)`
(east, north components) is an eigenvector of the horizontal block for the eigenvalue `a²`. Holds whenever `0 ≤ vₑ + vₙ` (in particular for a PSD block), including
the degenerate circular case `vₑ = vₙ, c = 0` where `atan2(0,0) = 0`. -/
theorem ellipse_orientation (V : T9) (hs : 0 ≤ V.1 + V.2.2.2.2.1) :
    let ve := V.1
    let c := V.2.1
    let vn := V.2.2.2.2.1
    let a := (error_ellipse V).1
    let θ := (error_ellipse V).2.2 * (Real.pi / 180)
    ve * Real.sin θ + c * Real.cos θ = a ^ 2 * Real.sin θ ∧
    c * Real.sin θ + vn * Real.cos θ = a ^ 2 * Real.cos θ := by
  intro ve c vn a θ
  set w : ℂ := ⟨V.1 - V.2.2.2.2.1, 2 * V.2.1⟩ with hw
  set z := Real.sqrt ((V.1 - V.2.2.2.2.1) ^ 2 + 4 * V.2.1 ^ 2) with hz
  have hz0 : 0 ≤ z := Real.sqrt_nonneg _
  have hnorm : ‖w‖ = z := by
    rw [Complex.norm_eq_sqrt_sq_add_sq, hz]; congr 1; simp only [hw]; ring
  have hd : z * Real.cos (Complex.arg w) = V.1 - V.2.2.2.2.1 := by
    rw [← hnorm]; exact Complex.norm_mul_cos_arg w
  have hc : z * Real.sin (Complex.arg w) = 2 * V.2.1 := by
    rw [← hnorm]; exact Complex.norm_mul_sin_arg w
  set ψ := Complex.arg w / 2 with hψ
  have h2ψ : Complex.arg w = 2 * ψ := by rw [hψ]; ring
  have hθ : θ = Real.pi / 2 - ψ := by
    show ((90 : ℝ) - (dec 5 1 * Complex.arg w) * (180 / Real.pi)) * (Real.pi / 180) = _
    have := Real.pi_ne_zero
    simp only [dec, hψ]; field_simp; ring
  have ha2 : a ^ 2 = (V.1 + V.2.2.2.2.1 + z) / 2 := by
    show Real.sqrt (dec 5 1 * ((V.1 + V.2.2.2.2.1) + z)) ^ 2 = _
    rw [Real.sq_sqrt (by simp only [dec]; norm_num; linarith)]
    simp only [dec]; ring
  rw [hθ, Real.sin_pi_div_two_sub, Real.cos_pi_div_two_sub, ha2]
  rw [h2ψ] at hd hc
  have hsin := Real.sin_two_mul ψ
  have hcos := Real.cos_two_mul ψ
  have hcos' : Real.cos (2 * ψ) = 1 - 2 * Real.sin ψ ^ 2 := by
    rw [hcos]; linear_combination 2 * Real.sin_sq_add_cos_sq ψ
  constructor
  · show V.1 * Real.cos ψ + V.2.1 * Real.sin ψ = _
    linear_combination (-1 / 2 * Real.cos ψ) * hd + (-1 / 2 * Real.sin ψ) * hc
      + (1 / 2 * z * Real.cos ψ) * hcos' + (1 / 2 * z * Real.sin ψ) * hsin
  · show V.2.1 * Real.cos ψ + V.2.2.2.2.1 * Real.sin ψ = _
    linear_combination (-1 / 2 * Real.cos ψ) * hc + (1 / 2 * Real.sin ψ) * hd
      + (1 / 2 * z * Real.cos ψ) * hsin + (-1 / 2 * z * Real.sin ψ) * hcos

/-! ## 5. relative error -/

/-- `Rᵀ (V₁ + V₂ − C − Cᵀ) R` distributes over the three rotated blocks -/
theorem rel_matrix_distrib (Q A B C : Matrix (Fin 3) (Fin 3) ℝ) :
    Qᵀ * (A + B - C - Cᵀ) * Q = Qᵀ * A * Q + Qᵀ * B * Q - Qᵀ * C * Q - (Qᵀ * C * Q)ᵀ := by
  simp only [Matrix.transpose_mul, Matrix.transpose_transpose, Matrix.mul_sub, Matrix.sub_mul,
    Matrix.mul_add, Matrix.add_mul, Matrix.mul_assoc]

theorem upper_cases {P : Fin 3 → Fin 3 → Prop} (h00 : P 0 0) (h01 : P 0 1) (h02 : P 0 2)
    (h11 : P 1 1) (h12 : P 1 2) (h22 : P 2 2) : ∀ i j, i ≤ j → P i j := by
  intro i j hij
  fin_cases i <;> fin_cases j <;> first | assumption | (exfalso; revert hij; decide)

theorem eq_of_upper (A B : Matrix (Fin 3) (Fin 3) ℝ) (hA : A.IsSymm) (hB : B.IsSymm)
    (h : ∀ i j, i ≤ j → A i j = B i j) : A = B := by
  ext i j
  rcases le_total i j with hij | hij
  · exact h i j hij
  · rw [← hA.apply, ← hB.apply]; exact h j i hij

/-- **C16.5** `relative_error` never raises. The 3×3 matrix `W` it fills entry by entry and hands to
`error_ellipse` is symmetric and agrees with `M = Rᵀ (V₁ + V₂ − C₁₂ − C₁₂ᵀ) R` on and above the
diagonal for *all* inputs (the code copies the upper triangle into the lower), and equals `M` in
every entry when `V₁`, `V₂` are symmetric. The fourth output is `W₂₂ ^ (1/2)` (`** 0.5`). -/
theorem relative_error_def (lat lon : ℝ) (V1 V2 C : T9) :
    let M := (R lat lon)ᵀ * (toMat V1 + toMat V2 - toMat C - (toMat C)ᵀ) * R lat lon
    ∃ W : T9,
      relative_error lat lon V1 V2 C =
        .ok ((error_ellipse W).1, (error_ellipse W).2.1, (error_ellipse W).2.2,
             (toMat W 2 2) ^ (1 / 2 : ℝ)) ∧
      (toMat W).IsSymm ∧
      (∀ i j : Fin 3, i ≤ j → toMat W i j = M i j) ∧
      ((toMat V1).IsSymm → (toMat V2).IsSymm → toMat W = M) := by
  intro M
  have hM : M = _ := rel_matrix_distrib (R lat lon) (toMat V1) (toMat V2) (toMat C)
  clear_value M
  subst hM
  have h5 : dec 5 1 = (1 / 2 : ℝ) := by norm_num [dec]
  have s1 := (conj_invariants (R lat lon) (toMat V1) (R_transpose_mul lat lon)
    (R_mul_transpose lat lon)).1
  have s2 := (conj_invariants (R lat lon) (toMat V2) (R_transpose_mul lat lon)
    (R_mul_transpose lat lon)).1
  simp only [relative_error, vcv_cart2local_33_eq, Except.bind, powr, h5, Prod.mk.eta]
  generalize (R lat lon)ᵀ * toMat V1 * R lat lon = E1 at s1 ⊢
  generalize (R lat lon)ᵀ * toMat V2 * R lat lon = E2 at s2 ⊢
  generalize (R lat lon)ᵀ * toMat C * R lat lon = E3
  refine ⟨_, rfl, ?_, ?_, ?_⟩
  · ext i j
    fin_cases i <;> fin_cases j <;> simp [toMat, Matrix.transpose_apply]
  · apply upper_cases <;>
      simp [toMat, ofMat, Matrix.transpose_apply, Matrix.sub_apply, Matrix.add_apply] <;> ring
  · intro h1 h2
    apply eq_of_upper
    · ext i j
      fin_cases i <;> fin_cases j <;> simp [toMat, Matrix.transpose_apply]
    · have e1 := s1 h1
      have e2 := s2 h2
      unfold Matrix.IsSymm at *
      simp only [Matrix.transpose_sub, Matrix.transpose_add, Matrix.transpose_transpose, e1, e2]
      abel
    · apply upper_cases <;>
        simp [toMat, ofMat, Matrix.transpose_apply, Matrix.sub_apply, Matrix.add_apply] <;> ring

/-- `error_ellipse` reads only the entries `V₀₀`, `V₀₁`, `V₁₁` -/
theorem error_ellipse_congr (V W : T9) (h0 : V.1 = W.1) (h1 : V.2.1 = W.2.1)
    (h2 : V.2.2.2.2.1 = W.2.2.2.2.1) : error_ellipse V = error_ellipse W := by
  unfold error_ellipse
  rw [h0, h1, h2]

/-- **C16.5 (closed form, all inputs)** the outputs of `relative_error` are the error ellipse of
`M = Rᵀ (V₁ + V₂ − C₁₂ − C₁₂ᵀ) R` and `M₂₂ ^ (1/2)`, with no symmetry assumption (the ellipse only
reads `M₀₀`, `M₀₁`, `M₁₁`). -/
theorem relative_error_eq (lat lon : ℝ) (V1 V2 C : T9) :
    let M := (R lat lon)ᵀ * (toMat V1 + toMat V2 - toMat C - (toMat C)ᵀ) * R lat lon
    relative_error lat lon V1 V2 C =
      .ok ((error_ellipse (ofMat M)).1, (error_ellipse (ofMat M)).2.1, (error_ellipse (ofMat M)).2.2,
           (M 2 2) ^ (1 / 2 : ℝ)) := by
  intro M
  obtain ⟨W, hW, -, hu, -⟩ := relative_error_def lat lon V1 V2 C
  have h00 : W.1 = M 0 0 := hu 0 0 (by decide)
  have h01 : W.2.1 = M 0 1 := hu 0 1 (by decide)
  have h11 : W.2.2.2.2.1 = M 1 1 := hu 1 1 (by decide)
  have h22 : toMat W 2 2 = M 2 2 := hu 2 2 (by decide)
  rw [hW, error_ellipse_congr W (ofMat M) h00 h01 h11, h22]

/-! ## 6. coverage factors -/

theorem ttable_length : ttable_p95.length = 120 := rfl

/-- the table is strictly decreasing (adjacent entries, hence all pairs) -/
theorem ttable_chain : List.IsChain (· > ·) ttable_p95 := by
  unfold ttable_p95
  simp only [List.isChain_cons_cons, List.isChain_singleton, and_true, dec]
  norm_num

theorem ttable_strictly_decreasing : List.Pairwise (· > ·) ttable_p95 :=
  List.isChain_iff_pairwise.mp ttable_chain

theorem ttable_first : ttable_p95[0]'(by rw [ttable_length]; norm_num) = (12.7062 : ℝ) := by
  simp only [ttable_p95, List.getElem_cons_zero, dec]; norm_num

theorem ttable_last : ttable_p95[119]'(by rw [ttable_length]; norm_num) = (1.97993 : ℝ) := by
  simp only [ttable_p95, List.getElem_cons_succ, List.getElem_cons_zero, dec]; norm_num

theorem listGet_int (l : List ℝ) (m : ℤ) (h : m.toNat < l.length) :
    listGet l (m : ℝ) = l[m.toNat] := by
  unfold listGet
  rw [Int.floor_intCast, List.getD_eq_getElem?_getD, List.getElem?_eq_getElem h, Option.getD_some]

/-- **C16.6** branch logic of `k_val95` and shape of the table: `TypeError` exactly for non-integer
`dof`; for an integer `n`: `table[0]` if `n < 1`, `1.96` if `n > 120`, `table[n−1]` otherwise
(index in range); the table has 120 entries, is strictly decreasing, starts at 12.7062 and ends at
1.97993. -/
theorem k_table_logic :
    (∀ d : ℝ, ¬ isInt d → k_val95 d = .error .TypeError) ∧
    (∀ d : ℝ, isInt d → ∃ k, k_val95 d = .ok k) ∧
    (∀ n : ℤ, n < 1 → k_val95 (n : ℝ) = .ok (ttable_p95[0]'(by rw [ttable_length]; norm_num))) ∧
    (∀ n : ℤ, 120 < n → k_val95 (n : ℝ) = .ok (1.96 : ℝ)) ∧
    (∀ n : ℤ, 1 ≤ n → n ≤ 120 → ∃ h : (n - 1).toNat < ttable_p95.length,
        k_val95 (n : ℝ) = .ok (ttable_p95[(n - 1).toNat])) ∧
    ttable_p95.length = 120 ∧ List.Pairwise (· > ·) ttable_p95 ∧
    ttable_p95[0]'(by rw [ttable_length]; norm_num) = (12.7062 : ℝ) ∧
    ttable_p95[119]'(by rw [ttable_length]; norm_num) = (1.97993 : ℝ) := by
  have hint : ∀ n : ℤ, isInt (n : ℝ) := fun n => ⟨n, rfl⟩
  refine ⟨?_, ?_, ?_, ?_, ?_, ttable_length, ttable_strictly_decreasing, ttable_first, ttable_last⟩
  · intro d hd
    unfold k_val95
    rw [if_pos hd]
  · intro d hd
    unfold k_val95
    rw [if_neg (not_not.mpr hd)]
    split_ifs <;> exact ⟨_, rfl⟩
  · intro n hn
    have h1 : (n : ℝ) < 1 := by exact_mod_cast hn
    unfold k_val95
    rw [if_neg (not_not.mpr (hint n)), if_pos h1]
    have := listGet_int ttable_p95 0 (by rw [ttable_length]; norm_num)
    simp only [Int.cast_zero, Int.toNat_zero] at this
    rw [this]
  · intro n hn
    have h1 : ¬ (n : ℝ) < 1 := by
      have : (120 : ℝ) < n := by exact_mod_cast hn
      linarith
    have h2 : (n : ℝ) > 120 := by exact_mod_cast hn
    unfold k_val95
    rw [if_neg (not_not.mpr (hint n)), if_neg h1, if_pos h2]
    congr 1; norm_num [dec]
  · intro n h1 h120
    have hlt : (n - 1).toNat < ttable_p95.length := by rw [ttable_length]; omega
    refine ⟨hlt, ?_⟩
    have c1 : ¬ (n : ℝ) < 1 := by
      have : (1 : ℝ) ≤ n := by exact_mod_cast h1
      linarith
    have c2 : ¬ (n : ℝ) > 120 := by
      have : (n : ℝ) ≤ 120 := by exact_mod_cast h120
      linarith
    unfold k_val95
    rw [if_neg (not_not.mpr (hint n)), if_neg c1, if_neg c2]
    have := listGet_int ttable_p95 (n - 1) hlt
    rw [Int.cast_sub, Int.cast_one] at this
    rw [this]

/-- strict decrease in index form -/
theorem ttable_decreasing_index (i j : ℕ) (hij : i < j) (hj : j < ttable_p95.length) :
    ttable_p95[j] < ttable_p95[i] :=
  (List.pairwise_iff_getElem.mp ttable_strictly_decreasing) i j (by omega) hj hij

/-- `circ_hz_pu a b = a·(q₀ + q₁c + q₂c² + q₃c³)` with `c = b/a` and the four published constants -/
theorem circ_hz_pu_def (a b : ℝ) :
    circ_hz_pu a b = a * (1.960790 + 0.004071 * (b / a) + 0.114276 * (b / a) ^ 2
      + 0.371625 * (b / a) ^ 3) := by
  unfold circ_hz_pu
  simp only [dec, pown]
  norm_num

/-- **Angle-class arguments.** Every angle parameter of `enu2xyz` is read by the source only through
`angular_typecheck` (list regenerated by the translator from the current text), so passing an angle object of any of
the five classes is passing its decimal-degree value: the theorems of this file, stated for numbers, cover them. -/
theorem angle_arguments_reduced_enu2xyz : GenR.Geodesy.enu2xyz_angle_params = ["lat", "lon"] := rfl

/-- **Angle-class arguments.** Every angle parameter of `xyz2enu` is read by the source only through
`angular_typecheck` (list regenerated by the translator from the current text), so passing an angle object of any of
the five classes is passing its decimal-degree value: the theorems of this file, stated for numbers, cover them. -/
theorem angle_arguments_reduced_xyz2enu : GenR.Geodesy.xyz2enu_angle_params = ["lat", "lon"] := rfl

end GeodeVerif.C16

#print axioms GeodeVerif.C16.rot_orthonormal
#print axioms GeodeVerif.C16.up_is_ellipsoid_normal
#print axioms GeodeVerif.C16.enu_xyz_inverse
#print axioms GeodeVerif.C16.enu_norm
#print axioms GeodeVerif.C16.vcv_rotation
#print axioms GeodeVerif.C16.vcv_rotation_inv
#print axioms GeodeVerif.C16.vcv_rotation_31
#print axioms GeodeVerif.C16.ellipse_axes
#print axioms GeodeVerif.C16.ellipse_orientation
#print axioms GeodeVerif.C16.ellipse_defined_singular
#print axioms GeodeVerif.C16.relative_error_def
#print axioms GeodeVerif.C16.relative_error_eq
#print axioms GeodeVerif.C16.k_table_logic
#print axioms GeodeVerif.C16.circ_hz_pu_def
