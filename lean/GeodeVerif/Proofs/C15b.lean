import GeodeVerif.Proofs.C15
import GeodeVerif.GenF.Coord
/-!
# C15 — the regenerated reading of `geodepy/coord.py` is the hand model

`GenF/Coord.lean` (namespace `GenCrd`) is regenerated from `/repo/geodepy/coord.py` on every run by
`translator/coord2lean.py`. The theorems below identify every generated constructor and conversion
method with the hand model `Model/Coord.lean`, for every record `Conv` of called functions and every
object and argument, so the C15 theorems of `Proofs/C15.lean` are statements about the text of
`coord.py` as it is now.
-/
namespace GeodeVerif.C15
open Crd Py Ang

variable {α E P : Type} (cv : Conv α E P)

theorem gen_cart_init (x y z : α) (n : Option α) :
    GenCrd.CoordCart.init cv x y z n = .ok (CoordCart.new x y z n) := by
  cases n <;> rfl

theorem gen_geo_init (lat lon : LatLon α) (e o : Option α) :
    GenCrd.CoordGeo.init cv lat lon e o = CoordGeo.new lat lon e o := by
  unfold GenCrd.CoordGeo.init CoordGeo.new
  by_cases h : lat.kind = lon.kind
  · cases e <;> cases o <;> simp [h] <;> rfl
  · simp [h]; rfl

theorem gen_tm_init (zone : Int) (east north : α) (e o : Option α) (hn : Bool) (p : Option P) :
    GenCrd.CoordTM.init cv zone east north e o hn p = .ok (CoordTM.new cv zone east north e o hn p) := by
  cases e <;> cases o <;> rfl


theorem gen_geo_cart (g : CoordGeo α) (e : Option E) : GenCrd.CoordGeo.cart cv g e = g.cart cv e := by
  unfold GenCrd.CoordGeo.cart CoordGeo.cart
  cases hE : g.ell_ht <;> cases hO : g.orth_ht <;>
    simp only [gen_cart_init, bind, Except.bind, pure, Except.pure]

theorem gen_geo_tm (g : CoordGeo α) (e : Option E) (p : Option P) :
    GenCrd.CoordGeo.tm cv g e p = g.tm cv e p := by
  unfold GenCrd.CoordGeo.tm CoordGeo.tm
  simp only [gen_tm_init, bind, Except.bind, pure, Except.pure]
  cases cv.geo2gridA g.lat g.lon 0 (e.getD cv.grs80) (p.getD cv.utm) with
  | error err => rfl
  | ok r =>
    obtain ⟨hemi, zone, east, north, psf, gc⟩ := r
    simp only []
    generalize (hemi == "North") = b
    cases b <;> rfl

theorem gen_cart_geo (c : CoordCart α) (e : Option E) (nt : Option Notation) :
    GenCrd.CoordCart.geo cv c e nt = c.geo cv e nt := by
  unfold GenCrd.CoordCart.geo CoordCart.geo
  simp only [gen_geo_init, bind, Except.bind, pure, Except.pure]
  cases cv.xyz2llh c.xaxis c.yaxis c.zaxis (e.getD cv.grs80) with
  | error err => rfl
  | ok r =>
    obtain ⟨lat, lon, h⟩ := r
    simp only []
    cases nt.getD (.cls .DEC) with
    | flt => simp [Conv.wrap]; cases c.nval <;> rfl
    | cls k =>
      cases k <;> simp only [Conv.wrap, Except.map, reduceCtorEq, if_true, if_false, Notation.cls.injEq] <;>
        (generalize cv.decaTo _ lat = r1; generalize cv.decaTo _ lon = r2; cases r1 <;> cases r2 <;> rfl)

theorem gen_cart_tm (c : CoordCart α) (e : Option E) (p : Option P) :
    GenCrd.CoordCart.tm cv c e p = c.tm cv e p := by
  unfold GenCrd.CoordCart.tm CoordCart.tm
  simp only [gen_cart_geo, gen_geo_tm]

theorem gen_tm_geo (t : CoordTM α P) (e : Option E) (nt : Option Notation) :
    GenCrd.CoordTM.geo cv t e nt = t.geo cv e nt := by
  unfold GenCrd.CoordTM.geo CoordTM.geo
  simp only [gen_geo_init, bind, Except.bind, pure, Except.pure]
  have hh : (if t.hemi_north = true then Except.ok "north" else Except.ok "south" : Except PyErr String)
      = Except.ok (if t.hemi_north = true then "north" else "south") := by
    cases t.hemi_north <;> rfl
  simp only [hh]
  cases cv.grid2geo t.zone t.east t.north (if t.hemi_north = true then "north" else "south")
      (e.getD cv.grs80) t.projection with
  | error err => rfl
  | ok r =>
    obtain ⟨lat, lon, psf, gc⟩ := r
    simp only []
    cases nt.getD (.cls .DEC) with
    | flt => simp [Conv.wrap]
    | cls k =>
      cases k <;> simp only [Conv.wrap, Except.map, reduceCtorEq, if_true, if_false, Notation.cls.injEq] <;>
        (generalize cv.decaTo _ lat = r1; generalize cv.decaTo _ lon = r2; cases r1 <;> cases r2 <;> rfl)

theorem gen_tm_cart (t : CoordTM α P) (e : Option E) : GenCrd.CoordTM.cart cv t e = t.cart cv e := by
  unfold GenCrd.CoordTM.cart CoordTM.cart
  simp only [gen_tm_geo, gen_geo_cart]

theorem gen_notation (g : CoordGeo α) (nt : Notation) : GenCrd.CoordGeo.notation cv g nt = g.notate cv nt := by
  unfold GenCrd.CoordGeo.notation CoordGeo.notate
  simp only [gen_geo_init, bind, Except.bind, pure, Except.pure]
  by_cases h : nt = g.lat.kind
  · simp only [h, if_true]
  · simp only [h, if_false]
    cases hl : g.lat with
    | flt x =>
      have hk : g.lat.kind = .flt := by rw [hl]; rfl
      rw [hl] at h
      simp only [LatLon.kind] at h
      cases nt with
      | flt => exact absurd rfl h
      | cls k =>
        cases k <;> simp only [LatLon.kind, reduceCtorEq, if_true, if_false, Notation.cls.injEq] <;>
          (generalize cv.fromFloat _ (LatLon.flt x) = r1; generalize cv.fromFloat _ g.lon = r2;
           cases r1 <;> cases r2 <;> rfl)
    | obj o =>
      rw [hl] at h
      simp only [LatLon.kind] at h
      have hmem : Notation.cls o.cls ∈ [Notation.cls .DEC, .cls .HP, .cls .GON, .cls .DMS, .cls .DDM] := by
        cases o.cls <;> simp
      cases nt with
      | flt =>
        simp only [LatLon.kind, reduceCtorEq, if_true, if_false, hmem]
        generalize cv.fromObj _ (LatLon.obj o) = r1; generalize cv.fromObj _ g.lon = r2
        cases r1 <;> cases r2 <;> rfl
      | cls k =>
        cases k <;> simp only [LatLon.kind, reduceCtorEq, if_true, if_false, Notation.cls.injEq, hmem] <;>
          (generalize cv.fromObj _ (LatLon.obj o) = r1; generalize cv.fromObj _ g.lon = r2;
           cases r1 <;> cases r2 <;> rfl)


/-! ## The C15 theorems restated for the regenerated methods -/

/-- `obj.<op>(args)` dispatched to the REGENERATED methods -/
def genApply (c : Coord α P) (op : Op E P) : Except PyErr (Coord α P) :=
  match c, op with
  | .cart c, .geo e nt => (GenCrd.CoordCart.geo cv c e nt).map .geo
  | .cart c, .tm e p => (GenCrd.CoordCart.tm cv c e p).map .tm
  | .geo g, .cart e => (GenCrd.CoordGeo.cart cv g e).map .cart
  | .geo g, .tm e p => (GenCrd.CoordGeo.tm cv g e p).map .tm
  | .geo g, .nota nt => (GenCrd.CoordGeo.notation cv g nt).map .geo
  | .tm t, .geo e nt => (GenCrd.CoordTM.geo cv t e nt).map .geo
  | .tm t, .cart e => (GenCrd.CoordTM.cart cv t e).map .cart
  | _, _ => .error .AttributeError

/-- a chain of calls of the regenerated methods -/
def genRun : List (Op E P) → Coord α P → Except PyErr (Coord α P)
  | [], c => .ok c
  | op :: t, c => (genApply cv c op).bind (genRun t)

theorem gen_apply (c : Coord α P) (op : Op E P) : genApply cv c op = c.apply cv op := by
  cases c <;> cases op <;>
    simp only [genApply, Coord.apply, gen_cart_geo, gen_cart_tm, gen_geo_cart, gen_geo_tm, gen_notation,
      gen_tm_geo, gen_tm_cart]

theorem gen_run (ops : List (Op E P)) (c : Coord α P) : genRun cv ops c = Coord.run cv ops c := by
  induction ops generalizing c with
  | nil => rfl
  | cons op t ih =>
    simp only [genRun, Coord.run, gen_apply]
    cases c.apply cv op <;> simp [Except.bind, ih]

/-- C15 "exactly the numbers the functional conversions give", of the regenerated methods -/
theorem gen_same_numbers :
    (∀ (g : CoordGeo α) (e : Option E),
      GenCrd.CoordGeo.cart cv g e = (cv.llh2xyzA g.lat g.lon (g.ell_ht.getD cv.zero) (e.getD cv.grs80)).map
        (fun r => { xaxis := r.1, yaxis := r.2.1, zaxis := r.2.2, nval := nOf cv g.ell_ht g.orth_ht })) ∧
    (∀ (g : CoordGeo α) (e : Option E) (p : Option P),
      GenCrd.CoordGeo.tm cv g e p = (cv.geo2gridA g.lat g.lon 0 (e.getD cv.grs80) (p.getD cv.utm)).map
        (fun r => { zone := r.2.1, east := r.2.2.1, north := r.2.2.2.1, ell_ht := g.ell_ht,
                    orth_ht := g.orth_ht, hemi_north := r.1 == "North", projection := p.getD cv.utm })) ∧
    (∀ (c : CoordCart α) (e : Option E) (nt : Option Notation) (φ l h : α) (lat lon : LatLon α),
      cv.xyz2llh c.xaxis c.yaxis c.zaxis (e.getD cv.grs80) = .ok (φ, l, h) →
      cv.wrap (nt.getD (.cls .DEC)) φ = .ok lat → cv.wrap (nt.getD (.cls .DEC)) l = .ok lon →
      lat.kind = lon.kind →
      GenCrd.CoordCart.geo cv c e nt =
        .ok { lat := lat, lon := lon, ell_ht := some h, orth_ht := c.nval.map (cv.sub h) }) ∧
    (∀ (t : CoordTM α P) (e : Option E) (nt : Option Notation) (φ l psf gc : α) (lat lon : LatLon α),
      cv.grid2geo t.zone t.east t.north (if t.hemi_north then "north" else "south") (e.getD cv.grs80)
        t.projection = .ok (φ, l, psf, gc) →
      cv.wrap (nt.getD (.cls .DEC)) φ = .ok lat → cv.wrap (nt.getD (.cls .DEC)) l = .ok lon →
      lat.kind = lon.kind →
      GenCrd.CoordTM.geo cv t e nt = .ok { lat := lat, lon := lon, ell_ht := t.ell_ht, orth_ht := t.orth_ht }) := by
  simp only [gen_geo_cart, gen_geo_tm, gen_cart_geo, gen_tm_geo]
  exact same_numbers cv

/-- C15 "heights are preserved by geographic ↔ projected conversion", of the regenerated methods -/
theorem gen_heights_carried :
    (∀ (g : CoordGeo α) (e : Option E) (p : Option P) (t : CoordTM α P),
      GenCrd.CoordGeo.tm cv g e p = .ok t → t.ell_ht = g.ell_ht ∧ t.orth_ht = g.orth_ht) ∧
    (∀ (t : CoordTM α P) (e : Option E) (nt : Option Notation) (g : CoordGeo α),
      GenCrd.CoordTM.geo cv t e nt = .ok g → g.ell_ht = t.ell_ht ∧ g.orth_ht = t.orth_ht) := by
  simp only [gen_geo_tm, gen_tm_geo]
  exact heights_carried cv

/-- C15 "N = ellipsoidal height − orthometric height", of the regenerated methods -/
theorem gen_n_value :
    (∀ (c : CoordCart α) (e : Option E) (nt : Option Notation) (g : CoordGeo α),
      GenCrd.CoordCart.geo cv c e nt = .ok g →
      ∃ φ l ht, cv.xyz2llh c.xaxis c.yaxis c.zaxis (e.getD cv.grs80) = .ok (φ, l, ht) ∧
        g.ell_ht = some ht ∧ g.orth_ht = c.nval.map (cv.sub ht)) ∧
    (∀ (g : CoordGeo α) (e : Option E) (c : CoordCart α), GenCrd.CoordGeo.cart cv g e = .ok c →
      c.nval = nOf cv g.ell_ht g.orth_ht) := by
  simp only [gen_cart_geo, gen_geo_cart]
  exact n_value cv

/-- C15 "any closed chain": the position part of a chain of regenerated calls depends on the position
part of the start only -/
theorem gen_chain_closed_position (ops : List (Op E P)) (c₁ c₂ : Coord α P) (h : erase c₁ = erase c₂) :
    (genRun cv ops c₁).map erase = (genRun cv ops c₂).map erase := by
  simp only [gen_run]
  exact chain_closed_position cv ops c₁ c₂ h

end GeodeVerif.C15
