import GeodeVerif.GenR.Convert
import GeodeVerif.Lemmas.PyRSimp
import GeodeVerif.Spec.Krueger
import Mathlib.Analysis.SpecialFunctions.Arsinh
import Mathlib.Analysis.SpecialFunctions.Trigonometric.Arctan
import Mathlib.Analysis.SpecialFunctions.Trigonometric.DerivHyp
import Mathlib.Analysis.SpecialFunctions.Log.Deriv
import Mathlib.Analysis.SpecialFunctions.Sqrt
import Mathlib.Analysis.Calculus.Deriv.Pow
import Mathlib.Analysis.Calculus.Deriv.Inv
import Mathlib.Tactic.FieldSimp
import Mathlib.Tactic.Ring
import Mathlib.Tactic.Linarith
import Mathlib.Tactic.LinearCombination
import Mathlib.Tactic.NormNum
import Mathlib.Tactic.Positivity
/-!
# C02 — grid → geographic (`GenR.Convert.grid2geo`) inverts the forward conversion

All theorems are about the regenerated `GenR.Convert.grid2geo`, `beta_coeff`, `grid2geo_sigma`,
`grid2geo_ftn`, `grid2geo_f1tn`.  The small definitions below (`Valid`, `xi1Of`, `newtonBody`, …)
are only vocabulary; `grid2geo_spec` proves that the generated function *is* that composition, and
every later theorem is derived from it.
-/
set_option maxRecDepth 4096
namespace GeodeVerif.C02
open PyR Py GenR.Convert GenR.Constants

/-! ## Vocabulary -/

/-- zone accepted by the validation (`zone = int(zone)` first) -/
def ZoneOK (prj : Projection) (zone : ℝ) : Prop :=
  if prj.pyid = isg.pyid then
    (trunc zone = 541 ∨ trunc zone = 542 ∨ trunc zone = 543 ∨ trunc zone = 551 ∨ trunc zone = 552 ∨
      trunc zone = 553 ∨ trunc zone = 561 ∨ trunc zone = 562 ∨ trunc zone = 563 ∨ trunc zone = 572)
  else (0 ≤ trunc zone ∧ trunc zone ≤ 60)

/-- the inputs `grid2geo` accepts -/
structure Valid (zone east north : ℝ) (h : String) (prj : Projection) : Prop where
  zone : ZoneOK prj zone
  east : -2830000 ≤ east ∧ east ≤ 3830000
  north : 0 ≤ north ∧ north ≤ 10000000
  hemi : strLower h = "north" ∨ strLower h = "south"

abbrev B8 := ℝ × ℝ × ℝ × ℝ × ℝ × ℝ × ℝ × ℝ

/-- `hemisign` of the code: −1 for north, +1 otherwise -/
noncomputable def hemisign (h : String) : ℝ := if strLower h = "north" then -1 else 1
/-- the code's `y` -/
noncomputable def gridY (north : ℝ) (h : String) (prj : Projection) : ℝ :=
  if strLower h = "north" then -(north / prj.cmscale) else (north - prj.falsenorth) / prj.cmscale
/-- the code's `x` -/
noncomputable def gridX (east : ℝ) (prj : Projection) : ℝ := (east - prj.falseeast) / prj.cmscale

/-- η′ = η + Σ b_r cos 2rξ sinh 2rη (the code ADDS the β terms) -/
noncomputable def etaSeries (b : B8) (xi eta : ℝ) : ℝ :=
  eta + b.1 * Real.cos (2 * 1 * xi) * Real.sinh (2 * 1 * eta)
    + b.2.1 * Real.cos (2 * 2 * xi) * Real.sinh (2 * 2 * eta)
    + b.2.2.1 * Real.cos (2 * 3 * xi) * Real.sinh (2 * 3 * eta)
    + b.2.2.2.1 * Real.cos (2 * 4 * xi) * Real.sinh (2 * 4 * eta)
    + b.2.2.2.2.1 * Real.cos (2 * 5 * xi) * Real.sinh (2 * 5 * eta)
    + b.2.2.2.2.2.1 * Real.cos (2 * 6 * xi) * Real.sinh (2 * 6 * eta)
    + b.2.2.2.2.2.2.1 * Real.cos (2 * 7 * xi) * Real.sinh (2 * 7 * eta)
    + b.2.2.2.2.2.2.2 * Real.cos (2 * 8 * xi) * Real.sinh (2 * 8 * eta)
/-- ξ′ = ξ + Σ b_r sin 2rξ cosh 2rη -/
noncomputable def xiSeries (b : B8) (xi eta : ℝ) : ℝ :=
  xi + b.1 * Real.sin (2 * 1 * xi) * Real.cosh (2 * 1 * eta)
    + b.2.1 * Real.sin (2 * 2 * xi) * Real.cosh (2 * 2 * eta)
    + b.2.2.1 * Real.sin (2 * 3 * xi) * Real.cosh (2 * 3 * eta)
    + b.2.2.2.1 * Real.sin (2 * 4 * xi) * Real.cosh (2 * 4 * eta)
    + b.2.2.2.2.1 * Real.sin (2 * 5 * xi) * Real.cosh (2 * 5 * eta)
    + b.2.2.2.2.2.1 * Real.sin (2 * 6 * xi) * Real.cosh (2 * 6 * eta)
    + b.2.2.2.2.2.2.1 * Real.sin (2 * 7 * xi) * Real.cosh (2 * 7 * eta)
    + b.2.2.2.2.2.2.2 * Real.sin (2 * 8 * xi) * Real.cosh (2 * 8 * eta)

/-- the code's `xi1` (ξ′) as a function of the inputs -/
noncomputable def xi1Of (east north : ℝ) (h : String) (ell : Ellipsoid) (prj : Projection) : ℝ :=
  xiSeries (beta_coeff ell) (gridY north h prj / rect_radius ell) (gridX east prj / rect_radius ell)
/-- the code's `eta1` (η′) as a function of the inputs -/
noncomputable def eta1Of (east north : ℝ) (h : String) (ell : Ellipsoid) (prj : Projection) : ℝ :=
  etaSeries (beta_coeff ell) (gridY north h prj / rect_radius ell) (gridX east prj / rect_radius ell)

/-- the code's `t1` = t′ = tan χ from (ξ′, η′) -/
noncomputable def tPrime (xi1 eta1 : ℝ) : ℝ :=
  Real.sin xi1 / Real.sqrt (Real.sinh eta1 ^ 2 + Real.cos xi1 ^ 2)

/-- the code's `cm` -/
noncomputable def centralMeridian (zone : ℝ) (prj : Projection) : ℝ :=
  if prj.pyid = isg.pyid then
    (((intStrPrefix2 (trunc zone) - 1) * prj.zonewidth) * 3 + prj.initialcm)
      + (intStrDigit2 (trunc zone) - 2) * prj.zonewidth
  else (trunc zone * prj.zonewidth + prj.initialcm) - prj.zonewidth

/-- loop condition `diff > 1e-15 and itercount < 100` on the state `(itercount, t, diff)` -/
noncomputable def newtonCond : ℝ × ℝ × ℝ → Bool :=
  fun s => decide (s.2.2 > dec 1 15 ∧ s.1 < 100)

/-- the map `t ↦ t − ftn(t)/f1tn(t)` exactly as the call site evaluates the lambda-lifted helpers
(`tn := t` and the late-bound captured `t`, `t1` passed as trailing arguments) -/
noncomputable def newtonMap (ell : Ellipsoid) (t1 : ℝ) (t : ℝ) : ℝ :=
  t - grid2geo_ftn t ell.ecc1 t1 t / grid2geo_f1tn t ell.ecc1 ell.ecc1sq t

/-- the loop body on the state `(itercount, t, diff)` -/
noncomputable def newtonBody (ell : Ellipsoid) (t1 : ℝ) : ℝ × ℝ × ℝ → ℝ × ℝ × ℝ :=
  fun s => (s.1 + 1, newtonMap ell t1 s.2.1, |newtonMap ell t1 s.2.1 - s.2.1|)

/-- what is returned once the loop has produced `t` -/
noncomputable def output (hs : ℝ) (ell : Ellipsoid) (prj : Projection) (xi1 eta1 cm t : ℝ) :
    ℝ × ℝ × ℝ × ℝ :=
  let lat := degrees (Real.arctan t)
  let long := cm + degrees (Real.arctan (Real.sinh eta1 / Real.cos xi1))
  let pc := psfandgridconv xi1 eta1 lat long cm (Real.arctan (tPrime xi1 eta1)) ell prj
  (hs * pround 11 lat, pround 11 long, pround 8 pc.1, hs * pc.2)

noncomputable def finish (hs : ℝ) (ell : Ellipsoid) (prj : Projection) (xi1 eta1 cm : ℝ) :
    Option (ℝ × ℝ × ℝ) → Except PyErr (ℝ × ℝ × ℝ × ℝ)
  | none => .error .Diverged
  | some s => .ok (output hs ell prj xi1 eta1 cm s.2.1)

/-! ## Strings: `hemisphere.lower()` -/

theorem strLower_toList (s : String) : (strLower s).toList = s.toList.map Char.toLower := by
  unfold strLower String.toLower; exact String.toList_map

/-- the hemisphere is compared case-insensitively -/
theorem strLower_examples :
    strLower "South" = "south" ∧ strLower "SOUTH" = "south" ∧ strLower "south" = "south" ∧
    strLower "North" = "north" ∧ strLower "NORTH" = "north" ∧ strLower "north" = "north" ∧
    strLower "nOrTh" = "north" := by
  refine ⟨?_, ?_, ?_, ?_, ?_, ?_, ?_⟩ <;>
    (apply String.toList_injective; rw [strLower_toList]; decide)

theorem strLower_east : ¬ (strLower "East" = "north") ∧ ¬ (strLower "East" = "south") := by
  constructor <;>
    (intro h; have h2 := congrArg String.toList h; rw [strLower_toList] at h2; revert h2; decide)

/-! ## Loop lemmas -/

/-- `Py.whileLoop_some` plus: the condition held at every earlier iterate -/
theorem whileLoop_some_strong {σ : Type} (cond : σ → Bool) (body : σ → σ) :
    ∀ (fuel : Nat) (s₀ s : σ), whileLoop fuel cond body s₀ = some s →
      cond s = false ∧ ∃ k, k ≤ fuel ∧ s = iter body k s₀ ∧
        ∀ j, j < k → cond (iter body j s₀) = true := by
  intro fuel
  induction fuel with
  | zero =>
    intro s₀ s h
    simp only [whileLoop] at h
    split at h
    · cases h
    · rename_i hc
      cases h
      exact ⟨by simpa using hc, 0, Nat.le_refl 0, rfl, fun j hj => absurd hj (Nat.not_lt_zero j)⟩
  | succ n ih =>
    intro s₀ s h
    simp only [whileLoop] at h
    split at h
    · rename_i hc
      obtain ⟨h1, k, hk, hs, hall⟩ := ih _ _ h
      refine ⟨h1, k + 1, Nat.succ_le_succ hk, hs, ?_⟩
      intro j hj
      cases j with
      | zero => exact hc
      | succ j' => exact hall j' (Nat.lt_of_succ_lt_succ hj)
    · rename_i hc
      cases h
      exact ⟨by simpa using hc, 0, Nat.zero_le _, rfl, fun j hj => absurd hj (Nat.not_lt_zero j)⟩

/-- a `while` whose condition implies `counter < B` and whose body increments the counter cannot
run out of fuel once `fuel ≥ B − counter` -/
theorem whileLoop_counter_ne_none {σ : Type} (cond : σ → Bool) (body : σ → σ) (cnt : σ → ℝ) (B : ℝ)
    (hc : ∀ s, cond s = true → cnt s < B) (hb : ∀ s, cnt (body s) = cnt s + 1) :
    ∀ (fuel m : ℕ) (s : σ), m ≤ fuel → B - m ≤ cnt s → whileLoop fuel cond body s ≠ none := by
  intro fuel
  induction fuel with
  | zero =>
    intro m s hm hB
    have hm0 : m = 0 := Nat.le_zero.mp hm
    subst hm0
    simp only [whileLoop]
    split
    · rename_i hcs
      have := hc s hcs
      simp only [Nat.cast_zero, sub_zero] at hB
      linarith
    · simp
  | succ n ih =>
    intro m s hm hB
    simp only [whileLoop]
    split
    · rename_i hcs
      have h1 := hc s hcs
      have hmpos : 0 < m := by
        rcases Nat.eq_zero_or_pos m with h0 | h0
        · subst h0; simp only [Nat.cast_zero, sub_zero] at hB; linarith
        · exact h0
      obtain ⟨m', rfl⟩ : ∃ m', m = m' + 1 := ⟨m - 1, by omega⟩
      apply ih m' (body s) (by omega)
      rw [hb s]
      push_cast at hB
      linarith
    · simp

theorem iter_newtonBody (ell : Ellipsoid) (t1 : ℝ) :
    ∀ (n : ℕ) (s : ℝ × ℝ × ℝ),
      (iter (newtonBody ell t1) n s).1 = s.1 + n ∧
      (iter (newtonBody ell t1) n s).2.1 = (newtonMap ell t1)^[n] s.2.1 ∧
      (1 ≤ n → (iter (newtonBody ell t1) n s).2.2
          = |(newtonMap ell t1)^[n] s.2.1 - (newtonMap ell t1)^[n - 1] s.2.1|) := by
  intro n
  induction n with
  | zero => intro s; simp [iter]
  | succ n ih =>
    intro s
    obtain ⟨h1, h2, h3⟩ := ih (newtonBody ell t1 s)
    refine ⟨?_, ?_, ?_⟩
    · show (iter (newtonBody ell t1) n (newtonBody ell t1 s)).1 = _
      rw [h1]; simp only [newtonBody]; push_cast; ring
    · show (iter (newtonBody ell t1) n (newtonBody ell t1 s)).2.1 = _
      rw [h2, Function.iterate_succ_apply]; rfl
    · intro _
      show (iter (newtonBody ell t1) n (newtonBody ell t1 s)).2.2 = _
      rcases Nat.eq_zero_or_pos n with h0 | h0
      · subst h0
        simp [iter, newtonBody]
      · rw [h3 h0]
        have e1 : (newtonBody ell t1 s).2.1 = newtonMap ell t1 s.2.1 := rfl
        rw [e1, ← Function.iterate_succ_apply, ← Function.iterate_succ_apply]
        have : (n - 1).succ = n + 1 - 1 := by omega
        rw [this]

theorem newton_loop_ne_none (ell : Ellipsoid) (t1 : ℝ) :
    whileLoop 200 newtonCond (newtonBody ell t1) (0, t1, 1) ≠ none := by
  apply whileLoop_counter_ne_none newtonCond (newtonBody ell t1) (fun s => s.1) 100 _ _ 200 100
  · norm_num
  · norm_num
  · intro s hs
    unfold newtonCond at hs
    exact (of_decide_eq_true hs).2
  · intro s; rfl

/-! ## The generated `grid2geo` is the composition of the pieces above -/

/-- closes `(match W₁ with | none => … | some (i,t,d) => …) = finish … W₂` where `W₁` (generated) and
`W₂` (vocabulary) are definitionally equal `whileLoop` terms -/
local macro "close_loop" : tactic => `(tactic| (
  split
  · rename_i heq
    generalize hW2 : whileLoop 200 newtonCond _ _ = W2
    have : W2 = none := hW2.symm.trans heq
    subst this; rfl
  · rename_i i t d heq
    generalize hW2 : whileLoop 200 newtonCond _ _ = W2
    have : W2 = some (i, t, d) := hW2.symm.trans heq
    subst this; rfl))

theorem grid2geo_spec (zone east north : ℝ) (h : String) (ell : Ellipsoid) (prj : Projection)
    (hv : Valid zone east north h prj) :
    grid2geo zone east north h ell prj =
      finish (hemisign h) ell prj (xi1Of east north h ell prj) (eta1Of east north h ell prj)
        (centralMeridian zone prj)
        (whileLoop 200 newtonCond
          (newtonBody ell (tPrime (xi1Of east north h ell prj) (eta1Of east north h ell prj)))
          (0, tPrime (xi1Of east north h ell prj) (eta1Of east north h ell prj), 1)) := by
  obtain ⟨hz, he, hn, hh⟩ := hv
  have he' : ¬ (east < -2830000 ∨ east > 3830000) := by
    rintro (h1 | h1) <;> linarith [he.1, he.2]
  have hn' : ¬ (north < 0 ∨ north > 10000000) := by
    rintro (h1 | h1) <;> linarith [hn.1, hn.2]
  have hh' : ¬ (¬ strLower h = "north" ∧ ¬ strLower h = "south") := by
    rintro ⟨h1, h2⟩; exact hh.elim h1 h2
  unfold ZoneOK at hz
  unfold grid2geo xi1Of eta1Of gridY hemisign centralMeridian
  by_cases hp : prj.pyid = isg.pyid
  · rw [if_pos hp] at hz
    simp only [if_pos hp, feq, if_neg (not_not_intro hz), if_neg he', if_neg hn', if_neg hh',
      Except.bind]
    by_cases hN : strLower h = "north"
    · simp only [if_pos hN]
      close_loop
    · simp only [if_neg hN]
      close_loop
  · rw [if_neg hp] at hz
    have hz' : ¬ (trunc zone < 0 ∨ trunc zone > 60) := by
      rintro (h1 | h1) <;> linarith [hz.1, hz.2]
    simp only [if_neg hp, if_neg hz', if_neg he', if_neg hn', if_neg hh', Except.bind]
    by_cases hN : strLower h = "north"
    · simp only [if_pos hN]
      close_loop
    · simp only [if_neg hN]
      close_loop

/-! ## C02.5 validation -/

/-- any violated range raises `ValueError` -/
theorem invalid_raises (zone east north : ℝ) (h : String) (ell : Ellipsoid) (prj : Projection)
    (hv : ¬ Valid zone east north h prj) :
    grid2geo zone east north h ell prj = .error .ValueError := by
  by_cases hz : ZoneOK prj zone
  · by_cases he : (east < -2830000 ∨ east > 3830000)
    · unfold ZoneOK at hz; unfold grid2geo
      by_cases hp : prj.pyid = isg.pyid
      · rw [if_pos hp] at hz
        simp only [if_pos hp, feq, if_neg (not_not_intro hz), if_pos he, Except.bind]
      · rw [if_neg hp] at hz
        have hz' : ¬ (trunc zone < 0 ∨ trunc zone > 60) := by
          rintro (h1 | h1) <;> linarith [hz.1, hz.2]
        simp only [if_neg hp, if_neg hz', if_pos he, Except.bind]
    · by_cases hn : (north < 0 ∨ north > 10000000)
      · unfold ZoneOK at hz; unfold grid2geo
        by_cases hp : prj.pyid = isg.pyid
        · rw [if_pos hp] at hz
          simp only [if_pos hp, feq, if_neg (not_not_intro hz), if_neg he, if_pos hn, Except.bind]
        · rw [if_neg hp] at hz
          have hz' : ¬ (trunc zone < 0 ∨ trunc zone > 60) := by
            rintro (h1 | h1) <;> linarith [hz.1, hz.2]
          simp only [if_neg hp, if_neg hz', if_neg he, if_pos hn, Except.bind]
      · have hh : (¬ strLower h = "north" ∧ ¬ strLower h = "south") := by
          by_contra hc
          apply hv
          refine ⟨hz, ?_, ?_, ?_⟩
          · constructor <;> by_contra hlt <;> apply he
            · left; linarith [not_le.mp hlt]
            · right; exact not_le.mp hlt
          · constructor <;> by_contra hlt <;> apply hn
            · left; exact not_le.mp hlt
            · right; exact not_le.mp hlt
          · by_cases h1 : strLower h = "north"
            · exact Or.inl h1
            · right; by_contra h2; exact hc ⟨h1, h2⟩
        unfold ZoneOK at hz; unfold grid2geo
        by_cases hp : prj.pyid = isg.pyid
        · rw [if_pos hp] at hz
          simp only [if_pos hp, feq, if_neg (not_not_intro hz), if_neg he, if_neg hn, if_pos hh,
            Except.bind]
        · rw [if_neg hp] at hz
          have hz' : ¬ (trunc zone < 0 ∨ trunc zone > 60) := by
            rintro (h1 | h1) <;> linarith [hz.1, hz.2]
          simp only [if_neg hp, if_neg hz', if_neg he, if_neg hn, if_pos hh, Except.bind]
  · unfold ZoneOK at hz
    unfold grid2geo
    by_cases hp : prj.pyid = isg.pyid
    · rw [if_pos hp] at hz
      simp only [if_pos hp, feq, if_pos hz]
      rfl
    · rw [if_neg hp] at hz
      have : trunc zone < 0 ∨ trunc zone > 60 := by
        by_contra hc
        apply hz
        constructor
        · by_contra h1; exact hc (Or.inl (not_le.mp h1))
        · by_contra h1; exact hc (Or.inr (not_le.mp h1))
      simp only [if_neg hp, if_pos this]
      rfl

/-- valid inputs always produce a value: the loop cannot exhaust the model's fuel (200) because
`itercount < 100` is part of the condition -/
theorem valid_returns (zone east north : ℝ) (h : String) (ell : Ellipsoid) (prj : Projection)
    (hv : Valid zone east north h prj) :
    ∃ s : ℝ × ℝ × ℝ,
      whileLoop 200 newtonCond
          (newtonBody ell (tPrime (xi1Of east north h ell prj) (eta1Of east north h ell prj)))
          (0, tPrime (xi1Of east north h ell prj) (eta1Of east north h ell prj), 1) = some s ∧
      grid2geo zone east north h ell prj =
        .ok (output (hemisign h) ell prj (xi1Of east north h ell prj) (eta1Of east north h ell prj)
          (centralMeridian zone prj) s.2.1) := by
  rw [grid2geo_spec zone east north h ell prj hv]
  cases hW : whileLoop 200 newtonCond
      (newtonBody ell (tPrime (xi1Of east north h ell prj) (eta1Of east north h ell prj)))
      (0, tPrime (xi1Of east north h ell prj) (eta1Of east north h ell prj), 1) with
  | none => exact absurd hW (newton_loop_ne_none ell _)
  | some s => exact ⟨s, rfl, rfl⟩

/-- C02.5: `grid2geo` raises `ValueError` iff zone / easting / northing / hemisphere is outside the
stated ranges, returns a value iff they are inside, and never raises anything else. -/
theorem validation_logic (zone east north : ℝ) (h : String) (ell : Ellipsoid) (prj : Projection) :
    (grid2geo zone east north h ell prj = .error .ValueError ↔ ¬ Valid zone east north h prj) ∧
    ((∃ r, grid2geo zone east north h ell prj = .ok r) ↔ Valid zone east north h prj) ∧
    (∀ e, grid2geo zone east north h ell prj = .error e → e = .ValueError) := by
  by_cases hv : Valid zone east north h prj
  · obtain ⟨s, _, hs⟩ := valid_returns zone east north h ell prj hv
    refine ⟨?_, ?_, ?_⟩
    · rw [hs]; constructor
      · intro hc; cases hc
      · intro hc; exact absurd hv hc
    · exact ⟨fun _ => hv, fun _ => ⟨_, hs⟩⟩
    · intro e he; rw [hs] at he; cases he
  · have hs := invalid_raises zone east north h ell prj hv
    refine ⟨?_, ?_, ?_⟩
    · exact ⟨fun _ => hv, fun _ => hs⟩
    · constructor
      · rintro ⟨r, hr⟩; rw [hs] at hr; cases hr
      · intro hc; exact absurd hc hv
    · intro e he; rw [hs] at he; cases he; rfl

/-! ## C02.3 Newton iteration: target, step, exit -/

/-- `sigma` is the same expression as the forward conversion's `sig` (geo2grid: `sigx`, `sig`)
with `tan lat := tn`. -/
theorem sigma_eq_forward (tn e : ℝ) :
    grid2geo_sigma tn e =
      (let sigx := (e * tn) / Real.sqrt (1 + tn ^ 2)
       Real.sinh (e * (dec 5 1 * Real.log ((1 + sigx) / (1 - sigx))))) := by
  unfold grid2geo_sigma
  simp only [sinh_def, log_def, sqrt_def, pown_def]
  congr 1
  ring

/-- C02.3 `newton_target`.  The call site evaluates `ftn(t, ecc1)` with the late-bound captured
`t`, `t1`, i.e. `grid2geo_ftn t ecc1 t1 t`; it vanishes iff the forward conformal-latitude formula
`t·√(1+σ(t)²) − σ(t)·√(1+t²)` applied to `t` gives `t1 = t′`. -/
theorem newton_target (t e t1 : ℝ) :
    grid2geo_ftn t e t1 t = 0 ↔
      t * Real.sqrt (1 + grid2geo_sigma t e ^ 2) - grid2geo_sigma t e * Real.sqrt (1 + t ^ 2) = t1 := by
  unfold grid2geo_ftn
  simp only [sqrt_def, pown_def]
  exact sub_eq_zero

/-- C02.3 `newton_step`: the loop body maps `(itercount, t, diff)` to
`(itercount + 1, t′, |t′ − t|)` with `t′ = t − ftn/f1tn` (that the body of the generated loop is
`newtonBody` is `grid2geo_spec`). -/
theorem newton_step (ell : Ellipsoid) (t1 k t d : ℝ) :
    newtonBody ell t1 (k, t, d) =
      (k + 1,
       t - grid2geo_ftn t ell.ecc1 t1 t / grid2geo_f1tn t ell.ecc1 ell.ecc1sq t,
       |(t - grid2geo_ftn t ell.ecc1 t1 t / grid2geo_f1tn t ell.ecc1 ell.ecc1sq t) - t|) := rfl

/-- A fixed point of the Newton map (where `f1tn ≠ 0`) is exactly a solution of the forward
equation: in exact arithmetic the iteration can only stop at the exact inverse. -/
theorem newton_fixed_point (ell : Ellipsoid) (t1 t : ℝ)
    (hd : grid2geo_f1tn t ell.ecc1 ell.ecc1sq t ≠ 0) :
    newtonMap ell t1 t = t ↔
      t * Real.sqrt (1 + grid2geo_sigma t ell.ecc1 ^ 2)
        - grid2geo_sigma t ell.ecc1 * Real.sqrt (1 + t ^ 2) = t1 := by
  rw [← newton_target]
  unfold newtonMap
  constructor
  · intro h
    have : grid2geo_ftn t ell.ecc1 t1 t / grid2geo_f1tn t ell.ecc1 ell.ecc1sq t = 0 := by linarith
    rcases div_eq_zero_iff.mp this with h0 | h0
    · exact h0
    · exact absurd h0 hd
  · intro h; rw [h, zero_div, sub_zero]

theorem dec_1_15 : dec 1 15 = 1 / 10 ^ 15 := by simp [dec]

theorem newtonCond_eq_true (s : ℝ × ℝ × ℝ) :
    newtonCond s = true ↔ (s.2.2 > 1 / 10 ^ 15 ∧ s.1 < 100) := by
  unfold newtonCond; rw [decide_eq_true_iff, dec_1_15]

/-- C02.3 `newton_exit`.  If `grid2geo` returns a value then the inputs were valid and the loop
made `n` Newton steps from `t′` with `1 ≤ n ≤ 100`, every earlier step moved `t` by more than
10⁻¹⁵, and on exit `¬(diff > 1e-15 ∧ itercount < 100)`: the last step moved `t` by at most 10⁻¹⁵ or
`n = 100`.  The value returned is assembled from `t = N^[n] t′`. -/
theorem newton_exit (zone east north : ℝ) (h : String) (ell : Ellipsoid) (prj : Projection)
    (r : ℝ × ℝ × ℝ × ℝ) (hr : grid2geo zone east north h ell prj = .ok r) :
    Valid zone east north h prj ∧
    ∃ n : ℕ, 1 ≤ n ∧ n ≤ 100 ∧
      whileLoop 200 newtonCond
          (newtonBody ell (tPrime (xi1Of east north h ell prj) (eta1Of east north h ell prj)))
          (0, tPrime (xi1Of east north h ell prj) (eta1Of east north h ell prj), 1)
        = some ((n : ℝ),
            (newtonMap ell (tPrime (xi1Of east north h ell prj) (eta1Of east north h ell prj)))^[n]
              (tPrime (xi1Of east north h ell prj) (eta1Of east north h ell prj)),
            |(newtonMap ell (tPrime (xi1Of east north h ell prj) (eta1Of east north h ell prj)))^[n]
              (tPrime (xi1Of east north h ell prj) (eta1Of east north h ell prj))
             - (newtonMap ell (tPrime (xi1Of east north h ell prj) (eta1Of east north h ell prj)))^[n-1]
              (tPrime (xi1Of east north h ell prj) (eta1Of east north h ell prj))|) ∧
      ¬ (|(newtonMap ell (tPrime (xi1Of east north h ell prj) (eta1Of east north h ell prj)))^[n]
              (tPrime (xi1Of east north h ell prj) (eta1Of east north h ell prj))
             - (newtonMap ell (tPrime (xi1Of east north h ell prj) (eta1Of east north h ell prj)))^[n-1]
              (tPrime (xi1Of east north h ell prj) (eta1Of east north h ell prj))| > 1 / 10 ^ 15
          ∧ (n : ℝ) < 100) ∧
      (∀ j : ℕ, 1 ≤ j → j < n →
        |(newtonMap ell (tPrime (xi1Of east north h ell prj) (eta1Of east north h ell prj)))^[j]
              (tPrime (xi1Of east north h ell prj) (eta1Of east north h ell prj))
             - (newtonMap ell (tPrime (xi1Of east north h ell prj) (eta1Of east north h ell prj)))^[j-1]
              (tPrime (xi1Of east north h ell prj) (eta1Of east north h ell prj))| > 1 / 10 ^ 15) ∧
      r = output (hemisign h) ell prj (xi1Of east north h ell prj) (eta1Of east north h ell prj)
            (centralMeridian zone prj)
            ((newtonMap ell (tPrime (xi1Of east north h ell prj) (eta1Of east north h ell prj)))^[n]
              (tPrime (xi1Of east north h ell prj) (eta1Of east north h ell prj))) := by
  have hv : Valid zone east north h prj :=
    ((validation_logic zone east north h ell prj).2.1).mp ⟨r, hr⟩
  refine ⟨hv, ?_⟩
  obtain ⟨s, hW, hs⟩ := valid_returns zone east north h ell prj hv
  rw [hs] at hr
  have hr' := Except.ok.inj hr
  generalize tPrime (xi1Of east north h ell prj) (eta1Of east north h ell prj) = t1 at *
  obtain ⟨hcs, k, hk, hsk, hall⟩ := whileLoop_some_strong _ _ _ _ _ hW
  obtain ⟨i1, i2, i3⟩ := iter_newtonBody ell t1 k (0, t1, 1)
  rw [← hsk] at i1 i2 i3
  simp only [zero_add] at i1
  have hc0 : newtonCond ((0 : ℝ), t1, (1 : ℝ)) = true := by
    rw [newtonCond_eq_true]; norm_num
  have hk1 : 1 ≤ k := by
    rcases Nat.eq_zero_or_pos k with h0 | h0
    · subst h0
      have : s = (0, t1, 1) := hsk
      rw [this, hc0] at hcs; cases hcs
    · exact h0
  have hk100 : k ≤ 100 := by
    by_contra hgt
    have h100 := hall 100 (by omega)
    rw [newtonCond_eq_true] at h100
    have := (iter_newtonBody ell t1 100 (0, t1, 1)).1
    rw [this] at h100
    norm_num at h100
  have hs_eq : s = ((k : ℝ), (newtonMap ell t1)^[k] t1,
      |(newtonMap ell t1)^[k] t1 - (newtonMap ell t1)^[k - 1] t1|) :=
    Prod.ext i1 (Prod.ext i2 (i3 hk1))
  refine ⟨k, hk1, hk100, ?_, ?_, ?_, ?_⟩
  · rw [hW, hs_eq]
  · have : ¬ (newtonCond s = true) := by rw [hcs]; simp
    rw [newtonCond_eq_true, hs_eq] at this
    exact this
  · intro j hj1 hjk
    have hj := hall j hjk
    rw [newtonCond_eq_true] at hj
    have := (iter_newtonBody ell t1 j (0, t1, 1)).2.2 hj1
    rw [this] at hj
    exact hj.1
  · rw [← hr', hs_eq]

/-! ## C02.8 the psf / grid-convergence call site -/

/-- `psf_call_site`: the four returned values, with `psfandgridconv` called on the computed
(ξ′, η′, lat, long, cm, χ = atan t′) and the call's OWN `ell` and `prj`; the unsigned latitude is
passed to it and `hemisign` is applied afterwards. -/
theorem psf_call_site (zone east north : ℝ) (h : String) (ell : Ellipsoid) (prj : Projection)
    (lat lon psf conv : ℝ)
    (hr : grid2geo zone east north h ell prj = .ok (lat, lon, psf, conv)) :
    ∃ t : ℝ,
      lat = hemisign h * pround 11 (degrees (Real.arctan t)) ∧
      lon = pround 11 (centralMeridian zone prj + degrees (Real.arctan
              (Real.sinh (eta1Of east north h ell prj) / Real.cos (xi1Of east north h ell prj)))) ∧
      psf = pround 8 (psfandgridconv (xi1Of east north h ell prj) (eta1Of east north h ell prj)
              (degrees (Real.arctan t))
              (centralMeridian zone prj + degrees (Real.arctan
                (Real.sinh (eta1Of east north h ell prj) / Real.cos (xi1Of east north h ell prj))))
              (centralMeridian zone prj)
              (Real.arctan (tPrime (xi1Of east north h ell prj) (eta1Of east north h ell prj)))
              ell prj).1 ∧
      conv = hemisign h * (psfandgridconv (xi1Of east north h ell prj) (eta1Of east north h ell prj)
              (degrees (Real.arctan t))
              (centralMeridian zone prj + degrees (Real.arctan
                (Real.sinh (eta1Of east north h ell prj) / Real.cos (xi1Of east north h ell prj))))
              (centralMeridian zone prj)
              (Real.arctan (tPrime (xi1Of east north h ell prj) (eta1Of east north h ell prj)))
              ell prj).2 := by
  obtain ⟨_, n, _, _, _, _, _, hout⟩ := newton_exit zone east north h ell prj _ hr
  refine ⟨(newtonMap ell (tPrime (xi1Of east north h ell prj) (eta1Of east north h ell prj)))^[n]
              (tPrime (xi1Of east north h ell prj) (eta1Of east north h ell prj)), ?_⟩
  unfold output at hout
  simp only [Prod.mk.injEq] at hout
  exact hout

/-! ## C02.7 rounding -/

theorem round11_close (x : ℝ) : |pround 11 x - x| ≤ 5 / 10 ^ 12 := by
  have := pround_close 11 x
  norm_num at this ⊢
  exact this

theorem round8_close (x : ℝ) : |pround 8 x - x| ≤ 5 / 10 ^ 9 := by
  have := pround_close 8 x
  norm_num at this ⊢
  exact this

/-! ## C02.4 hemisphere mirror -/

theorem south_ne_north : ¬ (("south" : String) = "north") := by decide

/-- both branches produce the same `y`: north `−(N/k₀)`, south `((FN − N) − FN)/k₀` -/
theorem mirror_y (N : ℝ) (hN hS : String) (prj : Projection)
    (hn : strLower hN = "north") (hs : strLower hS = "south") :
    gridY N hN prj = gridY (prj.falsenorth - N) hS prj := by
  unfold gridY
  rw [if_pos hn, if_neg (by rw [hs]; exact south_ne_north)]
  ring

theorem hemisign_north (h : String) (hn : strLower h = "north") : hemisign h = -1 := by
  unfold hemisign; rw [if_pos hn]
theorem hemisign_south (h : String) (hs : strLower h = "south") : hemisign h = 1 := by
  unfold hemisign; rw [if_neg (by rw [hs]; exact south_ne_north)]

/-- C02.4 `hemisphere_mirror`, any projection (false northing `FN = prj.falsenorth`), any ellipsoid:
if the southern call at northing `FN − N` returns `(lat, lon, psf, conv)` and `0 ≤ N ≤ 10⁷`, then the
northern call at northing `N` returns `(−lat, lon, psf, −conv)`.
(No `cmscale ≠ 0` / `rect_radius ≠ 0` guard is needed: the two calls evaluate literally the same
expressions after `mirror_y`; for `cmscale = 0` Python raises `ZeroDivisionError` in both calls,
which the real-number model does not represent.) -/
theorem hemisphere_mirror (zone east N : ℝ) (hN hS : String) (ell : Ellipsoid) (prj : Projection)
    (hn : strLower hN = "north") (hs : strLower hS = "south")
    (hN0 : 0 ≤ N) (hN1 : N ≤ 10000000) (lat lon psf conv : ℝ)
    (hsouth : grid2geo zone east (prj.falsenorth - N) hS ell prj = .ok (lat, lon, psf, conv)) :
    grid2geo zone east N hN ell prj = .ok (-lat, lon, psf, -conv) := by
  have hvS : Valid zone east (prj.falsenorth - N) hS prj :=
    ((validation_logic _ _ _ _ ell _).2.1).mp ⟨_, hsouth⟩
  have hvN : Valid zone east N hN prj := ⟨hvS.zone, hvS.east, ⟨hN0, hN1⟩, Or.inl hn⟩
  have hx : xi1Of east N hN ell prj = xi1Of east (prj.falsenorth - N) hS ell prj := by
    unfold xi1Of; rw [mirror_y N hN hS prj hn hs]
  have he : eta1Of east N hN ell prj = eta1Of east (prj.falsenorth - N) hS ell prj := by
    unfold eta1Of; rw [mirror_y N hN hS prj hn hs]
  obtain ⟨s, hW, hsS⟩ := valid_returns _ _ _ _ ell _ hvS
  obtain ⟨s', hW', hsN⟩ := valid_returns _ _ _ _ ell _ hvN
  rw [hx, he] at hW' hsN
  have hss : s' = s := Option.some.inj (hW'.symm.trans hW)
  subst hss
  rw [hsS] at hsouth
  have hout := Except.ok.inj hsouth
  rw [hsN, hemisign_north hN hn]
  rw [hemisign_south hS hs] at hout
  unfold output at hout ⊢
  simp only [Prod.mk.injEq] at hout
  obtain ⟨h1, h2, h3, h4⟩ := hout
  rw [← h1, ← h2, ← h3, ← h4]
  simp only [neg_mul, one_mul]

/-- the converse direction: from the northern call to the southern one -/
theorem hemisphere_mirror_rev (zone east N : ℝ) (hN hS : String) (ell : Ellipsoid) (prj : Projection)
    (hn : strLower hN = "north") (hs : strLower hS = "south")
    (hS0 : 0 ≤ prj.falsenorth - N) (hS1 : prj.falsenorth - N ≤ 10000000) (lat lon psf conv : ℝ)
    (hnorth : grid2geo zone east N hN ell prj = .ok (lat, lon, psf, conv)) :
    grid2geo zone east (prj.falsenorth - N) hS ell prj = .ok (-lat, lon, psf, -conv) := by
  have hvN : Valid zone east N hN prj := ((validation_logic _ _ _ _ ell _).2.1).mp ⟨_, hnorth⟩
  have hvS : Valid zone east (prj.falsenorth - N) hS prj :=
    ⟨hvN.zone, hvN.east, ⟨hS0, hS1⟩, Or.inr hs⟩
  obtain ⟨⟨a, b, c, d⟩, hr⟩ := ((validation_logic _ _ _ _ ell _).2.1).mpr hvS
  have h2 := hemisphere_mirror zone east N hN hS ell prj hn hs hvN.north.1 hvN.north.2 a b c d hr
  rw [h2] at hnorth
  have h3 := Except.ok.inj hnorth
  simp only [Prod.mk.injEq] at h3
  obtain ⟨e1, e2, e3, e4⟩ := h3
  rw [hr, ← e1, ← e2, ← e3, ← e4, neg_neg, neg_neg]

/-- the UTM instance with the literal strings: `grid2geo z E (10⁷ − N) "south"` versus
`grid2geo z E N "north"` -/
theorem hemisphere_mirror_utm (zone east N : ℝ) (ell : Ellipsoid)
    (hN0 : 0 ≤ N) (hN1 : N ≤ 10000000) (lat lon psf conv : ℝ)
    (hsouth : grid2geo zone east (10000000 - N) "south" ell utm = .ok (lat, lon, psf, conv)) :
    grid2geo zone east N "north" ell utm = .ok (-lat, lon, psf, -conv) :=
  hemisphere_mirror zone east N "north" "south" ell utm strLower_examples.2.2.2.2.2.1
    strLower_examples.2.2.1 hN0 hN1 lat lon psf conv hsouth

/-! ## C02.2 Gauss–Schreiber inverse -/

/-- C02.2 `gs_inverse`, general form (`T` stands for `tan χ`): the inverse's
`t′ = sin ξ′/√(sinh²η′ + cos²ξ′)` (`tPrime`) and `atan(sinh η′/cos ξ′)` applied to the forward's
`ξ′ = atan(T/cos ω)`, `η′ = arsinh(sin ω/√(T² + cos²ω))` (written with `log` exactly as geo2grid
does) return `T` and `ω`. -/
theorem gs_inverse_T (T ω : ℝ) (hω1 : -(Real.pi / 2) < ω) (hω2 : ω < Real.pi / 2) :
    let xi1 := Real.arctan (T / Real.cos ω)
    let u := Real.sin ω / Real.sqrt (T ^ 2 + Real.cos ω ^ 2)
    let eta1 := Real.log (u + Real.sqrt (1 + u ^ 2))
    tPrime xi1 eta1 = T ∧ Real.arctan (Real.sinh eta1 / Real.cos xi1) = ω := by
  intro xi1 u eta1
  unfold tPrime
  have hc : 0 < Real.cos ω := Real.cos_pos_of_mem_Ioo ⟨hω1, hω2⟩
  have hD2 : 0 < T ^ 2 + Real.cos ω ^ 2 := by positivity
  set D := Real.sqrt (T ^ 2 + Real.cos ω ^ 2) with hD
  have hDpos : 0 < D := Real.sqrt_pos.mpr hD2
  have hDsq : D ^ 2 = T ^ 2 + Real.cos ω ^ 2 := Real.sq_sqrt hD2.le
  have hsinh : Real.sinh eta1 = u := by
    have : eta1 = Real.arsinh u := rfl
    rw [this, Real.sinh_arsinh]
  have h1 : Real.sqrt (1 + (T / Real.cos ω) ^ 2) = D / Real.cos ω := by
    rw [show 1 + (T / Real.cos ω) ^ 2 = (D / Real.cos ω) ^ 2 by
      rw [div_pow, div_pow, hDsq]; field_simp; ring]
    exact Real.sqrt_sq (div_pos hDpos hc).le
  have hcos : Real.cos xi1 = Real.cos ω / D := by
    simp only [xi1, Real.cos_arctan, h1]; field_simp
  have hsin : Real.sin xi1 = T / D := by
    simp only [xi1, Real.sin_arctan, h1]; field_simp
  have hsc : Real.sin ω ^ 2 + Real.cos ω ^ 2 = 1 := Real.sin_sq_add_cos_sq ω
  have hden : Real.sqrt (Real.sinh eta1 ^ 2 + Real.cos xi1 ^ 2) = 1 / D := by
    rw [hsinh, hcos, show (u ^ 2 + (Real.cos ω / D) ^ 2) = (1 / D) ^ 2 by
      simp only [u]; rw [div_pow, div_pow, div_pow, one_pow, ← add_div, hsc]]
    exact Real.sqrt_sq (by positivity)
  constructor
  · rw [hsin, hden]; field_simp
  · rw [hsinh, hcos]
    have : u / (Real.cos ω / D) = Real.tan ω := by
      rw [Real.tan_eq_sin_div_cos]
      show (Real.sin ω / D) / (Real.cos ω / D) = Real.sin ω / Real.cos ω
      field_simp
    rw [this]
    exact Real.arctan_tan hω1 hω2

/-- C02.2 `gs_inverse`: for |χ| < π/2, |ω| < π/2 the inverse step recovers `tan χ`, the conformal
latitude χ itself (`conf_lat = atan t′`) and the longitude difference ω exactly. -/
theorem gs_inverse (χ ω : ℝ) (hχ : |χ| < Real.pi / 2) (hω : |ω| < Real.pi / 2) :
    let xi1 := Real.arctan (Real.tan χ / Real.cos ω)
    let u := Real.sin ω / Real.sqrt (Real.tan χ ^ 2 + Real.cos ω ^ 2)
    let eta1 := Real.log (u + Real.sqrt (1 + u ^ 2))
    tPrime xi1 eta1 = Real.tan χ ∧ Real.arctan (tPrime xi1 eta1) = χ ∧
      Real.arctan (Real.sinh eta1 / Real.cos xi1) = ω := by
  intro xi1 u eta1
  obtain ⟨a, b⟩ := gs_inverse_T (Real.tan χ) ω (abs_lt.mp hω).1 (abs_lt.mp hω).2
  refine ⟨a, ?_, b⟩
  rw [a]
  exact Real.arctan_tan (abs_lt.mp hχ).1 (abs_lt.mp hχ).2

/-! ## C02.1 the β coefficients against the independent Krüger–Karney table -/

/-- deviation of the code's `b2` from −β₁(n): the innermost Horner factor of `b2` lacks a `* nval`,
which moves only the n⁶, n⁷, n⁸ coefficients -/
noncomputable def delta1 (n : ℝ) : ℝ :=
  n ^ 6 * (1 - n) * (37845269 - 31777436 * n) / 270950400

theorem delta1_expand (n : ℝ) :
    delta1 n = (37845269 * n ^ 6 - 69622705 * n ^ 7 + 31777436 * n ^ 8) / 270950400 := by
  unfold delta1; ring

/-- C02.1 `beta_vs_ref`: the code ADDS `b_j·sin 2jξ…`, Karney's convention subtracts `β_j`; so
`b_j = −β_j`.  Exact for j = 2..8; for j = 1 exact up to the explicit `delta1`. -/
theorem beta_vs_ref (ell : Ellipsoid) :
    (beta_coeff ell).1 = -Spec.Krueger.beta 1 ell.n + delta1 ell.n ∧
    (beta_coeff ell).2.1 = -Spec.Krueger.beta 2 ell.n ∧
    (beta_coeff ell).2.2.1 = -Spec.Krueger.beta 3 ell.n ∧
    (beta_coeff ell).2.2.2.1 = -Spec.Krueger.beta 4 ell.n ∧
    (beta_coeff ell).2.2.2.2.1 = -Spec.Krueger.beta 5 ell.n ∧
    (beta_coeff ell).2.2.2.2.2.1 = -Spec.Krueger.beta 6 ell.n ∧
    (beta_coeff ell).2.2.2.2.2.2.1 = -Spec.Krueger.beta 7 ell.n ∧
    (beta_coeff ell).2.2.2.2.2.2.2 = -Spec.Krueger.beta 8 ell.n := by
  unfold beta_coeff
  simp only [Spec.Krueger.beta, delta1, pown_def]
  refine ⟨?_, ?_, ?_, ?_, ?_, ?_, ?_, ?_⟩ <;> ring

theorem delta1_bounds (n : ℝ) (h0 : 0 ≤ n) (h1 : n ≤ 1 / 150) :
    |delta1 n| ≤ (7 / 50) * n ^ 6 ∧ (137 / 1000) * n ^ 6 ≤ delta1 n := by
  have hn6 : 0 ≤ n ^ 6 := by positivity
  have e : delta1 n = n ^ 6 * ((1 - n) * (37845269 - 31777436 * n) / 270950400) := by
    unfold delta1; ring
  have hu : (1 - n) * (37845269 - 31777436 * n) / 270950400 ≤ 7 / 50 := by
    rw [div_le_iff₀ (by norm_num)]
    nlinarith
  have hl : 137 / 1000 ≤ (1 - n) * (37845269 - 31777436 * n) / 270950400 := by
    rw [le_div_iff₀ (by norm_num)]
    nlinarith
  have hpos : 0 ≤ delta1 n := by rw [e]; apply mul_nonneg hn6; linarith
  refine ⟨?_, ?_⟩
  · rw [abs_of_nonneg hpos, e, mul_comm (7 / 50 : ℝ)]
    exact mul_le_mul_of_nonneg_left hu hn6
  · rw [e, mul_comm (137 / 1000 : ℝ)]
    exact mul_le_mul_of_nonneg_left hl hn6

/-- `delta1_small`: |δ₁(n)| ≤ 0.14·n⁶ (hence ≤ n⁶/5) on 0 ≤ n ≤ 1/150 -/
theorem delta1_small (n : ℝ) (h0 : 0 ≤ n) (h1 : n ≤ 1 / 150) : |delta1 n| ≤ (7 / 50) * n ^ 6 :=
  (delta1_bounds n h0 h1).1

/-- the deviation is genuinely there: δ₁(n) ≥ 0.137·n⁶ > 0 for 0 < n ≤ 1/150, so the code's first
coefficient is NOT −β₁ -/
theorem delta1_ne_zero (n : ℝ) (h0 : 0 < n) (h1 : n ≤ 1 / 150) : delta1 n ≠ 0 := by
  have := (delta1_bounds n h0.le h1).2
  have hn6 : 0 < n ^ 6 := by positivity
  intro h; rw [h] at this; nlinarith

/-- the shipped GRS80 ellipsoid is inside the range of `delta1_small` -/
example : 0 ≤ grs80.n ∧ grs80.n ≤ 1 / 150 := by
  have : grs80.n = (1 / dec 298257222101 9) / (2 - 1 / dec 298257222101 9) := rfl
  rw [this]
  simp only [dec]
  norm_num

/-! ## C02.3 (stretch) `f1tn` is the derivative of the Newton target: the loop is Newton's method -/

theorem dec_5_1 : dec 5 1 = 1 / 2 := by simp [dec]; norm_num

theorem abs_lt_sqrt_one_add_sq (x : ℝ) : |x| < Real.sqrt (1 + x ^ 2) := by
  rw [← Real.sqrt_sq (abs_nonneg x), sq_abs]
  exact Real.sqrt_lt_sqrt (sq_nonneg x) (by linarith)

theorem hasDerivAt_sqrt_one_add_sq (t : ℝ) :
    HasDerivAt (fun x : ℝ => Real.sqrt (1 + x ^ 2)) (t / Real.sqrt (1 + t ^ 2)) t := by
  have hpos : (0 : ℝ) < 1 + t ^ 2 := by positivity
  have h := (((hasDerivAt_id t).fun_pow 2).const_add 1).sqrt (ne_of_gt hpos)
  refine h.congr_deriv ?_
  simp only [id]
  field_simp
  ring

/-- |e·t/√(1+t²)| < 1 for 0 ≤ e < 1: the `log` in `sigma` has a positive argument -/
theorem sigx_abs_lt_one (e t : ℝ) (he0 : 0 ≤ e) (he1 : e < 1) :
    |e * t / Real.sqrt (1 + t ^ 2)| < 1 := by
  have hpos : (0 : ℝ) < 1 + t ^ 2 := by positivity
  have hw : 0 < Real.sqrt (1 + t ^ 2) := Real.sqrt_pos.mpr hpos
  have ht := abs_lt_sqrt_one_add_sq t
  rw [abs_div, abs_mul, abs_of_nonneg he0, abs_of_pos hw, div_lt_one hw]
  calc e * |t| ≤ 1 * |t| := mul_le_mul_of_nonneg_right he1.le (abs_nonneg t)
    _ = |t| := one_mul _
    _ < _ := ht

/-- dσ/dt = √(1+σ²)·e² / (√(1+t²)·(1+(1−e²)t²)) -/
theorem sigma_hasDerivAt (e t : ℝ) (he0 : 0 ≤ e) (he1 : e < 1) :
    HasDerivAt (fun x => grid2geo_sigma x e)
      (Real.sqrt (1 + grid2geo_sigma t e ^ 2) * e ^ 2
        / (Real.sqrt (1 + t ^ 2) * (1 + (1 - e ^ 2) * t ^ 2))) t := by
  have hpos : (0 : ℝ) < 1 + t ^ 2 := by positivity
  set w := Real.sqrt (1 + t ^ 2) with hwdef
  have hw : 0 < w := Real.sqrt_pos.mpr hpos
  have hw2 : w ^ 2 = 1 + t ^ 2 := Real.sq_sqrt hpos.le
  have hwd := hasDerivAt_sqrt_one_add_sq t
  rw [← hwdef] at hwd
  have hu : HasDerivAt (fun x : ℝ => e * x / Real.sqrt (1 + x ^ 2)) (e / w ^ 3) t := by
    have h := ((hasDerivAt_id t).const_mul e).fun_div hwd (ne_of_gt hw)
    rw [← hwdef] at h
    refine h.congr_deriv ?_
    simp only [id]
    field_simp
    linear_combination e * hw2
  have hult := sigx_abs_lt_one e t he0 he1
  rw [← hwdef] at hult
  have hu1 : 0 < 1 - e * t / w := by linarith [(abs_lt.mp hult).2]
  have hu2 : 0 < 1 + e * t / w := by linarith [(abs_lt.mp hult).1]
  have hD : 1 + (1 - e ^ 2) * t ^ 2 = w ^ 2 - e ^ 2 * t ^ 2 := by rw [hw2]; ring
  have hDpos : 0 < w ^ 2 - e ^ 2 * t ^ 2 := by
    rw [← hD]
    have : 0 ≤ (1 - e ^ 2) * t ^ 2 := mul_nonneg (by nlinarith) (sq_nonneg t)
    linarith
  have hL := ((hu.const_add 1).fun_div (hu.const_sub 1) (ne_of_gt hu1)).log
    (ne_of_gt (div_pos hu2 hu1))
  have hS := (hL.const_mul (e * dec 5 1)).sinh
  rw [← hwdef] at hS
  have hcosh : Real.sqrt (1 + grid2geo_sigma t e ^ 2)
      = Real.cosh ((e * dec 5 1) * Real.log ((1 + e * t / w) / (1 - e * t / w))) := by
    unfold grid2geo_sigma
    simp only [sinh_def, log_def, sqrt_def, pown_def]
    rw [← hwdef, add_comm, ← Real.cosh_sq, Real.sqrt_sq (Real.cosh_pos _).le]
  rw [hcosh, hD]
  refine HasDerivAt.congr_deriv (f' := _) hS ?_
  rw [dec_5_1]
  have hwne : w ≠ 0 := ne_of_gt hw
  have h1ne : 1 - e * t / w ≠ 0 := ne_of_gt hu1
  have h2ne : 1 + e * t / w ≠ 0 := ne_of_gt hu2
  have hDne : w ^ 2 - e ^ 2 * t ^ 2 ≠ 0 := ne_of_gt hDpos
  have h1ne' : w - e * t ≠ 0 := by
    intro h0; apply h1ne; field_simp; linarith
  have h2ne' : w + e * t ≠ 0 := by
    intro h0; apply h2ne; field_simp; linarith
  field_simp
  ring

/-- C02 stretch `f1tn_is_derivative`: for 0 ≤ e < 1 (and `ecc1sq = e²`), the value the call site
computes, `f1tn(t) = grid2geo_f1tn t e ecc1sq t`, is the derivative at `t` of
`x ↦ x·√(1+σ(x)²) − σ(x)·√(1+x²)`. -/
theorem f1tn_is_derivative (e esq t : ℝ) (he0 : 0 ≤ e) (he1 : e < 1) (hsq : esq = e ^ 2) :
    HasDerivAt
      (fun x => x * Real.sqrt (1 + grid2geo_sigma x e ^ 2)
        - grid2geo_sigma x e * Real.sqrt (1 + x ^ 2))
      (grid2geo_f1tn t e esq t) t := by
  subst hsq
  have hσ := sigma_hasDerivAt e t he0 he1
  have hwd := hasDerivAt_sqrt_one_add_sq t
  have hpos : (0 : ℝ) < 1 + t ^ 2 := by positivity
  have hCpos : (0 : ℝ) < 1 + grid2geo_sigma t e ^ 2 := by positivity
  have hC := ((hσ.fun_pow 2).const_add 1).sqrt (ne_of_gt hCpos)
  have hF := ((hasDerivAt_id t).fun_mul hC).fun_sub (hσ.fun_mul hwd)
  unfold grid2geo_f1tn
  simp only [sqrt_def, pown_def, pyfloat]
  refine hF.congr_deriv ?_
  simp only [id]
  generalize grid2geo_sigma t e = S at *
  set w := Real.sqrt (1 + t ^ 2) with hwdef
  set C := Real.sqrt (1 + S ^ 2) with hCdef
  have hw : 0 < w := Real.sqrt_pos.mpr hpos
  have hw2 : w ^ 2 = 1 + t ^ 2 := Real.sq_sqrt hpos.le
  have hC0 : 0 < C := Real.sqrt_pos.mpr hCpos
  have hDpos : 0 < 1 + (1 - e ^ 2) * t ^ 2 := by
    have : 0 ≤ (1 - e ^ 2) * t ^ 2 := mul_nonneg (by nlinarith) (sq_nonneg t)
    linarith
  set D := 1 + (1 - e ^ 2) * t ^ 2 with hDdef
  have hwne := ne_of_gt hw
  have hCne := ne_of_gt hC0
  have hDne := ne_of_gt hDpos
  field_simp
  linear_combination 2 * (C * w - t * S) * hDdef - 2 * (C * w - t * S) * (1 - e ^ 2) * hw2

/-- the same, phrased for the function whose zero is sought: `t ↦ ftn(t)` as the call site
evaluates it (`grid2geo_ftn t e t1 t`) has derivative `f1tn(t)`; so
`newtonMap = t − f(t)/f′(t)` is Newton's method. -/
theorem ftn_hasDerivAt (e esq t1 t : ℝ) (he0 : 0 ≤ e) (he1 : e < 1) (hsq : esq = e ^ 2) :
    HasDerivAt (fun x => grid2geo_ftn x e t1 x) (grid2geo_f1tn t e esq t) t := by
  have h := (f1tn_is_derivative e esq t he0 he1 hsq).sub_const t1
  exact h

/-- `f1tn > 0` whenever `ecc1sq < 1` (so the Newton quotient is a genuine division) -/
theorem f1tn_pos (tn e esq t : ℝ) (h : esq < 1) : 0 < grid2geo_f1tn tn e esq t := by
  unfold grid2geo_f1tn
  simp only [sqrt_def, pown_def, pyfloat]
  generalize grid2geo_sigma tn e = S
  have h1 := abs_lt_sqrt_one_add_sq S
  have h2 := abs_lt_sqrt_one_add_sq tn
  have h3 : S * tn < Real.sqrt (1 + S ^ 2) * Real.sqrt (1 + tn ^ 2) :=
    calc S * tn ≤ |S * tn| := le_abs_self _
      _ = |S| * |tn| := abs_mul _ _
      _ < _ := mul_lt_mul'' h1 h2 (abs_nonneg _) (abs_nonneg _)
  have hw : 0 < Real.sqrt (1 + t ^ 2) := Real.sqrt_pos.mpr (by positivity)
  have hD : 0 < 1 + (1 - esq) * t ^ 2 := by
    have : 0 ≤ (1 - esq) * t ^ 2 := mul_nonneg (by linarith) (sq_nonneg t)
    linarith
  exact mul_pos (by linarith) (div_pos (mul_pos (by linarith) hw) hD)

/-- unconditional form of `newton_fixed_point` for `ecc1sq < 1` -/
theorem newton_fixed_point' (ell : Ellipsoid) (t1 t : ℝ) (h : ell.ecc1sq < 1) :
    newtonMap ell t1 t = t ↔
      t * Real.sqrt (1 + grid2geo_sigma t ell.ecc1 ^ 2)
        - grid2geo_sigma t ell.ecc1 * Real.sqrt (1 + t ^ 2) = t1 :=
  newton_fixed_point ell t1 t (ne_of_gt (f1tn_pos t ell.ecc1 ell.ecc1sq t h))

/-- the hypotheses of `f1tn_is_derivative` hold for the shipped GRS80 ellipsoid -/
example : 0 ≤ grs80.ecc1 ∧ grs80.ecc1 < 1 ∧ grs80.ecc1sq = grs80.ecc1 ^ 2 := by
  have h1 : grs80.ecc1 = Real.sqrt grs80.ecc1sq := rfl
  have h2 : grs80.ecc1sq = (1 / dec 298257222101 9) * (2 - 1 / dec 298257222101 9) := rfl
  have h3 : 0 ≤ grs80.ecc1sq ∧ grs80.ecc1sq < 1 := by
    rw [h2]; simp only [dec]; norm_num
  rw [h1]
  refine ⟨Real.sqrt_nonneg _, ?_, (Real.sq_sqrt h3.1).symm⟩
  rw [Real.sqrt_lt' (by norm_num)]
  simpa using h3.2

/-! ## Satisfiability of the hypotheses -/

theorem trunc_natCast (k : ℕ) : trunc (k : ℝ) = k := by
  unfold trunc
  rw [if_neg (not_lt.mpr (Nat.cast_nonneg k))]
  simp

/-- a valid UTM input (zone 55, mixed-case hemisphere) -/
example : Valid 55 500000 6000000 "South" utm := by
  refine ⟨?_, by norm_num, by norm_num, Or.inr strLower_examples.1⟩
  unfold ZoneOK
  rw [if_neg (by decide)]
  have : trunc (55 : ℝ) = 55 := by exact_mod_cast trunc_natCast 55
  rw [this]; norm_num

/-- an invalid hemisphere string is rejected -/
example (ell : Ellipsoid) : grid2geo 55 500000 6000000 "East" ell utm = .error .ValueError := by
  apply invalid_raises
  intro hv
  rcases hv.hemi with h | h
  · exact strLower_east.1 h
  · exact strLower_east.2 h

/-- the mirror pair of `hemisphere_mirror_utm` is simultaneously valid -/
example : Valid 55 500000 (10000000 - 3000000) "south" utm ∧ Valid 55 500000 3000000 "north" utm := by
  have hz : ZoneOK utm 55 := by
    unfold ZoneOK
    rw [if_neg (by decide)]
    have : trunc (55 : ℝ) = 55 := by exact_mod_cast trunc_natCast 55
    rw [this]; norm_num
  exact ⟨⟨hz, by norm_num, by norm_num, Or.inr strLower_examples.2.2.1⟩,
    ⟨hz, by norm_num, by norm_num, Or.inl strLower_examples.2.2.2.2.2.1⟩⟩

end GeodeVerif.C02

#print axioms GeodeVerif.C02.grid2geo_spec
#print axioms GeodeVerif.C02.validation_logic
#print axioms GeodeVerif.C02.beta_vs_ref
#print axioms GeodeVerif.C02.delta1_small
#print axioms GeodeVerif.C02.gs_inverse
#print axioms GeodeVerif.C02.newton_target
#print axioms GeodeVerif.C02.newton_step
#print axioms GeodeVerif.C02.newton_exit
#print axioms GeodeVerif.C02.f1tn_is_derivative
#print axioms GeodeVerif.C02.hemisphere_mirror
#print axioms GeodeVerif.C02.hemisphere_mirror_utm
#print axioms GeodeVerif.C02.round11_close
#print axioms GeodeVerif.C02.psf_call_site
#print axioms GeodeVerif.C02.strLower_examples
