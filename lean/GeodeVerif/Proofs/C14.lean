import GeodeVerif.GenR.Geodesy
import GeodeVerif.Lemmas.PyRSimp
import Mathlib.Tactic.Ring
import Mathlib.Tactic.Linarith
import Mathlib.Tactic.FieldSimp
import Mathlib.Tactic.NormNum
import Mathlib.Tactic.Positivity
/-!
# C14 — grid-based geodesic computations: theorems about the regenerated
`GenR.Geodesy.vincinv_utm`, `vincdir_utm`, `line_sf`, `rho`, `nu` (and `GenR.Survey.radiations`)

`Spec.gridInverse`, `Spec.lineSf`, `Spec.gridDirectWith` spell out which callee gets which argument.
The `*_def` / `*_structure` theorems show (by `rfl`) that the generated functions ARE those
compositions; the remaining theorems are algebra about the Deakin line-scale-factor expression and
the exit condition of the `while` loop.
-/
namespace GeodeVerif.C14
open Py PyR GenR.Constants GenR.Convert GenR.Survey GenR.Geodesy

noncomputable section

/-- what `grid2geo` returns: latitude, longitude, point scale factor, grid convergence -/
abbrev Geo := ℝ × ℝ × ℝ × ℝ
/-- what `geo2grid` returns: hemisphere, zone, easting, northing, point scale factor, convergence -/
abbrev Grid := String × ℝ × ℝ × ℝ × ℝ × ℝ

/-! ## Small `Except` lemmas -/

theorem bind_ok_iff {α β : Type} (x : Except PyErr α) (f : α → Except PyErr β) (b : β) :
    Except.bind x f = .ok b ↔ ∃ a, x = .ok a ∧ f a = .ok b := by
  cases x with
  | error e => simp [Except.bind]
  | ok a => simp [Except.bind]

/-! ## The specification terms -/
namespace Spec

/-- Deakin (2010) eq. 13 with `Q = E₁² + E₁E₂ + E₂²`:
`k₀·(1 + Q/(6r²)·(1 + Q/(36r²)))` -/
def lsfCore (k0 rsq E1 E2 : ℝ) : ℝ :=
  k0 * (1 + ((E1 ^ 2 + E1 * E2 + E2 ^ 2) / (6 * rsq)) * (1 + (E1 ^ 2 + E1 * E2 + E2 ^ 2) / (36 * rsq)))

/-- `r² = ρ(φm)·ν(φm)·k₀²` with the radii of the ellipsoid ARGUMENT -/
def rSq (latm : ℝ) (ell : Ellipsoid) (prj : Projection) : ℝ :=
  rho latm ell * nu latm ell * prj.cmscale ^ 2

/-- the line scale factor for two stations already expressed in the same zone: both latitudes from
`grid2geo` with the call's hemisphere and ellipsoid (projection: the default `utm`, as in the code),
`Eᵢ = eastᵢ − falseeast` and `k₀` from the `projection` argument -/
def lineSfSameZone (zone1 east1 north1 zone2 east2 north2 : ℝ) (hemi : String) (ell : Ellipsoid)
    (prj : Projection) : Except PyErr ℝ := do
  let g1 ← grid2geo zone1 east1 north1 hemi ell utm
  let g2 ← grid2geo zone2 east2 north2 hemi ell utm
  pure (lsfCore prj.cmscale (rSq ((g1.1 + g2.1) / 2) ell prj)
    (east1 - prj.falseeast) (east2 - prj.falseeast))

/-- station 2 re-projected into `zone1`: `grid2geo` with the call's hemisphere/ellipsoid, then
`geo2grid` of its latitude/longitude with zone argument `zone1` and the call's ellipsoid; the new
(zone, easting, northing) are components 2–4 of the `geo2grid` result -/
def reproject (zone1 zone2 east2 north2 : ℝ) (hemi : String) (ell : Ellipsoid) :
    Except PyErr (ℝ × ℝ × ℝ) := do
  let g ← grid2geo zone2 east2 north2 hemi ell utm
  let t ← geo2grid g.1 g.2.1 zone1 ell utm
  pure (t.2.1, t.2.2.1, t.2.2.2.1)

/-- `line_sf`: re-project station 2 iff the zones differ, then the same-zone formula -/
def lineSf (zone1 east1 north1 zone2 east2 north2 : ℝ) (hemi : String) (ell : Ellipsoid)
    (prj : Projection) : Except PyErr ℝ := do
  let s2 ← (if ¬ (zone1 = zone2) then reproject zone1 zone2 east2 north2 hemi ell
            else pure (zone2, east2, north2))
  lineSfSameZone zone1 east1 north1 s2.1 s2.2.1 s2.2.2 hemi ell prj

/-- `vincinv_utm`: both points converted with the call's hemisphere and ellipsoid, `vincinv` on the
geographic positions, distance scaled by the line scale factor, convergence (4th component of each
`grid2geo` result) added to each azimuth. Returns `(grid_dist, grid1to2, grid2to1, lsf)`. -/
def gridInverse (zone1 east1 north1 zone2 east2 north2 : ℝ) (hemi : String) (ell : Ellipsoid) :
    Except PyErr (ℝ × ℝ × ℝ × ℝ) := do
  let pt1 ← grid2geo zone1 east1 north1 hemi ell utm
  let pt2 ← grid2geo zone2 east2 north2 hemi ell utm
  let inv := vincinv pt1.1 pt1.2.1 pt2.1 pt2.2.1 ell
  let lsf ← line_sf zone1 east1 north1 zone2 east2 north2 hemi ell utm
  pure (inv.1 * lsf, inv.2.1 + pt1.2.2.2, inv.2.2 + pt2.2.2.2, lsf)

/-- loop state of `vincdir_utm`: `(az2to1, zone2, east2, north2, gridconv2, lsf, lsf_diff)` -/
abbrev St := ℝ × ℝ × ℝ × ℝ × ℝ × ℝ × ℝ
def St.az2to1 (s : St) : ℝ := s.1
def St.zone (s : St) : ℝ := s.2.1
def St.east (s : St) : ℝ := s.2.2.1
def St.north (s : St) : ℝ := s.2.2.2.1
def St.conv (s : St) : ℝ := s.2.2.2.2.1
def St.lsf (s : St) : ℝ := s.2.2.2.2.2.1
def St.diff (s : St) : ℝ := s.2.2.2.2.2.2

/-- `while lsf_diff > 1e-9` -/
def dirCond (s : St) : Bool := decide (s.diff > dec 1 9)

/-- one pass of the loop: `vincdir` from point 1 with the ellipsoidal distance `grid_dist / lsf`,
`geo2grid` of the result IN ZONE 1 with the call's ellipsoid, `line_sf` point 1 → new point 2 with the
call's hemisphere and ellipsoid, `lsf_diff = |lsf_previous − lsf|` -/
def dirBody (zone1 east1 north1 grid_dist : ℝ) (hemi : String) (ell : Ellipsoid)
    (lat1 lon1 az1to2 : ℝ) (s : St) : Except PyErr St := do
  let v := vincdir lat1 lon1 az1to2 (grid_dist / s.lsf) ell
  let g ← geo2grid v.1 v.2.1 zone1 ell utm
  let lsf ← line_sf zone1 east1 north1 g.2.1 g.2.2.1 g.2.2.2.1 hemi ell utm
  pure (v.2.2, g.2.1, g.2.2.1, g.2.2.2.1, g.2.2.2.2.2, lsf, |s.lsf - lsf|)

/-- `vincdir_utm`, with the hemisphere/ellipsoid used for the INITIAL scale-factor estimate made
explicit as `hemi0`, `ell0` (the code passes neither, i.e. uses the defaults `"south"`, `grs80`).
Returns `(zone2, east2, north2, grid2to1, lsf)`. -/
def gridDirectWith (hemi0 : String) (ell0 : Ellipsoid)
    (zone1 east1 north1 grid1to2 grid_dist : ℝ) (hemi : String) (ell : Ellipsoid) :
    Except PyErr (ℝ × ℝ × ℝ × ℝ × ℝ) := do
  let g1 ← grid2geo zone1 east1 north1 hemi ell utm
  let az1to2 := grid1to2 - g1.2.2.2
  let r := radiations east1 north1 grid1to2 grid_dist 0 1
  let lsf0 ← line_sf zone1 east1 north1 zone1 r.1 r.2 hemi0 ell0 utm
  let s ← whileLoopE 100 dirCond (dirBody zone1 east1 north1 grid_dist hemi ell g1.1 g1.2.1 az1to2)
            ((0 : ℝ), zone1, r.1, r.2, (0 : ℝ), lsf0, (1 : ℝ))
  let g2 ← grid2geo s.zone s.east s.north hemi ell utm
  pure (s.zone, s.east, s.north, s.az2to1 + g2.2.2.2, s.lsf)

end Spec
open Spec

/-! ## 1. `vincinv_utm` -/

theorem vincinv_utm_def (zone1 east1 north1 zone2 east2 north2 : ℝ) (hemi : String)
    (ell : Ellipsoid) :
    vincinv_utm zone1 east1 north1 zone2 east2 north2 hemi ell
      = gridInverse zone1 east1 north1 zone2 east2 north2 hemi ell := rfl

/-- explicit successful form: `grid_dist = ell_dist · lsf`, `grid1to2 = az12 + conv(pt1)`,
`grid2to1 = az21 + conv(pt2)`, each convergence being the 4th component of that point's own
`grid2geo` result (its own zone) -/
theorem vincinv_utm_ok (zone1 east1 north1 zone2 east2 north2 : ℝ) (hemi : String)
    (ell : Ellipsoid) (pt1 pt2 : Geo) (lsf : ℝ)
    (h1 : grid2geo zone1 east1 north1 hemi ell utm = .ok pt1)
    (h2 : grid2geo zone2 east2 north2 hemi ell utm = .ok pt2)
    (hl : line_sf zone1 east1 north1 zone2 east2 north2 hemi ell utm = .ok lsf) :
    vincinv_utm zone1 east1 north1 zone2 east2 north2 hemi ell
      = .ok ((vincinv pt1.1 pt1.2.1 pt2.1 pt2.2.1 ell).1 * lsf,
             (vincinv pt1.1 pt1.2.1 pt2.1 pt2.2.1 ell).2.1 + pt1.2.2.2,
             (vincinv pt1.1 pt1.2.1 pt2.1 pt2.2.1 ell).2.2 + pt2.2.2.2, lsf) := by
  rw [vincinv_utm_def]
  unfold gridInverse
  rw [h1, h2]
  show (do
      let lsf ← line_sf zone1 east1 north1 zone2 east2 north2 hemi ell utm
      (pure ((vincinv pt1.1 pt1.2.1 pt2.1 pt2.2.1 ell).1 * lsf,
        (vincinv pt1.1 pt1.2.1 pt2.1 pt2.2.1 ell).2.1 + pt1.2.2.2,
        (vincinv pt1.1 pt1.2.1 pt2.1 pt2.2.1 ell).2.2 + pt2.2.2.2, lsf)
        : Except PyErr (ℝ × ℝ × ℝ × ℝ))) = _
  rw [hl]
  rfl

/-! ## 2./3. `line_sf`, `rho`, `nu` -/

theorem line_sf_def (zone1 east1 north1 zone2 east2 north2 : ℝ) (hemi : String) (ell : Ellipsoid)
    (prj : Projection) :
    line_sf zone1 east1 north1 zone2 east2 north2 hemi ell prj
      = lineSf zone1 east1 north1 zone2 east2 north2 hemi ell prj := by
  unfold line_sf lineSf
  by_cases hz : zone1 = zone2
  · rw [if_neg (not_not.2 hz), if_neg (not_not.2 hz)]; rfl
  · rw [if_pos hz, if_pos hz]; rfl

theorem bind_congr' {α β : Type} {x x' : Except PyErr α} {f g : α → Except PyErr β}
    (hx : x = x') (h : ∀ a, f a = g a) : Except.bind x f = Except.bind x' g := by
  subst hx
  cases x with
  | error e => rfl
  | ok a => exact h a

theorem vincdir_utm_structure (zone1 east1 north1 grid1to2 grid_dist : ℝ) (hemi : String)
    (ell : Ellipsoid) :
    vincdir_utm zone1 east1 north1 grid1to2 grid_dist hemi ell
      = gridDirectWith "south" grs80 zone1 east1 north1 grid1to2 grid_dist hemi ell := by
  unfold vincdir_utm gridDirectWith
  refine bind_congr' rfl ?_
  rintro ⟨lat1, lon1, psf1, gc1⟩
  refine bind_congr' rfl ?_
  intro lsf0
  refine bind_congr' rfl ?_
  rintro ⟨a, b, c, d, e, f, g⟩
  rfl

/-! ### `line_sf`: same-zone formula, cross-zone re-projection -/

/-- **line_sf_formula** (zones equal — no re-projection): with `g₁`, `g₂` the `grid2geo` results of the
two stations (call's hemisphere and ellipsoid), the result is
`k₀·(1 + k1·(1 + k2))`, `k1 = Q/(6r²)`, `k2 = Q/(36r²)`, `Q = E₁²+E₁E₂+E₂²`,
`r² = ρ(φm)ν(φm)k₀²`, `φm = (φ₁+φ₂)/2`, `Eᵢ = eastᵢ − falseeast`. -/
theorem line_sf_formula (zone east1 north1 east2 north2 : ℝ) (hemi : String) (ell : Ellipsoid)
    (prj : Projection) (g1 g2 : Geo)
    (h1 : grid2geo zone east1 north1 hemi ell utm = .ok g1)
    (h2 : grid2geo zone east2 north2 hemi ell utm = .ok g2) :
    line_sf zone east1 north1 zone east2 north2 hemi ell prj
      = .ok (prj.cmscale *
          (1 + ((east1 - prj.falseeast) ^ 2 + (east1 - prj.falseeast) * (east2 - prj.falseeast)
                  + (east2 - prj.falseeast) ^ 2)
                / (6 * (rho ((g1.1 + g2.1) / 2) ell * nu ((g1.1 + g2.1) / 2) ell * prj.cmscale ^ 2))
              * (1 + ((east1 - prj.falseeast) ^ 2 + (east1 - prj.falseeast) * (east2 - prj.falseeast)
                  + (east2 - prj.falseeast) ^ 2)
                / (36 * (rho ((g1.1 + g2.1) / 2) ell * nu ((g1.1 + g2.1) / 2) ell
                    * prj.cmscale ^ 2))))) := by
  rw [line_sf_def]
  unfold lineSf
  rw [if_neg (not_not.2 rfl)]
  show lineSfSameZone zone east1 north1 zone east2 north2 hemi ell prj = _
  unfold lineSfSameZone
  rw [h1, h2]
  rfl

/-- the same, in terms of `Spec.lsfCore` / `Spec.rSq`; and the error behaviour: the first failing
`grid2geo` (station 1 first) is what is raised -/
theorem line_sf_same_zone (zone east1 north1 east2 north2 : ℝ) (hemi : String) (ell : Ellipsoid)
    (prj : Projection) :
    line_sf zone east1 north1 zone east2 north2 hemi ell prj
      = lineSfSameZone zone east1 north1 zone east2 north2 hemi ell prj := by
  rw [line_sf_def]
  unfold lineSf
  rw [if_neg (not_not.2 rfl)]
  rfl

/-- **cross_zone**: for `zone1 ≠ zone2` station 2 is first re-projected into zone 1
(`grid2geo zone2 east2 north2 hemisphere ell utm`, then `geo2grid lat lon zone1 ell utm`), and the
zone/easting/northing that `geo2grid` returns replace station 2's in the same-zone formula. -/
theorem cross_zone (zone1 east1 north1 zone2 east2 north2 : ℝ) (hemi : String) (ell : Ellipsoid)
    (prj : Projection) (hz : zone1 ≠ zone2) :
    line_sf zone1 east1 north1 zone2 east2 north2 hemi ell prj
      = (do
          let g ← grid2geo zone2 east2 north2 hemi ell utm
          let t ← geo2grid g.1 g.2.1 zone1 ell utm
          lineSfSameZone zone1 east1 north1 t.2.1 t.2.2.1 t.2.2.2.1 hemi ell prj) := by
  rw [line_sf_def]
  unfold lineSf
  rw [if_pos hz]
  unfold reproject
  cases grid2geo zone2 east2 north2 hemi ell utm with
  | error e => rfl
  | ok g =>
    show (do
        let s2 ← (do
          let t ← geo2grid g.1 g.2.1 zone1 ell utm
          (pure (t.2.1, t.2.2.1, t.2.2.2.1) : Except PyErr (ℝ × ℝ × ℝ)))
        lineSfSameZone zone1 east1 north1 s2.1 s2.2.1 s2.2.2 hemi ell prj)
      = (do
        let t ← geo2grid g.1 g.2.1 zone1 ell utm
        lineSfSameZone zone1 east1 north1 t.2.1 t.2.2.1 t.2.2.2.1 hemi ell prj)
    cases geo2grid g.1 g.2.1 zone1 ell utm with
    | error e => rfl
    | ok t => rfl

/-- explicit successful form of `cross_zone` -/
theorem cross_zone_ok (zone1 east1 north1 zone2 east2 north2 : ℝ) (hemi : String) (ell : Ellipsoid)
    (prj : Projection) (hz : zone1 ≠ zone2) (g : Geo) (t : Grid)
    (hg : grid2geo zone2 east2 north2 hemi ell utm = .ok g)
    (ht : geo2grid g.1 g.2.1 zone1 ell utm = .ok t) :
    line_sf zone1 east1 north1 zone2 east2 north2 hemi ell prj
      = lineSfSameZone zone1 east1 north1 t.2.1 t.2.2.1 t.2.2.2.1 hemi ell prj := by
  rw [cross_zone _ _ _ _ _ _ _ _ _ hz, hg]
  show (do
      let t ← geo2grid g.1 g.2.1 zone1 ell utm
      lineSfSameZone zone1 east1 north1 t.2.1 t.2.2.1 t.2.2.2.1 hemi ell prj) = _
  rw [ht]
  rfl

/-! ### the algebraic core -/

theorem lsfCore_symmetric (k0 rsq E1 E2 : ℝ) : lsfCore k0 rsq E1 E2 = lsfCore k0 rsq E2 E1 := by
  unfold lsfCore; ring

theorem Q_nonneg (E1 E2 : ℝ) : 0 ≤ E1 ^ 2 + E1 * E2 + E2 ^ 2 := by
  nlinarith [sq_nonneg (E1 + E2), sq_nonneg E1, sq_nonneg E2]

/-- for `r² > 0` and `k₀ ≥ 0` the line scale factor is at least `k₀` -/
theorem lsfCore_ge_k0 (k0 rsq E1 E2 : ℝ) (hk : 0 ≤ k0) (hr : 0 < rsq) :
    k0 ≤ lsfCore k0 rsq E1 E2 := by
  unfold lsfCore
  have hQ := Q_nonneg E1 E2
  have h1 : 0 ≤ (E1 ^ 2 + E1 * E2 + E2 ^ 2) / (6 * rsq) := by positivity
  have h2 : 0 ≤ (E1 ^ 2 + E1 * E2 + E2 ^ 2) / (36 * rsq) := by positivity
  have h3 : 0 ≤ (E1 ^ 2 + E1 * E2 + E2 ^ 2) / (6 * rsq)
      * (1 + (E1 ^ 2 + E1 * E2 + E2 ^ 2) / (36 * rsq)) := by positivity
  nlinarith [mul_nonneg hk h3]

/-- for `E₁ = E₂ = E` the expression is the point-scale series `k₀(1 + E²/(2r²) + E⁴/(24r⁴))` -/
theorem lsfCore_point (k0 rsq E : ℝ) (hr : rsq ≠ 0) :
    lsfCore k0 rsq E E = k0 * (1 + E ^ 2 / (2 * rsq) + E ^ 4 / (24 * rsq ^ 2)) := by
  unfold lsfCore
  field_simp
  ring

/-- the second-order point scale factor at easting `E` from the central meridian, `k₀(1 + E²/(2r²))` -/
def psf2 (k0 rsq E : ℝ) : ℝ := k0 * (1 + E ^ 2 / (2 * rsq))

/-- **Simpson**: the line scale factor is Simpson's mean `(k₁ + 4k_m + k₂)/6` of the second-order point scale factors at the two
ends and at the mean easting, plus the fourth-order term `k₀Q²/(216 r⁴)`, `Q = E₁² + E₁E₂ + E₂²` -/
theorem lsfCore_simpson (k0 rsq E1 E2 : ℝ) (hr : rsq ≠ 0) :
    lsfCore k0 rsq E1 E2 =
      (psf2 k0 rsq E1 + 4 * psf2 k0 rsq ((E1 + E2) / 2) + psf2 k0 rsq E2) / 6
        + k0 * (E1 ^ 2 + E1 * E2 + E2 ^ 2) ^ 2 / (216 * rsq ^ 2) := by
  unfold lsfCore psf2
  field_simp
  ring

theorem Q_le (E1 E2 M : ℝ) (h1 : |E1| ≤ M) (h2 : |E2| ≤ M) : E1 ^ 2 + E1 * E2 + E2 ^ 2 ≤ 3 * M ^ 2 := by
  have hM : 0 ≤ M := le_trans (abs_nonneg _) h1
  have a1 : E1 ^ 2 ≤ M ^ 2 := by rw [← sq_abs E1]; exact pow_le_pow_left₀ (abs_nonneg _) h1 2
  have a2 : E2 ^ 2 ≤ M ^ 2 := by rw [← sq_abs E2]; exact pow_le_pow_left₀ (abs_nonneg _) h2 2
  have a3 : E1 * E2 ≤ M ^ 2 := by nlinarith [sq_nonneg (E1 - E2)]
  linarith

/-- … so it lies between that Simpson mean and the mean plus `k₀M⁴/(24 r⁴)` when both eastings are within `M` of the central
meridian (`M = 340 km`, `r ≈ 6.37·10⁶ m`: below 4·10⁻⁷, the size of the tolerance the property states) -/
theorem lsfCore_between_simpson (k0 rsq E1 E2 M : ℝ) (hk : 0 ≤ k0) (hr : 0 < rsq) (h1 : |E1| ≤ M) (h2 : |E2| ≤ M) :
    (psf2 k0 rsq E1 + 4 * psf2 k0 rsq ((E1 + E2) / 2) + psf2 k0 rsq E2) / 6 ≤ lsfCore k0 rsq E1 E2 ∧
    lsfCore k0 rsq E1 E2 ≤
      (psf2 k0 rsq E1 + 4 * psf2 k0 rsq ((E1 + E2) / 2) + psf2 k0 rsq E2) / 6 + k0 * M ^ 4 / (24 * rsq ^ 2) := by
  rw [lsfCore_simpson k0 rsq E1 E2 hr.ne']
  have hQ0 := Q_nonneg E1 E2
  have hQ := Q_le E1 E2 M h1 h2
  have hsq : (E1 ^ 2 + E1 * E2 + E2 ^ 2) ^ 2 ≤ (3 * M ^ 2) ^ 2 := pow_le_pow_left₀ hQ0 hQ 2
  have hr2 : 0 < 216 * rsq ^ 2 := by positivity
  constructor
  · have : 0 ≤ k0 * (E1 ^ 2 + E1 * E2 + E2 ^ 2) ^ 2 / (216 * rsq ^ 2) := by positivity
    linarith
  · have h3 : k0 * (E1 ^ 2 + E1 * E2 + E2 ^ 2) ^ 2 / (216 * rsq ^ 2) ≤ k0 * (3 * M ^ 2) ^ 2 / (216 * rsq ^ 2) := by
      apply div_le_div_of_nonneg_right _ hr2.le
      exact mul_le_mul_of_nonneg_left hsq hk
    have h4 : k0 * (3 * M ^ 2) ^ 2 / (216 * rsq ^ 2) = k0 * M ^ 4 / (24 * rsq ^ 2) := by
      field_simp; ring
    linarith

/-! ### the same facts about the generated `line_sf` -/

/-- `line_sf_formula` in terms of `lsfCore`/`rSq` -/
theorem line_sf_ok (zone east1 north1 east2 north2 : ℝ) (hemi : String) (ell : Ellipsoid)
    (prj : Projection) (g1 g2 : Geo)
    (h1 : grid2geo zone east1 north1 hemi ell utm = .ok g1)
    (h2 : grid2geo zone east2 north2 hemi ell utm = .ok g2) :
    line_sf zone east1 north1 zone east2 north2 hemi ell prj
      = .ok (lsfCore prj.cmscale (rSq ((g1.1 + g2.1) / 2) ell prj)
          (east1 - prj.falseeast) (east2 - prj.falseeast)) :=
  line_sf_formula zone east1 north1 east2 north2 hemi ell prj g1 g2 h1 h2

/-- **line_sf_symmetric**: exchanging the two stations does not change the line scale factor -/
theorem line_sf_symmetric (zone east1 north1 east2 north2 : ℝ) (hemi : String) (ell : Ellipsoid)
    (prj : Projection) (g1 g2 : Geo)
    (h1 : grid2geo zone east1 north1 hemi ell utm = .ok g1)
    (h2 : grid2geo zone east2 north2 hemi ell utm = .ok g2) :
    line_sf zone east1 north1 zone east2 north2 hemi ell prj
      = line_sf zone east2 north2 zone east1 north1 hemi ell prj := by
  rw [line_sf_ok _ _ _ _ _ _ _ _ g1 g2 h1 h2, line_sf_ok _ _ _ _ _ _ _ _ g2 g1 h2 h1,
    lsfCore_symmetric, add_comm g1.1 g2.1]

/-! ### `rho`, `nu` -/

/-- **rho_nu_def**: `ρ = a(1−e²)/(1−e² sin²φ)^{3/2}` (a real power, the code's `** 1.5`) and
`ν = a/√(1−e² sin²φ)`, with `a`, `e²` the fields of the ellipsoid ARGUMENT and `φ` in degrees -/
theorem rho_nu_def (lat : ℝ) (ell : Ellipsoid) :
    rho lat ell = ell.semimaj * (1 - ell.ecc1sq)
        / (1 - ell.ecc1sq * Real.sin (lat * (Real.pi / 180)) ^ 2) ^ ((3 : ℝ) / 2)
    ∧ nu lat ell = ell.semimaj / Real.sqrt (1 - ell.ecc1sq * Real.sin (lat * (Real.pi / 180)) ^ 2) := by
  have h : (dec 15 1 : ℝ) = 3 / 2 := by simp only [dec_def]; norm_num
  refine ⟨?_, rfl⟩
  unfold rho
  rw [h]

theorem w_pos (lat : ℝ) (ell : Ellipsoid) (he0 : 0 ≤ ell.ecc1sq) (he1 : ell.ecc1sq < 1) :
    0 < 1 - ell.ecc1sq * Real.sin (lat * (Real.pi / 180)) ^ 2 := by
  have hs : Real.sin (lat * (Real.pi / 180)) ^ 2 ≤ 1 := Real.sin_sq_le_one _
  have hs0 : 0 ≤ Real.sin (lat * (Real.pi / 180)) ^ 2 := sq_nonneg _
  nlinarith

theorem rho_pos (lat : ℝ) (ell : Ellipsoid) (ha : 0 < ell.semimaj) (he0 : 0 ≤ ell.ecc1sq)
    (he1 : ell.ecc1sq < 1) : 0 < rho lat ell := by
  rw [(rho_nu_def lat ell).1]
  have hw := w_pos lat ell he0 he1
  have : 0 < (1 - ell.ecc1sq * Real.sin (lat * (Real.pi / 180)) ^ 2) ^ ((3 : ℝ) / 2) :=
    Real.rpow_pos_of_pos hw _
  have h1 : 0 < 1 - ell.ecc1sq := by linarith
  positivity

theorem nu_pos (lat : ℝ) (ell : Ellipsoid) (ha : 0 < ell.semimaj) (he0 : 0 ≤ ell.ecc1sq)
    (he1 : ell.ecc1sq < 1) : 0 < nu lat ell := by
  rw [(rho_nu_def lat ell).2]
  have hw := w_pos lat ell he0 he1
  have : 0 < Real.sqrt (1 - ell.ecc1sq * Real.sin (lat * (Real.pi / 180)) ^ 2) :=
    Real.sqrt_pos.2 hw
  positivity

/-- `r² > 0` for a proper ellipsoid and a non-zero central scale factor -/
theorem rSq_pos (lat : ℝ) (ell : Ellipsoid) (prj : Projection) (ha : 0 < ell.semimaj)
    (he0 : 0 ≤ ell.ecc1sq) (he1 : ell.ecc1sq < 1) (hk : prj.cmscale ≠ 0) :
    0 < rSq lat ell prj := by
  unfold rSq
  have h1 := rho_pos lat ell ha he0 he1
  have h2 := nu_pos lat ell ha he0 he1
  positivity

/-- the hypotheses hold for the library's default ellipsoid and projection -/
theorem grs80_utm_ok :
    0 < grs80.semimaj ∧ 0 ≤ grs80.ecc1sq ∧ grs80.ecc1sq < 1 ∧ 0 < utm.cmscale := by
  simp only [grs80, utm, Ellipsoid.init, Projection.init, dec, pyfloat]
  norm_num

/-- **line_sf_ge_k0**: the line scale factor is at least the central scale factor -/
theorem line_sf_ge_k0 (zone east1 north1 east2 north2 : ℝ) (hemi : String) (ell : Ellipsoid)
    (prj : Projection) (g1 g2 : Geo)
    (h1 : grid2geo zone east1 north1 hemi ell utm = .ok g1)
    (h2 : grid2geo zone east2 north2 hemi ell utm = .ok g2)
    (ha : 0 < ell.semimaj) (he0 : 0 ≤ ell.ecc1sq) (he1 : ell.ecc1sq < 1) (hk : 0 < prj.cmscale) :
    ∃ k, line_sf zone east1 north1 zone east2 north2 hemi ell prj = .ok k ∧ prj.cmscale ≤ k :=
  ⟨_, line_sf_ok _ _ _ _ _ _ _ _ g1 g2 h1 h2,
    lsfCore_ge_k0 _ _ _ _ hk.le (rSq_pos _ ell prj ha he0 he1 hk.ne')⟩

/-- **line_sf_simpson**: the generated `line_sf` returns Simpson's mean of the second-order point scale factors (ends and mean
easting, radius at the mean latitude) plus a non-negative fourth-order term bounded by `k₀M⁴/(24 r⁴)` -/
theorem line_sf_simpson (zone east1 north1 east2 north2 M : ℝ) (hemi : String) (ell : Ellipsoid)
    (prj : Projection) (g1 g2 : Geo)
    (h1 : grid2geo zone east1 north1 hemi ell utm = .ok g1)
    (h2 : grid2geo zone east2 north2 hemi ell utm = .ok g2)
    (ha : 0 < ell.semimaj) (he0 : 0 ≤ ell.ecc1sq) (he1 : ell.ecc1sq < 1) (hk : 0 < prj.cmscale)
    (hE1 : |east1 - prj.falseeast| ≤ M) (hE2 : |east2 - prj.falseeast| ≤ M) :
    ∃ k, line_sf zone east1 north1 zone east2 north2 hemi ell prj = .ok k ∧
      let r2 := rSq ((g1.1 + g2.1) / 2) ell prj
      let simpson := (psf2 prj.cmscale r2 (east1 - prj.falseeast)
        + 4 * psf2 prj.cmscale r2 (((east1 - prj.falseeast) + (east2 - prj.falseeast)) / 2)
        + psf2 prj.cmscale r2 (east2 - prj.falseeast)) / 6
      simpson ≤ k ∧ k ≤ simpson + prj.cmscale * M ^ 4 / (24 * r2 ^ 2) :=
  ⟨_, line_sf_ok _ _ _ _ _ _ _ _ g1 g2 h1 h2,
    lsfCore_between_simpson _ _ _ _ M hk.le (rSq_pos _ ell prj ha he0 he1 hk.ne') hE1 hE2⟩

/-- **line_sf_point**: for equal eastings (`E₁ = E₂ = E`) the line scale factor is the point-scale
series `k₀(1 + E²/(2r²) + E⁴/(24r⁴))` at the mean latitude -/
theorem line_sf_point (zone east north1 north2 : ℝ) (hemi : String) (ell : Ellipsoid)
    (prj : Projection) (g1 g2 : Geo)
    (h1 : grid2geo zone east north1 hemi ell utm = .ok g1)
    (h2 : grid2geo zone east north2 hemi ell utm = .ok g2)
    (hr : rSq ((g1.1 + g2.1) / 2) ell prj ≠ 0) :
    line_sf zone east north1 zone east north2 hemi ell prj
      = .ok (prj.cmscale * (1 + (east - prj.falseeast) ^ 2 / (2 * rSq ((g1.1 + g2.1) / 2) ell prj)
          + (east - prj.falseeast) ^ 4 / (24 * rSq ((g1.1 + g2.1) / 2) ell prj ^ 2))) := by
  rw [line_sf_ok _ _ _ _ _ _ _ _ g1 g2 h1 h2, lsfCore_point _ _ _ hr]

example : ∃ (ell : Ellipsoid) (prj : Projection), 0 < ell.semimaj ∧ 0 ≤ ell.ecc1sq ∧
    ell.ecc1sq < 1 ∧ 0 < prj.cmscale := ⟨grs80, utm, grs80_utm_ok⟩

/-- `radiations` with rotation `0` and scale `1`, as used for the first estimate of point 2 -/
theorem radiations_def (east1 north1 brg dist rot psf : ℝ) :
    radiations east1 north1 brg dist rot psf
      = (east1 + dist * psf * Real.sin ((brg + rot) * (Real.pi / 180)),
         north1 + dist * psf * Real.cos ((brg + rot) * (Real.pi / 180))) := rfl

/-! ## 4. `vincdir_utm`: the loop and its exit -/

/-- `k`-fold iterate of a raising body -/
def iterE {σ : Type} (body : σ → Except PyErr σ) : ℕ → σ → Except PyErr σ
  | 0, s => .ok s
  | k + 1, s => Except.bind (body s) (iterE body k)

theorem iterE_succ_last {σ : Type} (body : σ → Except PyErr σ) :
    ∀ (k : ℕ) (s₀ sp s : σ), iterE body k s₀ = .ok sp → body sp = .ok s →
      iterE body (k + 1) s₀ = .ok s := by
  intro k
  induction k with
  | zero =>
    intro s₀ sp s h hb
    obtain rfl := Except.ok.inj h
    show Except.bind (body s₀) (iterE body 0) = _
    rw [hb]; rfl
  | succ k ih =>
    intro s₀ sp s h hb
    obtain ⟨s', hs', h'⟩ := (bind_ok_iff _ _ _).1 h
    show Except.bind (body s₀) (iterE body (k + 1)) = _
    rw [hs']
    exact ih s' sp s h' hb

/-- normal exit of `whileLoopE`: the condition is false at the final state, which is a `k`-fold
iterate of the body (`k ≤ fuel`) -/
theorem whileLoopE_ok {σ : Type} (cond : σ → Bool) (body : σ → Except PyErr σ) :
    ∀ (fuel : ℕ) (s₀ s : σ), whileLoopE fuel cond body s₀ = .ok s →
      cond s = false ∧ ∃ k, k ≤ fuel ∧ iterE body k s₀ = .ok s := by
  intro fuel
  induction fuel with
  | zero =>
    intro s₀ s h
    simp only [whileLoopE] at h
    split at h
    · cases h
    · rename_i hc
      obtain rfl := Except.ok.inj h
      exact ⟨by simpa using hc, 0, Nat.le_refl 0, rfl⟩
  | succ n ih =>
    intro s₀ s h
    simp only [whileLoopE] at h
    split at h
    · cases hb : body s₀ with
      | error e => rw [hb] at h; cases h
      | ok s' =>
        rw [hb] at h
        obtain ⟨h1, k, hk, hs⟩ := ih s' s h
        refine ⟨h1, k + 1, Nat.succ_le_succ hk, ?_⟩
        show Except.bind (body s₀) (iterE body k) = _
        rw [hb]; exact hs
    · rename_i hc
      obtain rfl := Except.ok.inj h
      exact ⟨by simpa using hc, 0, Nat.zero_le _, rfl⟩

theorem whileLoopE_of_false {σ : Type} (cond : σ → Bool) (body : σ → Except PyErr σ) (fuel : ℕ)
    (s : σ) (hc : cond s = false) : whileLoopE fuel cond body s = .ok s := by
  cases fuel <;> simp [whileLoopE, hc]

/-- if the loop is entered (`cond s₀`) and exits normally, the final state is `body sp` for a state
`sp` reached after `k < fuel` passes at which the condition still held -/
theorem whileLoopE_last {σ : Type} (cond : σ → Bool) (body : σ → Except PyErr σ) :
    ∀ (fuel : ℕ) (s₀ s : σ), cond s₀ = true → whileLoopE fuel cond body s₀ = .ok s →
      ∃ k, k < fuel ∧ ∃ sp, iterE body k s₀ = .ok sp ∧ cond sp = true ∧ body sp = .ok s ∧
        cond s = false := by
  intro fuel
  induction fuel with
  | zero =>
    intro s₀ s hc h
    simp [whileLoopE, hc] at h
  | succ n ih =>
    intro s₀ s hc h
    simp only [whileLoopE, hc, if_true] at h
    cases hb : body s₀ with
    | error e => rw [hb] at h; cases h
    | ok s' =>
      rw [hb] at h
      replace h : whileLoopE n cond body s' = .ok s := h
      cases hc' : cond s' with
      | false =>
        rw [whileLoopE_of_false cond body n s' hc'] at h
        obtain rfl := Except.ok.inj h
        exact ⟨0, Nat.succ_pos n, s₀, rfl, hc, hb, hc'⟩
      | true =>
        obtain ⟨k, hk, sp, h1, h2, h3, h4⟩ := ih s' s hc' h
        refine ⟨k + 1, Nat.succ_lt_succ hk, sp, ?_, h2, h3, h4⟩
        show Except.bind (body s₀) (iterE body k) = _
        rw [hb]; exact h1

/-- the loop is always entered: `lsf_diff` starts at `1 > 1e-9` (so the seeds `0` the model gives
`az2to1` and `gridconv2` are never returned) -/
theorem dirCond_init (a b c d e f : ℝ) : dirCond (a, b, c, d, e, f, (1 : ℝ)) = true := by
  simp only [dirCond, St.diff, dec_def]
  norm_num

theorem dirCond_false_iff (s : St) : dirCond s = false ↔ s.diff ≤ 1 / 10 ^ 9 := by
  simp only [dirCond, dec_def, decide_eq_false_iff_not, not_lt, gt_iff_lt]
  norm_num

/-- one pass of the loop body, spelled out -/
theorem dirBody_ok_iff (zone1 east1 north1 grid_dist : ℝ) (hemi : String) (ell : Ellipsoid)
    (lat1 lon1 az1to2 : ℝ) (sp s : St) :
    dirBody zone1 east1 north1 grid_dist hemi ell lat1 lon1 az1to2 sp = .ok s ↔
    ∃ (gg : Grid) (lsf : ℝ),
      geo2grid (vincdir lat1 lon1 az1to2 (grid_dist / sp.lsf) ell).1
        (vincdir lat1 lon1 az1to2 (grid_dist / sp.lsf) ell).2.1 zone1 ell utm = .ok gg ∧
      line_sf zone1 east1 north1 gg.2.1 gg.2.2.1 gg.2.2.2.1 hemi ell utm = .ok lsf ∧
      s = ((vincdir lat1 lon1 az1to2 (grid_dist / sp.lsf) ell).2.2, gg.2.1, gg.2.2.1, gg.2.2.2.1,
            gg.2.2.2.2.2, lsf, |sp.lsf - lsf|) := by
  unfold dirBody
  constructor
  · intro h
    obtain ⟨gg, h1, h⟩ := (bind_ok_iff _ _ _).1 h
    obtain ⟨lsf, h2, h⟩ := (bind_ok_iff _ _ _).1 h
    exact ⟨gg, lsf, h1, h2, (Except.ok.inj h).symm⟩
  · rintro ⟨gg, lsf, h1, h2, rfl⟩
    refine (bind_ok_iff _ _ _).2 ⟨gg, h1, ?_⟩
    exact (bind_ok_iff _ _ _).2 ⟨lsf, h2, rfl⟩

/-- **vincdir_utm_exit**. On a normal return `r = (zone2, east2, north2, grid2to1, lsf)`:
* point 1 was converted with the call's hemisphere and ellipsoid (`g1`), `az1to2 = grid1to2 − conv₁`;
* the initial estimate `lsf0` is `line_sf` to the plane radiation point with the DEFAULT
  `"south"`/`grs80` (the one call that does not receive the outer arguments);
* the loop ran `k + 1` passes (`k < 100`); `sp` is the state before the last pass, reached by `k`
  passes from the initial state, and the condition still held there;
* the last pass: `v = vincdir(φ₁, λ₁, az1to2, grid_dist / lsf_{k−1})` with the call's ellipsoid,
  `gg = geo2grid(v.lat, v.lon, zone1)` with the call's ellipsoid, `lsf = line_sf(pt1, gg)` with the
  call's hemisphere and ellipsoid, and `|lsf_{k−1} − lsf| ≤ 1e-9`;
* the returned point is `gg`'s zone/easting/northing, the returned scale factor is `lsf`, and
  `grid2to1 = az2to1 + gridconv2` with `az2to1 = v.3` and `gridconv2` the 4th component of
  `grid2geo zone2 east2 north2 hemisphere ell utm`. -/
theorem vincdir_utm_exit (zone1 east1 north1 grid1to2 grid_dist : ℝ) (hemi : String)
    (ell : Ellipsoid) (r : ℝ × ℝ × ℝ × ℝ × ℝ)
    (h : vincdir_utm zone1 east1 north1 grid1to2 grid_dist hemi ell = .ok r) :
    ∃ (g1 : Geo) (lsf0 : ℝ) (k : ℕ) (sp : St) (gg : Grid) (lsf : ℝ) (g2 : Geo),
      grid2geo zone1 east1 north1 hemi ell utm = .ok g1 ∧
      line_sf zone1 east1 north1 zone1
        (radiations east1 north1 grid1to2 grid_dist 0 1).1
        (radiations east1 north1 grid1to2 grid_dist 0 1).2 "south" grs80 utm = .ok lsf0 ∧
      k < 100 ∧
      iterE (dirBody zone1 east1 north1 grid_dist hemi ell g1.1 g1.2.1 (grid1to2 - g1.2.2.2)) k
        ((0 : ℝ), zone1, (radiations east1 north1 grid1to2 grid_dist 0 1).1,
          (radiations east1 north1 grid1to2 grid_dist 0 1).2, (0 : ℝ), lsf0, (1 : ℝ)) = .ok sp ∧
      sp.diff > 1 / 10 ^ 9 ∧
      geo2grid (vincdir g1.1 g1.2.1 (grid1to2 - g1.2.2.2) (grid_dist / sp.lsf) ell).1
        (vincdir g1.1 g1.2.1 (grid1to2 - g1.2.2.2) (grid_dist / sp.lsf) ell).2.1 zone1 ell utm
          = .ok gg ∧
      line_sf zone1 east1 north1 gg.2.1 gg.2.2.1 gg.2.2.2.1 hemi ell utm = .ok lsf ∧
      |sp.lsf - lsf| ≤ 1 / 10 ^ 9 ∧
      grid2geo gg.2.1 gg.2.2.1 gg.2.2.2.1 hemi ell utm = .ok g2 ∧
      r = (gg.2.1, gg.2.2.1, gg.2.2.2.1,
            (vincdir g1.1 g1.2.1 (grid1to2 - g1.2.2.2) (grid_dist / sp.lsf) ell).2.2 + g2.2.2.2,
            lsf) := by
  rw [vincdir_utm_structure] at h
  unfold gridDirectWith at h
  obtain ⟨g1, hg1, h⟩ := (bind_ok_iff _ _ _).1 h
  obtain ⟨lsf0, hl0, h⟩ := (bind_ok_iff _ _ _).1 h
  obtain ⟨s, hloop, h⟩ := (bind_ok_iff _ _ _).1 h
  obtain ⟨g2, hg2, h⟩ := (bind_ok_iff _ _ _).1 h
  obtain ⟨k, hk, sp, hit, hcp, hbody, hcs⟩ :=
    whileLoopE_last _ _ 100 _ s (dirCond_init _ _ _ _ _ _) hloop
  obtain ⟨gg, lsf, hgg, hlsf, rfl⟩ := (dirBody_ok_iff _ _ _ _ _ _ _ _ _ _ _).1 hbody
  refine ⟨g1, lsf0, k, sp, gg, lsf, g2, hg1, hl0, hk, hit, ?_, hgg, hlsf, ?_, hg2, ?_⟩
  · have : dirCond sp ≠ false := by rw [hcp]; exact Bool.noConfusion
    rw [Ne, dirCond_false_iff, not_le] at this
    exact this
  · exact (dirCond_false_iff _).1 hcs
  · exact (Except.ok.inj h).symm

/-- the final state is the `(k+1)`-fold iterate of the body (form of `whileLoopE_ok`) -/
theorem vincdir_utm_loop_state (zone1 east1 north1 grid_dist : ℝ) (hemi : String) (ell : Ellipsoid)
    (lat1 lon1 az1to2 : ℝ) (s₀ s : St)
    (h : whileLoopE 100 dirCond (dirBody zone1 east1 north1 grid_dist hemi ell lat1 lon1 az1to2) s₀
      = .ok s) :
    s.diff ≤ 1 / 10 ^ 9 ∧ ∃ k, k ≤ 100 ∧
      iterE (dirBody zone1 east1 north1 grid_dist hemi ell lat1 lon1 az1to2) k s₀ = .ok s := by
  obtain ⟨h1, h2⟩ := whileLoopE_ok _ _ _ _ _ h
  exact ⟨(dirCond_false_iff _).1 h1, h2⟩

/-! ## 5. Which call receives which hemisphere / ellipsoid -/

/-- **arguments_threaded**.
(1) `vincinv_utm`: both `grid2geo` calls, `vincinv` and `line_sf` receive the outer `hemisphere`
    (where they have one) and `ellipsoid` — `Spec.gridInverse`.
(2) `line_sf`: every `grid2geo`/`geo2grid` call and `rho`, `nu` receive the outer `hemisphere` /
    `ellipsoid`; the projection of those calls is the default `utm`, the `projection` argument only
    supplies `falseeast` and `cmscale` — `Spec.lineSf`.
(3) `vincdir_utm`: the initial `grid2geo`, every call in the loop body (`vincdir`, `geo2grid`,
    `line_sf`) and the final `grid2geo` receive the outer values, EXCEPT the initial scale-factor
    estimate before the loop, which is `line_sf … "south" grs80 utm` whatever the outer arguments are
    — `Spec.gridDirectWith "south" grs80`, in which the two defaults are the first two arguments. -/
theorem arguments_threaded :
    (∀ (zone1 east1 north1 zone2 east2 north2 : ℝ) (hemi : String) (ell : Ellipsoid),
      vincinv_utm zone1 east1 north1 zone2 east2 north2 hemi ell = (do
        let pt1 ← grid2geo zone1 east1 north1 hemi ell utm
        let pt2 ← grid2geo zone2 east2 north2 hemi ell utm
        let inv := vincinv pt1.1 pt1.2.1 pt2.1 pt2.2.1 ell
        let lsf ← line_sf zone1 east1 north1 zone2 east2 north2 hemi ell utm
        pure (inv.1 * lsf, inv.2.1 + pt1.2.2.2, inv.2.2 + pt2.2.2.2, lsf))) ∧
    (∀ (zone1 east1 north1 zone2 east2 north2 : ℝ) (hemi : String) (ell : Ellipsoid)
        (prj : Projection),
      line_sf zone1 east1 north1 zone2 east2 north2 hemi ell prj = (do
        let s2 ← (if ¬ (zone1 = zone2) then (do
                    let g ← grid2geo zone2 east2 north2 hemi ell utm
                    let t ← geo2grid g.1 g.2.1 zone1 ell utm
                    pure (t.2.1, t.2.2.1, t.2.2.2.1))
                  else pure (zone2, east2, north2))
        let g1 ← grid2geo zone1 east1 north1 hemi ell utm
        let g2 ← grid2geo s2.1 s2.2.1 s2.2.2 hemi ell utm
        pure (lsfCore prj.cmscale
          (rho ((g1.1 + g2.1) / 2) ell * nu ((g1.1 + g2.1) / 2) ell * prj.cmscale ^ 2)
          (east1 - prj.falseeast) (s2.2.1 - prj.falseeast)))) ∧
    (∀ (zone1 east1 north1 grid1to2 grid_dist : ℝ) (hemi : String) (ell : Ellipsoid),
      vincdir_utm zone1 east1 north1 grid1to2 grid_dist hemi ell = (do
        let g1 ← grid2geo zone1 east1 north1 hemi ell utm
        let r := radiations east1 north1 grid1to2 grid_dist 0 1
        -- the exception: defaults, not `hemi`/`ell`
        let lsf0 ← line_sf zone1 east1 north1 zone1 r.1 r.2 "south" grs80 utm
        let s ← whileLoopE 100 (fun s : St => decide (s.diff > dec 1 9))
          (fun s : St => do
            let v := vincdir g1.1 g1.2.1 (grid1to2 - g1.2.2.2) (grid_dist / s.lsf) ell
            let g ← geo2grid v.1 v.2.1 zone1 ell utm
            let lsf ← line_sf zone1 east1 north1 g.2.1 g.2.2.1 g.2.2.2.1 hemi ell utm
            pure (v.2.2, g.2.1, g.2.2.1, g.2.2.2.1, g.2.2.2.2.2, lsf, |s.lsf - lsf|))
          ((0 : ℝ), zone1, r.1, r.2, (0 : ℝ), lsf0, (1 : ℝ))
        let g2 ← grid2geo s.zone s.east s.north hemi ell utm
        pure (s.zone, s.east, s.north, s.az2to1 + g2.2.2.2, s.lsf))) := by
  refine ⟨?_, ?_, ?_⟩
  · intros; rw [vincinv_utm_def]; rfl
  · intros; rw [line_sf_def]; rfl
  · intros; rw [vincdir_utm_structure]; rfl

end

/-- **Angle-class arguments.** Every angle parameter of `vincdir_utm` is read by the source only through
`angular_typecheck` (list regenerated by the translator from the current text), so passing an angle object of any of
the five classes is passing its decimal-degree value: the theorems of this file, stated for numbers, cover them. -/
theorem angle_arguments_reduced : GenR.Geodesy.vincdir_utm_angle_params = ["grid1to2"] := rfl

end GeodeVerif.C14

#print axioms GeodeVerif.C14.vincinv_utm_def
#print axioms GeodeVerif.C14.line_sf_formula
#print axioms GeodeVerif.C14.line_sf_symmetric
#print axioms GeodeVerif.C14.line_sf_ge_k0
#print axioms GeodeVerif.C14.line_sf_point
#print axioms GeodeVerif.C14.rho_nu_def
#print axioms GeodeVerif.C14.cross_zone
#print axioms GeodeVerif.C14.vincdir_utm_structure
#print axioms GeodeVerif.C14.whileLoopE_ok
#print axioms GeodeVerif.C14.vincdir_utm_exit
#print axioms GeodeVerif.C14.arguments_threaded
