import GeodeVerif.GenR.Geodesy
import GeodeVerif.Lemmas.PyRSimp
import Mathlib.Tactic.Ring
import Mathlib.Tactic.Linarith
import Mathlib.Tactic.FieldSimp
import Mathlib.Tactic.NormNum
import Mathlib.Tactic.Positivity
/-!
# C14 — grid-based geodesic computations: theorems about the regenerated
`GenR.Geodesy.vincinv_utm`, `vincdir_utm`, `line_sf`, `rho`, `nu` (and `GenR.Survey.radiations`)

`Spec.gridInverse`, `Spec.lineSf`, `Spec.gridDirectWith` spell out which callee gets which argument.
The `*_def` / `*_structure` theorems show (by `rfl`) that the generated functions ARE those
compositions; the remaining theorems are algebra about the Deakin line-scale-factor expression and
the exit condition of the `while` loop.
-/
namespace GeodeVerif.C14
open Py PyR GenR.Constants GenR.Convert GenR.Survey GenR.Geodesy

noncomputable section

/-- what `grid2geo` returns: latitude, longitude, point scale factor, grid convergence -/
abbrev Geo := ℝ × ℝ × ℝ × ℝ
/-- what `geo2grid` returns: hemisphere, zone, easting, northing, point scale factor, convergence -/
abbrev Grid := String × ℝ × ℝ × ℝ × ℝ × ℝ

/-! ## Small `Except` lemmas -/

theorem bind_ok_iff {α β : Type} (x : Except PyErr α) (f : α → Except PyErr β) (b : β) :
    Except.bind x f = .ok b ↔ ∃ a, x = .ok a ∧ f a = .ok b := by
  cases x with
  | error e => simp [Except.bind]
  | ok a => simp [Except.bind]

/-! ## The specification terms -/
namespace Spec

/-- Deakin (2010) eq. 13 with `Q = E₁² + E₁E₂ + E₂²`:
`k₀·(1 + Q/(6r²)·(1 + Q/(36r²)))` -/
def lsfCore (k0 rsq E1 E2 : ℝ) : ℝ :=
  k0 * (1 + ((E1 ^ 2 + E1 * E2 + E2 ^ 2) / (6 * rsq)) * (1 + (E1 ^ 2 + E1 * E2 + E2 ^ 2) / (36 * rsq)))

/-- `r² = ρ(φm)·ν(φm)·k₀²` with the radii of the ellipsoid ARGUMENT -/
def rSq (latm : ℝ) (ell : Ellipsoid) (prj : Projection) : ℝ :=
  rho latm ell * nu latm ell * prj.cmscale ^ 2

/-- the line scale factor for two stations already expressed in the same zone: both latitudes from
`grid2geo` with the call's hemisphere and ellipsoid (projection: the default `utm`, as in the code),
`Eᵢ = eastᵢ − falseeast` and `k₀` from the `projection` argument -/
def lineSfSameZone (zone1 east1 north1 zone2 east2 north2 : ℝ) (hemi : String) (ell : Ellipsoid)
    (prj : Projection) : Except PyErr ℝ := do
  let g1 ← grid2geo zone1 east1 north1 hemi ell utm
  let g2 ← grid2geo zone2 east2 north2 hemi ell utm
  pure (lsfCore prj.cmscale (rSq ((g1.1 + g2.1) / 2) ell prj)
    (east1 - prj.falseeast) (east2 - prj.falseeast))

/-- station 2 re-projected into `zone1`: `grid2geo` with the call's hemisphere/ellipsoid, then
`geo2grid` of its latitude/longitude with zone argument `zone1` and the call's ellipsoid; the new
(zone, easting, northing) are components 2–4 of the `geo2grid` result -/
def reproject (zone1 zone2 east2 north2 : ℝ) (hemi : String) (ell : Ellipsoid) :
    Except PyErr (ℝ × ℝ × ℝ) := do
  let g ← grid2geo zone2 east2 north2 hemi ell utm
  let t ← geo2grid g.1 g.2.1 zone1 ell utm
  pure (t.2.1, t.2.2.1, t.2.2.2.1)

/-- `line_sf`: re-project station 2 iff the zones differ, then the same-zone formula -/
def lineSf (zone1 east1 north1 zone2 east2 north2 : ℝ) (hemi : String) (ell : Ellipsoid)
    (prj : Projection) : Except PyErr ℝ := do
  let s2 ← (if ¬ (zone1 = zone2) then reproject zone1 zone2 east2 north2 hemi ell
            else pure (zone2, east2, north2))
  lineSfSameZone zone1 east1 north1 s2.1 s2.2.1 s2.2.2 hemi ell prj

/-- `vincinv_utm`: both points converted with the call's hemisphere and ellipsoid, `vincinv` on the
geographic positions, distance scaled by the line scale factor, convergence (4th component of each
`grid2geo` result) added to each azimuth. Returns `(grid_dist, grid1to2, grid2to1, lsf)`. -/
def gridInverse (zone1 east1 north1 zone2 east2 north2 : ℝ) (hemi : String) (ell : Ellipsoid) :
    Except PyErr (ℝ × ℝ × ℝ × ℝ) := do
  let pt1 ← grid2geo zone1 east1 north1 hemi ell utm
  let pt2 ← grid2geo zone2 east2 north2 hemi ell utm
  let inv := vincinv pt1.1 pt1.2.1 pt2.1 pt2.2.1 ell
  let lsf ← line_sf zone1 east1 north1 zone2 east2 north2 hemi ell utm
  pure (inv.1 * lsf, inv.2.1 + pt1.2.2.2, inv.2.2 + pt2.2.2.2, lsf)

/-- loop state of `vincdir_utm`: `(az2to1, zone2, east2, north2, gridconv2, lsf, lsf_diff)` -/
abbrev St := ℝ × ℝ × ℝ × ℝ × ℝ × ℝ × ℝ
def St.az2to1 (s : St) : ℝ := s.1
def St.zone (s : St) : ℝ := s.2.1
def St.east (s : St) : ℝ := s.2.2.1
def St.north (s : St) : ℝ := s.2.2.2.1
def St.conv (s : St) : ℝ := s.2.2.2.2.1
def St.lsf (s : St) : ℝ := s.2.2.2.2.2.1
def St.diff (s : St) : ℝ := s.2.2.2.2.2.2

/-- `while lsf_diff > 1e-9` -/
def dirCond (s : St) : Bool := decide (s.diff > dec 1 9)

/-- one pass of the loop: `vincdir` from point 1 with the ellipsoidal distance `grid_dist / lsf`,
`geo2grid` of the result IN ZONE 1 with the call's ellipsoid, `line_sf` point 1 → new point 2 with the
call's hemisphere and ellipsoid, `lsf_diff = |lsf_previous − lsf|` -/
def dirBody (zone1 east1 north1 grid_dist : ℝ) (hemi : String) (ell : Ellipsoid)
    (lat1 lon1 az1to2 : ℝ) (s : St) : Except PyErr St := do
  let v := vincdir lat1 lon1 az1to2 (grid_dist / s.lsf) ell
  let g ← geo2grid v.1 v.2.1 zone1 ell utm
  let lsf ← line_sf zone1 east1 north1 g.2.1 g.2.2.1 g.2.2.2.1 hemi ell utm
  pure (v.2.2, g.2.1, g.2.2.1, g.2.2.2.1, g.2.2.2.2.2, lsf, |s.lsf - lsf|)

/-- `vincdir_utm`, with the hemisphere/ellipsoid used for the INITIAL scale-factor estimate made
explicit as `hemi0`, `ell0` (the code passes neither, i.e. uses the defaults `"south"`, `grs80`).
Returns `(zone2, east2, north2, grid2to1, lsf)`. -/
def gridDirectWith (hemi0 : String) (ell0 : Ellipsoid)
    (zone1 east1 north1 grid1to2 grid_dist : ℝ) (hemi : String) (ell : Ellipsoid) :
    Except PyErr (ℝ × ℝ × ℝ × ℝ × ℝ) := do
  let g1 ← grid2geo zone1 east1 north1 hemi ell utm
  let az1to2 := grid1to2 - g1.2.2.2
  let r := radiations east1 north1 grid1to2 grid_dist 0 1
  let lsf0 ← line_sf zone1 east1 north1 zone1 r.1 r.2 hemi0 ell0 utm
  let s ← whileLoopE 100 dirCond (dirBody zone1 east1 north1 grid_dist hemi ell g1.1 g1.2.1 az1to2)
            ((0 : ℝ), zone1, r.1, r.2, (0 : ℝ), lsf0, (1 : ℝ))
  let g2 ← grid2geo s.zone s.east s.north hemi ell utm
  pure (s.zone, s.east, s.north, s.az2to1 + g2.2.2.2, s.lsf)

end Spec
open Spec

/-! ## 1. `vincinv_utm` -/

theorem vincinv_utm_def (zone1 east1 north1 zone2 east2 north2 : ℝ) (hemi : String)
    (ell : Ellipsoid) :
    vincinv_utm zone1 east1 north1 zone2 east2 north2 hemi ell
      = gridInverse zone1 east1 north1 zone2 east2 north2 hemi ell := rfl

/-! ## 2./3. `line_sf`, `rho`, `nu` -/

theorem line_sf_def (zone1 east1 north1 zone2 east2 north2 : ℝ) (hemi : String) (ell : Ellipsoid)
    (prj : Projection) :
    line_sf zone1 east1 north1 zone2 east2 north2 hemi ell prj
      = lineSf zone1 east1 north1 zone2 east2 north2 hemi ell prj := by
  unfold line_sf lineSf
  by_cases hz : zone1 = zone2
  · rw [if_neg (not_not.2 hz), if_neg (not_not.2 hz)]; rfl
  · rw [if_pos hz, if_pos hz]; rfl

theorem bind_congr' {α β : Type} {x x' : Except PyErr α} {f g : α → Except PyErr β}
    (hx : x = x') (h : ∀ a, f a = g a) : Except.bind x f = Except.bind x' g := by
  subst hx
  cases x with
  | error e => rfl
  | ok a => exact h a

theorem vincdir_utm_structure (zone1 east1 north1 grid1to2 grid_dist : ℝ) (hemi : String)
    (ell : Ellipsoid) :
    vincdir_utm zone1 east1 north1 grid1to2 grid_dist hemi ell
      = gridDirectWith "south" grs80 zone1 east1 north1 grid1to2 grid_dist hemi ell := by
  unfold vincdir_utm gridDirectWith
  refine bind_congr' rfl ?_
  rintro ⟨lat1, lon1, psf1, gc1⟩
  refine bind_congr' rfl ?_
  intro lsf0
  refine bind_congr' rfl ?_
  rintro ⟨a, b, c, d, e, f, g⟩
  rfl

/-! ### `line_sf`: same-zone formula, cross-zone re-projection -/

/-- **line_sf_formula** (zones equal — no re-projection): with `g₁`, `g₂` the `grid2geo` results of the
two stations (call's hemisphere and ellipsoid), the result is
`k₀·(1 + k1·(1 + k2))`, `k1 = Q/(6r²)`, `k2 = Q/(36r²)`, `Q = E₁²+E₁E₂+E₂²`,
`r² = ρ(φm)ν(φm)k₀²`, `φm = (φ₁+φ₂)/2`, `Eᵢ = eastᵢ − falseeast`. -/
theorem line_sf_formula (zone east1 north1 east2 north2 : ℝ) (hemi : String) (ell : Ellipsoid)
    (prj : Projection) (g1 g2 : Geo)
    (h1 : grid2geo zone east1 north1 hemi ell utm = .ok g1)
    (h2 : grid2geo zone east2 north2 hemi ell utm = .ok g2) :
    line_sf zone east1 north1 zone east2 north2 hemi ell prj
      = .ok (prj.cmscale *
          (1 + ((east1 - prj.falseeast) ^ 2 + (east1 - prj.falseeast) * (east2 - prj.falseeast)
                  + (east2 - prj.falseeast) ^ 2)
                / (6 * (rho ((g1.1 + g2.1) / 2) ell * nu ((g1.1 + g2.1) / 2) ell * prj.cmscale ^ 2))
              * (1 + ((east1 - prj.falseeast) ^ 2 + (east1 - prj.falseeast) * (east2 - prj.falseeast)
                  + (east2 - prj.falseeast) ^ 2)
                / (36 * (rho ((g1.1 + g2.1) / 2) ell * nu ((g1.1 + g2.1) / 2) ell
                    * prj.cmscale ^ 2))))) := by
  rw [line_sf_def]
  unfold lineSf
  rw [if_neg (not_not.2 rfl)]
  show lineSfSameZone zone east1 north1 zone east2 north2 hemi ell prj = _
  unfold lineSfSameZone
  rw [h1, h2]
  rfl

/-- the same, in terms of `Spec.lsfCore` / `Spec.rSq`; and the error behaviour: the first failing
`grid2geo` (station 1 first) is what is raised -/
theorem line_sf_same_zone (zone east1 north1 east2 north2 : ℝ) (hemi : String) (ell : Ellipsoid)
    (prj : Projection) :
    line_sf zone east1 north1 zone east2 north2 hemi ell prj
      = lineSfSameZone zone east1 north1 zone east2 north2 hemi ell prj := by
  rw [line_sf_def]
  unfold lineSf
  rw [if_neg (not_not.2 rfl)]
  rfl

/-- **cross_zone**: for `zone1 ≠ zone2` station 2 is first re-projected into zone 1
(`grid2geo zone2 east2 north2 hemisphere ell utm`, then `geo2grid lat lon zone1 ell utm`), and the
zone/easting/northing that `geo2grid` returns replace station 2's in the same-zone formula. -/
theorem cross_zone (zone1 east1 north1 zone2 east2 north2 : ℝ) (hemi : String) (ell : Ellipsoid)
    (prj : Projection) (hz : zone1 ≠ zone2) :
    line_sf zone1 east1 north1 zone2 east2 north2 hemi ell prj
      = (do
          let g ← grid2geo zone2 east2 north2 hemi ell utm
          let t ← geo2grid g.1 g.2.1 zone1 ell utm
          lineSfSameZone zone1 east1 north1 t.2.1 t.2.2.1 t.2.2.2.1 hemi ell prj) := by
  rw [line_sf_def]
  unfold lineSf
  rw [if_pos hz]
  unfold reproject
  cases grid2geo zone2 east2 north2 hemi ell utm with
  | error e => rfl
  | ok g =>
    show (do
        let s2 ← (do
          let t ← geo2grid g.1 g.2.1 zone1 ell utm
          (pure (t.2.1, t.2.2.1, t.2.2.2.1) : Except PyErr (ℝ × ℝ × ℝ)))
        lineSfSameZone zone1 east1 north1 s2.1 s2.2.1 s2.2.2 hemi ell prj)
      = (do
        let t ← geo2grid g.1 g.2.1 zone1 ell utm
        lineSfSameZone zone1 east1 north1 t.2.1 t.2.2.1 t.2.2.2.1 hemi ell prj)
    cases geo2grid g.1 g.2.1 zone1 ell utm with
    | error e => rfl
    | ok t => rfl

/-- explicit successful form of `cross_zone` -/
theorem cross_zone_ok (zone1 east1 north1 zone2 east2 north2 : ℝ) (hemi : String) (ell : Ellipsoid)
    (prj : Projection) (hz : zone1 ≠ zone2) (g : Geo) (t : Grid)
    (hg : grid2geo zone2 east2 north2 hemi ell utm = .ok g)
    (ht : geo2grid g.1 g.2.1 zone1 ell utm = .ok t) :
    line_sf zone1 east1 north1 zone2 east2 north2 hemi ell prj
      = lineSfSameZone zone1 east1 north1 t.2.1 t.2.2.1 t.2.2.2.1 hemi ell prj := by
  rw [cross_zone _ _ _ _ _ _ _ _ _ hz, hg]
  show (do
      let t ← geo2grid g.1 g.2.1 zone1 ell utm
      lineSfSameZone zone1 east1 north1 t.2.1 t.2.2.1 t.2.2.2.1 hemi ell prj) = _
  rw [ht]
  rfl

/-! ### the algebraic core -/

theorem lsfCore_symmetric (k0 rsq E1 E2 : ℝ) : lsfCore k0 rsq E1 E2 = lsfCore k0 rsq E2 E1 := by
  unfold lsfCore; ring

theorem Q_nonneg (E1 E2 : ℝ) : 0 ≤ E1 ^ 2 + E1 * E2 + E2 ^ 2 := by
  nlinarith [sq_nonneg (E1 + E2), sq_nonneg E1, sq_nonneg E2]

/-- for `r² > 0` and `k₀ ≥ 0` the line scale factor is at least `k₀` -/
theorem lsfCore_ge_k0 (k0 rsq E1 E2 : ℝ) (hk : 0 ≤ k0) (hr : 0 < rsq) :
    k0 ≤ lsfCore k0 rsq E1 E2 := by
  unfold lsfCore
  have hQ := Q_nonneg E1 E2
  have h1 : 0 ≤ (E1 ^ 2 + E1 * E2 + E2 ^ 2) / (6 * rsq) := by positivity
  have h2 : 0 ≤ (E1 ^ 2 + E1 * E2 + E2 ^ 2) / (36 * rsq) := by positivity
  have h3 : 0 ≤ (E1 ^ 2 + E1 * E2 + E2 ^ 2) / (6 * rsq)
      * (1 + (E1 ^ 2 + E1 * E2 + E2 ^ 2) / (36 * rsq)) := by positivity
  nlinarith [mul_nonneg hk h3]

/-- for `E₁ = E₂ = E` the expression is the point-scale series `k₀(1 + E²/(2r²) + E⁴/(24r⁴))` -/
theorem lsfCore_point (k0 rsq E : ℝ) (hr : rsq ≠ 0) :
    lsfCore k0 rsq E E = k0 * (1 + E ^ 2 / (2 * rsq) + E ^ 4 / (24 * rsq ^ 2)) := by
  unfold lsfCore
  field_simp
  ring

end

end GeodeVerif.C14
