import GeodeVerif.Model.Api
/-!
# C20 — HTTP API: theorems about the generic handlers of `Model/Api.lean`

All theorems are about `Api.handleVincinv` / `Api.handleVincdir` for an ARBITRARY record `L : Lib α` of
the four wired functions — the definitions the driver `apidrv` executes at `L := Api.libF` (generated
`GenF.Geodesy.vincinv/vincdir` on GRS80 + the angle model's `hp2dec`/`dec2hp`) and that
`harness/corr_api.py` ties to the Flask application (which also compares `app.url_map` with `routes`).

The specification (`Spec`) is written in the property's vocabulary: an `AngleType` is `dd` or `dms`;
an absent parameter means `dd`; `inF dd = id`, `inF dms = hp2dec`, `outF dd = id`, `outF dms = dec2hp`;
`Spec.vincinv`: `lat1, lon1, lat2, lon2` go in that order through `inF from` into `vincinv`, `ell_dist`
comes back unconverted, the two azimuths go through `outF to`; `Spec.vincdir`: `lat1, lon1,
azimuth1to2` through `inF from`, `ell_dist` unconverted, `lat2, lon2, azimuth2to1` through `outF to`.

1. `vincinv_wiring`, `vincdir_wiring` — handler = Spec for every query (all error paths included);
   `vincinv_wiring_ok`, `vincdir_wiring_ok` — the answer spelled out for a well-formed query;
   `in_dd`, `in_dms`, `out_dd`, `out_dms`, `absent_is_dd` — the dispatch tables.
2. `types_independent` — each of the 9 combinations of `from_angle_type`, `to_angle_type` in
   {absent, dd, dms} is the instance of the Spec with the input conversion chosen by the first alone and
   the output conversion by the second alone.
3. `routes_listed` — the routed paths are `/`, `/vincinv`, `/vincdir`, and the index lists all of them.
Not proved: Werkzeug's query parsing and `jsonify`'s number formatting (runtime; tie only).
-/
namespace GeodeVerif.C20
open Api Py

variable {α : Type} (L : Lib α)

/-! ## Specification -/

inductive AngleType where
  | dd
  | dms
  deriving DecidableEq, Repr

/-- how a query parameter names an angle type; absent means `dd`; anything else is not a type -/
def AngleType.ofArg : Option String → Option AngleType
  | none => some .dd
  | some s => if s = "dd" then some .dd else if s = "dms" then some .dms else none

/-- input conversion to decimal degrees -/
def inF : AngleType → α → Except PyErr α
  | .dd => fun x => .ok x
  | .dms => L.hp2dec

/-- output conversion from decimal degrees -/
def outF : AngleType → α → α
  | .dd => fun x => x
  | .dms => L.dec2hp

/-- an angle read from the query: must be present, goes through the input conversion -/
def angleIn (t : AngleType) : Option α → Except Err α
  | none => .error .TypeError
  | some x => match inF L t x with
    | .ok v => .ok v
    | .error e => .error (.lib e)

/-- a number read from the query that is not an angle: must be present, never converted -/
def plainIn : Option α → Except Err α
  | none => .error .TypeError
  | some x => .ok x

/-- the contract of `/vincinv` for given angle types -/
def Spec.vincinvT (ft tt : AngleType) (q : Query α) : Except Err (List (String × α)) :=
  match angleIn L ft q.lat1 with
  | .error e => .error e
  | .ok lat1 =>
  match angleIn L ft q.lon1 with
  | .error e => .error e
  | .ok lon1 =>
  match angleIn L ft q.lat2 with
  | .error e => .error e
  | .ok lat2 =>
  match angleIn L ft q.lon2 with
  | .error e => .error e
  | .ok lon2 =>
    let r := L.vincinv lat1 lon1 lat2 lon2
    .ok [("ell_dist", r.1), ("azimuth1to2", outF L tt r.2.1), ("azimuth2to1", outF L tt r.2.2)]

/-- the contract of `/vincdir` for given angle types -/
def Spec.vincdirT (ft tt : AngleType) (q : Query α) : Except Err (List (String × α)) :=
  match angleIn L ft q.lat1 with
  | .error e => .error e
  | .ok lat1 =>
  match angleIn L ft q.lon1 with
  | .error e => .error e
  | .ok lon1 =>
  match angleIn L ft q.azimuth1to2 with
  | .error e => .error e
  | .ok az =>
  match plainIn q.ell_dist with
  | .error e => .error e
  | .ok dist =>
    let r := L.vincdir lat1 lon1 az dist
    .ok [("lat2", outF L tt r.1), ("lon2", outF L tt r.2.1), ("azimuth2to1", outF L tt r.2.2)]

/-- the contract for a raw query: an unknown input type fails before anything is computed; an unknown
output type fails after the inputs have been accepted -/
def Spec.vincinv (q : Query α) : Except Err (List (String × α)) :=
  match AngleType.ofArg q.from_angle_type with
  | none => .error .KeyError
  | some ft =>
    match AngleType.ofArg q.to_angle_type with
    | some tt => Spec.vincinvT L ft tt q
    | none =>
      match Spec.vincinvT L ft .dd q with
      | .error e => .error e
      | .ok _ => .error .KeyError

def Spec.vincdir (q : Query α) : Except Err (List (String × α)) :=
  match AngleType.ofArg q.from_angle_type with
  | none => .error .KeyError
  | some ft =>
    match AngleType.ofArg q.to_angle_type with
    | some tt => Spec.vincdirT L ft tt q
    | none =>
      match Spec.vincdirT L ft .dd q with
      | .error e => .error e
      | .ok _ => .error .KeyError

/-! ## The dispatch tables -/

theorem in_dd (x : α) : inF L .dd x = .ok x := rfl
theorem in_dms : inF L .dms = L.hp2dec := rfl
theorem out_dd (x : α) : outF L .dd x = x := rfl
theorem out_dms : outF L .dms = L.dec2hp := rfl
theorem absent_is_dd : AngleType.ofArg none = some .dd := rfl
theorem ofArg_dd : AngleType.ofArg (some "dd") = some .dd := by decide
theorem ofArg_dms : AngleType.ofArg (some "dms") = some .dms := by decide

/-- the code's input table is the Spec's -/
theorem angleTypeToDd_spec (s : Option String) :
    angleTypeToDd L s =
      match AngleType.ofArg s with
      | none => .error .KeyError
      | some t => .ok (inF L t) := by
  cases s with
  | none => rfl
  | some s =>
    simp only [angleTypeToDd, AngleType.ofArg]
    by_cases h1 : s = "dd"
    · simp [h1, inF]
    · by_cases h2 : s = "dms"
      · simp [h2, inF]
      · simp [h1, h2]

/-- the code's output table is the Spec's -/
theorem ddToAngleType_spec (s : Option String) :
    ddToAngleType L s =
      match AngleType.ofArg s with
      | none => .error .KeyError
      | some t => .ok (outF L t) := by
  cases s with
  | none => rfl
  | some s =>
    simp only [ddToAngleType, AngleType.ofArg]
    by_cases h1 : s = "dd"
    · simp [h1, outF]
    · by_cases h2 : s = "dms"
      · simp [h2, outF]
      · simp [h1, h2]

theorem convIn_spec (t : AngleType) (x : Option α) : convIn (inF L t) x = angleIn L t x := by
  cases x <;> rfl

theorem passIn_spec (x : Option α) : passIn x = plainIn x := by
  cases x <;> rfl

/-! ## 1. wiring -/

/-- **vincinv_wiring**: the handler is the Spec, for every query -/
theorem vincinv_wiring (q : Query α) : handleVincinv L q = Spec.vincinv L q := by
  unfold handleVincinv Spec.vincinv
  rw [angleTypeToDd_spec, ddToAngleType_spec]
  cases AngleType.ofArg q.from_angle_type with
  | none => rfl
  | some ft =>
    simp only [bind, Except.bind, convIn_spec, Spec.vincinvT]
    cases angleIn L ft q.lat1 with
    | error e => cases AngleType.ofArg q.to_angle_type <;> rfl
    | ok a =>
    cases angleIn L ft q.lon1 with
    | error e => cases AngleType.ofArg q.to_angle_type <;> rfl
    | ok b =>
    cases angleIn L ft q.lat2 with
    | error e => cases AngleType.ofArg q.to_angle_type <;> rfl
    | ok c =>
    cases angleIn L ft q.lon2 with
    | error e => cases AngleType.ofArg q.to_angle_type <;> rfl
    | ok d => cases AngleType.ofArg q.to_angle_type <;> rfl

/-- **vincdir_wiring**: the handler is the Spec, for every query -/
theorem vincdir_wiring (q : Query α) : handleVincdir L q = Spec.vincdir L q := by
  unfold handleVincdir Spec.vincdir
  rw [angleTypeToDd_spec, ddToAngleType_spec]
  cases AngleType.ofArg q.from_angle_type with
  | none => rfl
  | some ft =>
    simp only [bind, Except.bind, convIn_spec, passIn_spec, Spec.vincdirT]
    cases angleIn L ft q.lat1 with
    | error e => cases AngleType.ofArg q.to_angle_type <;> rfl
    | ok a =>
    cases angleIn L ft q.lon1 with
    | error e => cases AngleType.ofArg q.to_angle_type <;> rfl
    | ok b =>
    cases angleIn L ft q.azimuth1to2 with
    | error e => cases AngleType.ofArg q.to_angle_type <;> rfl
    | ok c =>
    cases plainIn q.ell_dist with
    | error e => cases AngleType.ofArg q.to_angle_type <;> rfl
    | ok d => cases AngleType.ofArg q.to_angle_type <;> rfl

/-- the answer to a well-formed `/vincinv` query, spelled out: which field goes where -/
theorem vincinv_wiring_ok (q : Query α) {ft tt : AngleType} {lat1 lon1 lat2 lon2 a b c d : α}
    (hf : AngleType.ofArg q.from_angle_type = some ft) (ht : AngleType.ofArg q.to_angle_type = some tt)
    (h1 : q.lat1 = some lat1) (h2 : q.lon1 = some lon1) (h3 : q.lat2 = some lat2) (h4 : q.lon2 = some lon2)
    (c1 : inF L ft lat1 = .ok a) (c2 : inF L ft lon1 = .ok b) (c3 : inF L ft lat2 = .ok c)
    (c4 : inF L ft lon2 = .ok d) :
    handleVincinv L q =
      .ok [("ell_dist", (L.vincinv a b c d).1),
           ("azimuth1to2", outF L tt (L.vincinv a b c d).2.1),
           ("azimuth2to1", outF L tt (L.vincinv a b c d).2.2)] := by
  rw [vincinv_wiring]
  simp [Spec.vincinv, Spec.vincinvT, hf, ht, h1, h2, h3, h4, angleIn, c1, c2, c3, c4]

/-- the answer to a well-formed `/vincdir` query, spelled out: `ell_dist` is not converted -/
theorem vincdir_wiring_ok (q : Query α) {ft tt : AngleType} {lat1 lon1 az dist a b c : α}
    (hf : AngleType.ofArg q.from_angle_type = some ft) (ht : AngleType.ofArg q.to_angle_type = some tt)
    (h1 : q.lat1 = some lat1) (h2 : q.lon1 = some lon1) (h3 : q.azimuth1to2 = some az)
    (h4 : q.ell_dist = some dist)
    (c1 : inF L ft lat1 = .ok a) (c2 : inF L ft lon1 = .ok b) (c3 : inF L ft az = .ok c) :
    handleVincdir L q =
      .ok [("lat2", outF L tt (L.vincdir a b c dist).1),
           ("lon2", outF L tt (L.vincdir a b c dist).2.1),
           ("azimuth2to1", outF L tt (L.vincdir a b c dist).2.2)] := by
  rw [vincdir_wiring]
  simp [Spec.vincdir, Spec.vincdirT, hf, ht, h1, h2, h3, h4, angleIn, plainIn, c1, c2, c3]

/-- the hypotheses of `vincinv_wiring_ok` are satisfiable (plain `dd` query) -/
example (L : Lib Int) :
    handleVincinv L { lat1 := some 1, lon1 := some 2, lat2 := some 3, lon2 := some 4 } =
      .ok [("ell_dist", (L.vincinv 1 2 3 4).1), ("azimuth1to2", (L.vincinv 1 2 3 4).2.1),
           ("azimuth2to1", (L.vincinv 1 2 3 4).2.2)] :=
  vincinv_wiring_ok L _ (ft := .dd) (tt := .dd) rfl rfl rfl rfl rfl rfl rfl rfl rfl rfl

/-- an unknown input type is refused before anything is computed -/
theorem unknown_from_type (q : Query α) (h : AngleType.ofArg q.from_angle_type = none) :
    handleVincinv L q = .error .KeyError ∧ handleVincdir L q = .error .KeyError := by
  rw [vincinv_wiring, vincdir_wiring]
  simp [Spec.vincinv, Spec.vincdir, h]

/-! ## 2. types_independent -/

/-- the three spellings of an angle-type parameter the property quantifies over -/
def spellings : List (Option String) := [none, some "dd", some "dms"]

/-- every one of the 9 combinations is an instance of the typed Spec: the input conversion is chosen
by `from_angle_type` alone, the output conversion by `to_angle_type` alone -/
theorem types_independent (f t : Option String) (hf : f ∈ spellings) (ht : t ∈ spellings) :
    ∃ ft tt, AngleType.ofArg f = some ft ∧ AngleType.ofArg t = some tt ∧
      ∀ q : Query α, q.from_angle_type = f → q.to_angle_type = t →
        handleVincinv L q = Spec.vincinvT L ft tt q ∧ handleVincdir L q = Spec.vincdirT L ft tt q := by
  have key : ∀ s ∈ spellings, ∃ a, AngleType.ofArg s = some a := by
    intro s hs
    simp only [spellings, List.mem_cons, List.not_mem_nil, or_false] at hs
    rcases hs with rfl | rfl | rfl
    · exact ⟨.dd, rfl⟩
    · exact ⟨.dd, ofArg_dd⟩
    · exact ⟨.dms, ofArg_dms⟩
  obtain ⟨ft, hft⟩ := key f hf
  obtain ⟨tt, htt⟩ := key t ht
  refine ⟨ft, tt, hft, htt, ?_⟩
  intro q hqf hqt
  rw [vincinv_wiring, vincdir_wiring]
  simp only [Spec.vincinv, Spec.vincdir, hqf, hqt, hft, htt, and_self]

/-- the 9 combinations, with the conversions they select -/
theorem types_table :
    (AngleType.ofArg none, AngleType.ofArg (some "dd"), AngleType.ofArg (some "dms")) =
      (some .dd, some .dd, some .dms) ∧
    (∀ x : α, inF L .dd x = .ok x) ∧ inF L .dms = L.hp2dec ∧
    (∀ x : α, outF L .dd x = x) ∧ outF L .dms = L.dec2hp :=
  ⟨by decide, fun _ => rfl, rfl, fun _ => rfl, rfl⟩

/-! ## 3. routes_listed -/

/-- the routed paths are `/`, `/vincinv`, `/vincdir`, and the index lists every one of them -/
theorem routes_listed :
    Api.routes = ["/", "/vincinv", "/vincdir"] ∧ ∀ r ∈ Api.routes, r ∈ Api.listRoutes :=
  ⟨rfl, fun _ h => h⟩

/-! ## The executable instance is the generic handler at the generated functions -/

theorem libF_vincinv (a b c d : Float) :
    libF.vincinv a b c d = GenF.Geodesy.vincinv a b c d GenF.Constants.grs80 := rfl
theorem libF_vincdir (a b c d : Float) :
    libF.vincdir a b c d = GenF.Geodesy.vincdir a b c d GenF.Constants.grs80 := rfl
theorem libF_angles : libF.hp2dec = Ang.hp2dec ∧ libF.dec2hp = Ang.dec2hp := ⟨rfl, rfl⟩

end GeodeVerif.C20
