import GeodeVerif.Proofs.C02
import GeodeVerif.Proofs.C01c
/-!
# C02 — on a sphere the inverse grid conversion IS the exact inverse Transverse Mercator

"Converting … to latitude and longitude and back returns the same …": for an ellipsoid round-trip
closure is a statement about two truncated series and a Newton iteration (decided by search).  For the
degenerate family `e = 0`, `n = 0`, `A = R` (a sphere) both directions are elementary and closure is a
theorem about the regenerated `GenR.Convert.grid2geo` and `GenR.Convert.geo2grid`:

* `beta_sphere` — with `n = 0` every β coefficient vanishes, so `ξ′ = y/R`, `η′ = x/R`;
* `sigma_sphere`, `newtonMap_sphere` — with `e = 0` the Newton target is `t − t′`, so the start value
  `t = t′` is already the root and the Newton map returns it unchanged;
* `sphere_loop_exits_first_pass` — the `while` loop leaves after exactly one pass with `t = t′`;
* `grid2geo_sphere` — the returned latitude and longitude are
  `arctan (sin ξ / √(sinh² η + cos² ξ))` and `cm + arctan (sinh η / cos ξ)` (in degrees, rounded to 11
  decimals, signed by hemisphere): the closed-form inverse of the spherical transverse Mercator;
* `sphere_inverse_of_forward` — that closed form applied to the forward's `(ξ′, η′)(φ, ω)`
  (`C01.xi1`, `C01.eta1`, which `C01.geo2grid_sphere` shows are what `geo2grid` computes on the sphere)
  returns `(φ, ω)` exactly, for every `|φ| < 90°`, `|ω| < 90°`;
* `sphere_forward_of_inverse` — and conversely the forward's pair applied to the closed-form inverse of `(ξ, η)` returns `(ξ, η)` for
  every `|ξ| < π/2` (grid → geographic → grid closes exactly before the 0.1 mm rounding);
* `sphere_round_trip` — so `grid2geo` applied to the un-rounded spherical image
  `(k₀Rη′ + FE, k₀Rξ′ (+FN))` of `(lat, lon)` returns `lat` and `lon` rounded to 11 decimals: in exact
  arithmetic the only round-trip error on a sphere is the two output roundings.
-/
set_option linter.unusedVariables false
set_option maxRecDepth 4096
noncomputable section
namespace GeodeVerif.C02
open Py PyR GenR.Constants GenR.Convert

theorem beta_sphere (ell : Ellipsoid) (hn : ell.n = 0) : beta_coeff ell = (0, 0, 0, 0, 0, 0, 0, 0) := by
  unfold beta_coeff
  simp [hn, PyR.pown]

theorem sigma_sphere (t : ℝ) : grid2geo_sigma t 0 = 0 := by
  unfold grid2geo_sigma
  simp [sinh_def]

/-- with `e = 0` the start value is the root: the Newton map leaves `t′` where it is -/
theorem newtonMap_sphere (ell : Ellipsoid) (he : ell.ecc1 = 0) (t1 : ℝ) : newtonMap ell t1 t1 = t1 := by
  unfold newtonMap grid2geo_ftn
  rw [he, sigma_sphere]
  simp [pown_def, sqrt_def]

/-- with `e = 0` the loop leaves after exactly one pass, with `t = t′` and `diff = 0` -/
theorem sphere_loop_exits_first_pass (ell : Ellipsoid) (he : ell.ecc1 = 0) (t1 : ℝ) :
    whileLoop 200 newtonCond (newtonBody ell t1) (0, t1, 1) = some (1, t1, 0) := by
  have hc0 : newtonCond ((0 : ℝ), t1, (1 : ℝ)) = true := by
    rw [newtonCond_eq_true]; norm_num
  have hb : newtonBody ell t1 (0, t1, 1) = (1, t1, 0) := by
    simp only [newtonBody, newtonMap_sphere ell he t1, sub_self, abs_zero, zero_add]
  have hc1 : newtonCond ((1 : ℝ), t1, (0 : ℝ)) = false := by
    rw [Bool.eq_false_iff, Ne, newtonCond_eq_true]
    norm_num
  rw [show (200 : ℕ) = 198 + 1 + 1 from rfl, whileLoop, if_pos hc0, hb, whileLoop, if_neg (by simp [hc1])]

theorem xi1Of_sphere (east north : ℝ) (h : String) (ell : Ellipsoid) (prj : Projection) (hn : ell.n = 0) :
    xi1Of east north h ell prj = gridY north h prj / rect_radius ell := by
  unfold xi1Of xiSeries
  rw [beta_sphere ell hn]
  simp

theorem eta1Of_sphere (east north : ℝ) (h : String) (ell : Ellipsoid) (prj : Projection) (hn : ell.n = 0) :
    eta1Of east north h ell prj = gridX east prj / rect_radius ell := by
  unfold eta1Of etaSeries
  rw [beta_sphere ell hn]
  simp

/-- **C02 on the sphere**: the closed-form inverse spherical transverse Mercator, no iteration left -/
theorem grid2geo_sphere (zone east north R : ℝ) (h : String) (ell : Ellipsoid) (prj : Projection)
    (hv : Valid zone east north h prj) (he : ell.ecc1 = 0) (hn : ell.n = 0)
    (hinv : 1 / ell.inversef = 0) (ha : ell.semimaj = R) :
    ∃ r, grid2geo zone east north h ell prj = .ok r ∧
      r.1 = hemisign h * pround 11 (degrees (Real.arctan
              (tPrime (gridY north h prj / R) (gridX east prj / R)))) ∧
      r.2.1 = pround 11 (centralMeridian zone prj + degrees (Real.arctan
              (Real.sinh (gridX east prj / R) / Real.cos (gridY north h prj / R)))) := by
  rw [grid2geo_spec zone east north h ell prj hv, sphere_loop_exits_first_pass ell he]
  refine ⟨_, rfl, ?_, ?_⟩
  · simp only [output, xi1Of_sphere east north h ell prj hn, eta1Of_sphere east north h ell prj hn,
      C01.rect_radius_sphere ell hinv, ha]
  · simp only [output, xi1Of_sphere east north h ell prj hn, eta1Of_sphere east north h ell prj hn,
      C01.rect_radius_sphere ell hinv, ha]

/-- the closed-form inverse undoes the forward's Gauss–Schreiber pair, exactly -/
theorem sphere_inverse_of_forward (φ ω : ℝ) (hφ : |φ| < Real.pi / 2) (hω : |ω| < Real.pi / 2) :
    Real.arctan (tPrime (C01.xi1 φ ω) (C01.eta1 φ ω)) = φ ∧
    Real.arctan (Real.sinh (C01.eta1 φ ω) / Real.cos (C01.xi1 φ ω)) = ω := by
  obtain ⟨_, b, c⟩ := gs_inverse φ ω hφ hω
  exact ⟨b, c⟩

/-- the forward's Gauss–Schreiber pair undoes the closed-form inverse, exactly (the other direction of the round trip):
for `|ξ| < π/2` (northings short of a quarter of the sphere's circumference) -/
theorem sphere_forward_of_inverse (ξ η : ℝ) (hξ : |ξ| < Real.pi / 2) :
    C01.xi1 (Real.arctan (tPrime ξ η)) (Real.arctan (Real.sinh η / Real.cos ξ)) = ξ ∧
    C01.eta1 (Real.arctan (tPrime ξ η)) (Real.arctan (Real.sinh η / Real.cos ξ)) = η := by
  obtain ⟨h1, h2⟩ := abs_lt.mp hξ
  have hc : 0 < Real.cos ξ := Real.cos_pos_of_mem_Ioo ⟨h1, h2⟩
  have hD2 : 0 < Real.sinh η ^ 2 + Real.cos ξ ^ 2 := by positivity
  set D := Real.sqrt (Real.sinh η ^ 2 + Real.cos ξ ^ 2) with hD
  have hDpos : 0 < D := Real.sqrt_pos.mpr hD2
  have hDsq : D ^ 2 = Real.sinh η ^ 2 + Real.cos ξ ^ 2 := Real.sq_sqrt hD2.le
  have hT : tPrime ξ η = Real.sin ξ / D := rfl
  have hsq : Real.sqrt (1 + (Real.sinh η / Real.cos ξ) ^ 2) = D / Real.cos ξ := by
    rw [show 1 + (Real.sinh η / Real.cos ξ) ^ 2 = (D / Real.cos ξ) ^ 2 by
      rw [div_pow, div_pow, hDsq]; field_simp; ring]
    exact Real.sqrt_sq (div_pos hDpos hc).le
  have hcosω : Real.cos (Real.arctan (Real.sinh η / Real.cos ξ)) = Real.cos ξ / D := by
    rw [Real.cos_arctan, hsq]; field_simp
  have hsinω : Real.sin (Real.arctan (Real.sinh η / Real.cos ξ)) = Real.sinh η / D := by
    rw [Real.sin_arctan, hsq]; field_simp
  have htan : Real.tan (Real.arctan (tPrime ξ η)) = Real.sin ξ / D := by rw [Real.tan_arctan, hT]
  have hss : Real.sin ξ ^ 2 + Real.cos ξ ^ 2 = 1 := Real.sin_sq_add_cos_sq ξ
  constructor
  · unfold C01.xi1
    rw [htan, hcosω, show Real.sin ξ / D / (Real.cos ξ / D) = Real.tan ξ by
      rw [Real.tan_eq_sin_div_cos]; field_simp]
    exact Real.arctan_tan h1 h2
  · have hx : C01.eta1x (Real.arctan (tPrime ξ η)) (Real.arctan (Real.sinh η / Real.cos ξ)) = Real.sinh η := by
      unfold C01.eta1x
      rw [htan, hcosω, hsinω, show (Real.sin ξ / D) ^ 2 + (Real.cos ξ / D) ^ 2 = (1 / D) ^ 2 by
        rw [div_pow, div_pow, div_pow, one_pow, ← add_div, hss]]
      rw [Real.sqrt_sq (by positivity)]; field_simp
    unfold C01.eta1
    rw [hx, show Real.sqrt (1 + Real.sinh η ^ 2) = Real.cosh η by
      rw [show 1 + Real.sinh η ^ 2 = Real.cosh η ^ 2 by have := Real.cosh_sq η; linarith]
      exact Real.sqrt_sq (Real.cosh_pos η).le]
    rw [Real.sinh_add_cosh, Real.log_exp]

theorem tPrime_neg (a b : ℝ) : tPrime (-a) b = -tPrime a b := by
  unfold tPrime
  rw [Real.sin_neg, Real.cos_neg, neg_div]

/-- **round trip on the sphere** (southern or northern, by the sign of ξ′): `grid2geo` applied to the
un-rounded image `(k₀·R·η′ + FE, k₀·R·ξ′ + FN|0)` that `C01.geo2grid_sphere` attributes to `(lat, lon)`
returns `lat`, `lon` up to the final rounding to 11 decimals. `hcm` says the zone passed back is the
zone the forward conversion used. -/
theorem sphere_round_trip (lat lon zone R : ℝ) (h : String) (ell : Ellipsoid) (prj : Projection)
    (cm : ℝ) (hcm : centralMeridian zone prj = cm)
    (hlat1 : -80 ≤ lat) (hlat2 : lat ≤ 84) (hω : |radians (lon - cm)| < Real.pi / 2)
    (hR : 0 < R) (hk : 0 < prj.cmscale)
    (he : ell.ecc1 = 0) (hn : ell.n = 0) (hinv : 1 / ell.inversef = 0) (ha : ell.semimaj = R)
    (east north : ℝ)
    (hE : east = prj.cmscale * (R * C01.eta1 (radians lat) (radians (lon - cm))) + prj.falseeast)
    (hN : north = if strLower h = "north"
        then prj.cmscale * (R * C01.xi1 (radians lat) (radians (lon - cm)))
        else prj.cmscale * (R * C01.xi1 (radians lat) (radians (lon - cm))) + prj.falsenorth)
    (hv : Valid zone east north h prj) :
    ∃ r, grid2geo zone east north h ell prj = .ok r ∧
      r.1 = hemisign h * pround 11 (if strLower h = "north" then -lat else lat) ∧
      r.2.1 = pround 11 lon := by
  obtain ⟨r, hr, h1, h2⟩ := grid2geo_sphere zone east north R h ell prj hv he hn hinv ha
  have hφ := C01.radians_lat_mem lat hlat1 hlat2
  obtain ⟨i1, i2⟩ := sphere_inverse_of_forward (radians lat) (radians (lon - cm))
    (abs_lt.mpr ⟨hφ.1, hφ.2⟩) hω
  have hX : gridX east prj / R = C01.eta1 (radians lat) (radians (lon - cm)) := by
    unfold gridX; rw [hE]; field_simp; ring
  have hdeg : ∀ x : ℝ, degrees (radians x) = x := by
    intro x
    show x * (Real.pi / 180) * (180 / Real.pi) = x
    have := Real.pi_ne_zero
    field_simp
  refine ⟨r, hr, ?_, ?_⟩
  · rw [h1, hX]
    by_cases hN' : strLower h = "north"
    · rw [if_pos hN'] at hN
      have hY : gridY north h prj / R = -C01.xi1 (radians lat) (radians (lon - cm)) := by
        unfold gridY; rw [if_pos hN', hN]; field_simp
      rw [hY, if_pos hN', tPrime_neg, Real.arctan_neg, i1]
      congr 2
      show -(lat * (Real.pi / 180)) * (180 / Real.pi) = -lat
      have := Real.pi_ne_zero
      field_simp
    · rw [if_neg hN'] at hN
      have hY : gridY north h prj / R = C01.xi1 (radians lat) (radians (lon - cm)) := by
        unfold gridY; rw [if_neg hN', hN]; field_simp; ring
      rw [hY, if_neg hN', i1, hdeg]
  · rw [h2, hX, hcm]
    by_cases hN' : strLower h = "north"
    · rw [if_pos hN'] at hN
      have hY : gridY north h prj / R = -C01.xi1 (radians lat) (radians (lon - cm)) := by
        unfold gridY; rw [if_pos hN', hN]; field_simp
      rw [hY, Real.cos_neg, i2, hdeg]; congr 1; ring
    · rw [if_neg hN'] at hN
      have hY : gridY north h prj / R = C01.xi1 (radians lat) (radians (lon - cm)) := by
        unfold gridY; rw [if_neg hN', hN]; field_simp; ring
      rw [hY, i2, hdeg]; congr 1; ring

/-- a sphere of radius 6 371 000 m as a record of the fields the conversions read -/
def sphere6371 : Ellipsoid :=
  { semimaj := 6371000, inversef := 0, f := 0, semimin := 6371000, ecc1sq := 0, ecc2sq := 0, ecc1 := 0,
    n := 0, n2 := 0, meanradius := 6371000 }

/-- the hypotheses of `sphere_round_trip` are jointly satisfiable: the point on the equator on the central
meridian of UTM zone 55 (147° E) on that sphere, southern convention -/
example : ∃ r, grid2geo 55 500000 10000000 "south" sphere6371 utm = .ok r ∧
    r.1 = hemisign "south" * pround 11 (if strLower "south" = "north" then -(0 : ℝ) else 0) ∧
    r.2.1 = pround 11 147 := by
  have strLower_south : strLower "south" = "south" := strLower_examples.2.2.1
  have south_ne_north_lower : ¬ (strLower "south" = "north") := by rw [strLower_south]; decide
  have h55 : trunc (55 : ℝ) = 55 := by exact_mod_cast trunc_natCast 55
  have hk : utm.cmscale = dec 9996 4 := rfl
  have hkpos : 0 < utm.cmscale := by rw [hk]; simp [dec]
  have hcm : centralMeridian 55 utm = 147 := by
    unfold centralMeridian
    rw [if_neg (by decide), h55]
    show (55 : ℝ) * 6 + -177 - 6 = 147
    norm_num
  have hx : C01.eta1x (radians 0) (radians (147 - 147)) = 0 := by
    simp [C01.eta1x, radians]
  have he1 : C01.eta1 (radians 0) (radians (147 - 147)) = 0 := by
    unfold C01.eta1; rw [hx]; simp
  have hx1 : C01.xi1 (radians 0) (radians (147 - 147)) = 0 := by
    simp [C01.xi1, radians]
  refine sphere_round_trip 0 147 55 6371000 "south" sphere6371 utm 147 hcm (by norm_num) (by norm_num)
    ?_ (by norm_num) hkpos rfl rfl (by simp [sphere6371]) rfl 500000 10000000 ?_ ?_ ?_
  · have := Real.pi_pos
    simp [radians]; positivity
  · rw [he1]; show (500000 : ℝ) = utm.cmscale * (6371000 * 0) + 500000; ring
  · rw [if_neg south_ne_north_lower, hx1]
    show (10000000 : ℝ) = utm.cmscale * (6371000 * 0) + 10000000; ring
  · refine ⟨?_, by norm_num, by norm_num, Or.inr strLower_south⟩
    unfold ZoneOK
    rw [if_neg (by decide), h55]
    norm_num

end GeodeVerif.C02
