import GeodeVerif.Proofs.C01
/-!
# C01 — on a sphere the forward grid conversion IS the exact Transverse Mercator

"…equal the mathematically exact Transverse Mercator image of that position on that ellipsoid…": for
an ellipsoid this needs elliptic functions (not in Mathlib; decided by search). For the degenerate
family `e = 0`, `n = 0`, `a = R` (a sphere) the exact projection is elementary — the spherical
transverse Mercator `x = R·artanh (cos φ sin ω)`, `y = R·arctan (tan φ / cos ω)` — and the claim is a
theorem about the regenerated `GenR.Convert.geo2grid`:

* `confLat_sphere` — with `e = 0` the conformal latitude is the latitude;
* `alpha_sphere`, `rect_radius_sphere` — with `n = 0` every Krüger coefficient vanishes and `A = a`;
* `tm_sphere` — `tmX = R·η′(φ, ω)`, `tmY = R·ξ′(φ, ω)` with `(ξ′, η′)` the Gauss–Schreiber pair, which
  `gauss_schreiber_def` identifies with the spherical transverse Mercator (`tan ξ′ cos ω = tan φ`,
  `tanh η′ = cos φ sin ω`);
* `geo2grid_sphere` — the returned easting and northing are `k₀·R·η′ + FE`, `k₀·R·ξ′ (+ FN in the
  south)`, rounded to 4 decimals.
-/
set_option linter.unusedVariables false
noncomputable section
namespace GeodeVerif.C01
open Py PyR GenR.Constants GenR.Convert

theorem tanConfLat_sphere (φ : ℝ) : tanConfLat 0 φ = Real.tan φ := by
  unfold tanConfLat
  simp

theorem confLat_sphere (φ : ℝ) (h1 : -(Real.pi / 2) < φ) (h2 : φ < Real.pi / 2) : confLat 0 φ = φ := by
  unfold confLat
  rw [tanConfLat_sphere]
  exact Real.arctan_tan h1 h2

theorem alpha_sphere (ell : Ellipsoid) (hn : ell.n = 0) : alpha_coeff ell = (0, 0, 0, 0, 0, 0, 0, 0) := by
  unfold alpha_coeff
  simp [hn, PyR.pown]

theorem rect_radius_sphere (ell : Ellipsoid) (hinv : 1 / ell.inversef = 0) : rect_radius ell = ell.semimaj := by
  rw [rect_radius_formula]
  simp [hinv]

theorem tm_sphere (ell : Ellipsoid) (R φ ω : ℝ) (he : ell.ecc1 = 0) (hn : ell.n = 0)
    (hinv : 1 / ell.inversef = 0) (ha : ell.semimaj = R)
    (h1 : -(Real.pi / 2) < φ) (h2 : φ < Real.pi / 2) :
    tmX ell φ ω = R * eta1 φ ω ∧ tmY ell φ ω = R * xi1 φ ω := by
  unfold tmX tmY tmEta tmXi etaSeries xiSeries
  rw [alpha_sphere ell hn, rect_radius_sphere ell hinv, he, confLat_sphere φ h1 h2, ha]
  simp

/-- **C01 on the sphere**: easting and northing are the exact spherical transverse Mercator (scaled by `k₀`,
shifted by the false origin, rounded to 0.1 mm) -/
theorem geo2grid_sphere (lat lon zone R : ℝ) (ell : Ellipsoid) (prj : Projection)
    (hv : Valid lat lon zone prj) (he : ell.ecc1 = 0) (hn : ell.n = 0) (hinv : 1 / ell.inversef = 0)
    (ha : ell.semimaj = R) :
    ∃ r, geo2grid lat lon zone ell prj = .ok r ∧
      r.2.2.1 = PyR.pround 4 (prj.cmscale * (R * eta1 (PyR.radians lat)
          (PyR.radians (lon - cmOf prj (zoneOf prj zone lon)))) + prj.falseeast) ∧
      r.2.2.2.1 = PyR.pround 4
        (if R * xi1 (PyR.radians lat) (PyR.radians (lon - cmOf prj (zoneOf prj zone lon))) < 0
         then prj.cmscale * (R * xi1 (PyR.radians lat) (PyR.radians (lon - cmOf prj (zoneOf prj zone lon))))
              + prj.falsenorth
         else prj.cmscale * (R * xi1 (PyR.radians lat) (PyR.radians (lon - cmOf prj (zoneOf prj zone lon)))) + 0) := by
  have hlat := hv.2.1
  have hφ := radians_lat_mem lat (by linarith [not_lt.mp (not_or.mp hlat).1]) (by linarith [not_lt.mp (not_or.mp hlat).2])
  rw [geo2grid_unfold lat lon zone ell prj hv]
  refine ⟨_, rfl, ?_⟩
  obtain ⟨hx, hy⟩ := tm_sphere ell R (PyR.radians lat) (PyR.radians (lon - cmOf prj (zoneOf prj zone lon)))
    he hn hinv ha hφ.1 hφ.2
  simp only [hx, hy]
  refine ⟨trivial, ?_⟩
  split_ifs <;> rfl

/-- what `(ξ′, η′)` are: the spherical transverse Mercator of `(φ, ω)` (`x/R = artanh (cos φ sin ω)`,
`tan (y/R) = tan φ / cos ω`), inside the hemisphere `|ω| < 90°` about the central meridian -/
theorem sphere_tm_is_exact (lat ω : ℝ) (h1 : -80 ≤ lat) (h2 : lat ≤ 84)
    (hω1 : -(Real.pi / 2) < ω) (hω2 : ω < Real.pi / 2) :
    Real.tan (xi1 (PyR.radians lat) ω) * Real.cos ω = Real.tan (PyR.radians lat) ∧
    Real.tanh (eta1 (PyR.radians lat) ω) = Real.cos (PyR.radians lat) * Real.sin ω := by
  have hφ := radians_lat_mem lat h1 h2
  obtain ⟨g1, _, g3⟩ := gauss_schreiber_def (PyR.radians lat) ω hω1 hω2
  exact ⟨g1, g3 hφ.1 hφ.2⟩

/-- **size**: with the flattening (and the quantities derived from it) fixed, the un-scaled TM coordinates are proportional to the
semi-major axis — the relation the C01 probe checks between two ellipsoids of the same flattening without an oracle -/
theorem tm_scales_with_semimaj (ell : Ellipsoid) (c φ ω : ℝ) :
    tmX { ell with semimaj := c * ell.semimaj } φ ω = c * tmX ell φ ω ∧
    tmY { ell with semimaj := c * ell.semimaj } φ ω = c * tmY ell φ ω := by
  have hr : rect_radius { ell with semimaj := c * ell.semimaj } = c * rect_radius ell := by
    rw [rect_radius_formula, rect_radius_formula]
    ring
  have ha : alpha_coeff { ell with semimaj := c * ell.semimaj } = alpha_coeff ell := rfl
  unfold tmX tmY tmEta tmXi
  rw [hr, ha]
  constructor <;> ring

end GeodeVerif.C01
