import GeodeVerif.GenR.Transform
import GeodeVerif.Lemmas.PyRSimp
import Mathlib.Tactic.Ring
import Mathlib.Tactic.Linarith
import Mathlib.Tactic.NormNum
/-!
# C13 — MGA94 ↔ MGA2020: theorems about the regenerated
`GenR.Transform.transform_mga94_to_mga2020` / `transform_mga2020_to_mga94`

`Spec.mgaPipeline p` is the stepwise composition the property talks about, parameterised by the
7-parameter set `p`.  `pipeline_94_to_2020` / `pipeline_2020_to_94` show that the generated functions
ARE that composition with `gda94_to_gda2020` resp. its negation; every other theorem is a corollary
read off the pipeline and then transported to the generated functions.
-/
namespace GeodeVerif.C13
open Py PyR GenR.Constants GenR.Convert GenR.Statistics GenR.Transform

noncomputable section

/-- a 3×3 matrix, row major -/
abbrev V9 := ℝ × ℝ × ℝ × ℝ × ℝ × ℝ × ℝ × ℝ × ℝ

/-- the tuple both functions return: zone, easting, northing, height, covariance -/
abbrev MgaOut := ℝ × ℝ × ℝ × ℝ × Option V9

/-! ## The specification pipeline -/
namespace Spec

/-- height fed to `llh2xyz`: the supplied one, `0` when absent (`ell_ht is False`) -/
def htIn (ell_ht : Option ℝ) : ℝ :=
  match ell_ht with
  | none => 0
  | some h => h

/-- height handed to `round(·, 4)`: the transformed one, `0` when no height was supplied -/
def htOut (ell_ht : Option ℝ) (h' : ℝ) : ℝ :=
  match ell_ht with
  | none => 0
  | some _ => h'

/-- rotate an optional covariance with `rot` at `(lat, lon)`; absent stays absent -/
def rotOpt (rot : V9 → ℝ → ℝ → Except PyErr V9) (v : Option V9) (lat lon : ℝ) :
    Except PyErr (Option V9) :=
  match v with
  | some V => do
      let W ← rot V lat lon
      pure (some W)
  | none => pure none

/-- grid → geographic (UTM, GRS80, **south**) → Cartesian at the supplied height (0 if absent)
→ 7-parameter transformation with the set `p` (covariance rotated to Cartesian at the INPUT position)
→ geographic (GRS80) → covariance rotated back at the OUTPUT position
→ grid with zone argument `0` (natural zone); height rounded to 4 places. -/
def mgaPipeline (p : Transformation) (zone east north : ℝ) (ell_ht : Option ℝ) (vcv : Option V9) :
    Except PyErr MgaOut := do
  let (lat, lon, _psf, _conv) ← grid2geo zone east north "south" grs80 utm
  let vcvXYZ ← rotOpt vcv_local2cart_33 vcv lat lon
  let (x, y, z) := llh2xyz lat lon (htIn ell_ht) grs80
  let (x', y', z', vcvXYZ') ← conform7 x y z p vcvXYZ
  let (lat', lon', h') ← xyz2llh x' y' z' grs80
  let vcvENU' ← rotOpt vcv_cart2local_33 vcvXYZ' lat' lon'
  let (_hemi, zone', east', north', _psf', _conv') ← geo2grid lat' lon' (0 : ℝ) grs80 utm
  pure (zone', east', north', pround 4 (htOut ell_ht h'), vcvENU')

end Spec
open Spec

/-! ## Small `Except` lemmas -/

theorem bind_congr' {α β : Type} (x : Except PyErr α) {f g : α → Except PyErr β}
    (h : ∀ a, f a = g a) : Except.bind x f = Except.bind x g := by
  cases x with
  | error e => rfl
  | ok a => exact h a

theorem bind_ok_iff {α β : Type} (x : Except PyErr α) (f : α → Except PyErr β) (b : β) :
    Except.bind x f = .ok b ↔ ∃ a, x = .ok a ∧ f a = .ok b := by
  cases x with
  | error e => simp [Except.bind]
  | ok a => simp [Except.bind]

/-! ## 1. The generated functions are the pipeline -/

/-- **pipeline_94_to_2020**: the generated function is the pipeline with the set `gda94_to_gda2020`
(`"south"`, `grs80`, `utm`, the height-or-0, the zone argument `0` and the 4-place rounding are all
part of `mgaPipeline`, so a change of any of them in the Python breaks this proof). -/
theorem pipeline_94_to_2020 (zone east north : ℝ) (ell_ht : Option ℝ) (vcv : Option V9) :
    transform_mga94_to_mga2020 zone east north ell_ht vcv
      = mgaPipeline gda94_to_gda2020 zone east north ell_ht vcv := by
  unfold transform_mga94_to_mga2020 mgaPipeline
  refine bind_congr' _ ?_
  rintro ⟨lat, lon, psf, gc⟩
  cases vcv <;> cases ell_ht <;>
    (refine bind_congr' _ ?_
     intro vxyz
     refine bind_congr' _ ?_
     rintro ⟨x', y', z', v'⟩
     refine bind_congr' _ ?_
     rintro ⟨lat', lon', h'⟩
     cases v' <;> rfl)

/-- **pipeline_2020_to_94**: the same pipeline with the negated set -/
theorem pipeline_2020_to_94 (zone east north : ℝ) (ell_ht : Option ℝ) (vcv : Option V9) :
    transform_mga2020_to_mga94 zone east north ell_ht vcv
      = mgaPipeline (Transformation.neg gda94_to_gda2020) zone east north ell_ht vcv := by
  unfold transform_mga2020_to_mga94 mgaPipeline
  refine bind_congr' _ ?_
  rintro ⟨lat, lon, psf, gc⟩
  cases vcv <;> cases ell_ht <;>
    (refine bind_congr' _ ?_
     intro vxyz
     refine bind_congr' _ ?_
     rintro ⟨x', y', z', v'⟩
     refine bind_congr' _ ?_
     rintro ⟨lat', lon', h'⟩
     cases v' <;> rfl)

/-! ## The pipeline, step by step

`Run p zone east north ell_ht vcv …` lists the intermediate results of one successful evaluation:
every callee, its arguments, and what it returned. `pipeline_ok_iff` says a successful result of the
pipeline is exactly the last line of such a run (so every later corollary is read off it). -/

/-- one successful evaluation of the pipeline with all intermediate values named -/
def Run (p : Transformation) (zone east north : ℝ) (ell_ht : Option ℝ) (vcv : Option V9)
    (lat lon : ℝ) (vXYZ : Option V9) (x y z x' y' z' : ℝ) (vXYZ' : Option V9)
    (lat' lon' h' : ℝ) (vENU' : Option V9) (zone' east' north' : ℝ) : Prop :=
  ∃ (psf gc : ℝ) (hemi : String) (psf' gc' : ℝ),
    grid2geo zone east north "south" grs80 utm = .ok (lat, lon, psf, gc) ∧
    rotOpt vcv_local2cart_33 vcv lat lon = .ok vXYZ ∧
    llh2xyz lat lon (htIn ell_ht) grs80 = (x, y, z) ∧
    conform7 x y z p vXYZ = .ok (x', y', z', vXYZ') ∧
    xyz2llh x' y' z' grs80 = .ok (lat', lon', h') ∧
    rotOpt vcv_cart2local_33 vXYZ' lat' lon' = .ok vENU' ∧
    geo2grid lat' lon' (0 : ℝ) grs80 utm = .ok (hemi, zone', east', north', psf', gc')

theorem pipeline_of_run {p : Transformation} {zone east north : ℝ} {ell_ht : Option ℝ}
    {vcv : Option V9} {lat lon : ℝ} {vXYZ : Option V9} {x y z x' y' z' : ℝ} {vXYZ' : Option V9}
    {lat' lon' h' : ℝ} {vENU' : Option V9} {zone' east' north' : ℝ}
    (h : Run p zone east north ell_ht vcv lat lon vXYZ x y z x' y' z' vXYZ' lat' lon' h' vENU'
      zone' east' north') :
    mgaPipeline p zone east north ell_ht vcv
      = .ok (zone', east', north', pround 4 (htOut ell_ht h'), vENU') := by
  obtain ⟨psf, gc, hemi, psf', gc', h1, h2, h3, h4, h5, h6, h7⟩ := h
  unfold mgaPipeline
  rw [h1]
  show (do
      let vcvXYZ ← rotOpt vcv_local2cart_33 vcv lat lon
      let (x, y, z) := llh2xyz lat lon (htIn ell_ht) grs80
      let (x', y', z', vcvXYZ') ← conform7 x y z p vcvXYZ
      let (lat', lon', h') ← xyz2llh x' y' z' grs80
      let vcvENU' ← rotOpt vcv_cart2local_33 vcvXYZ' lat' lon'
      let (_hemi, zone', east', north', _psf', _conv') ← geo2grid lat' lon' (0 : ℝ) grs80 utm
      (pure (zone', east', north', pround 4 (htOut ell_ht h'), vcvENU') : Except PyErr MgaOut)) = _
  rw [h2]
  show (do
      let (x, y, z) := llh2xyz lat lon (htIn ell_ht) grs80
      let (x', y', z', vcvXYZ') ← conform7 x y z p vXYZ
      let (lat', lon', h') ← xyz2llh x' y' z' grs80
      let vcvENU' ← rotOpt vcv_cart2local_33 vcvXYZ' lat' lon'
      let (_hemi, zone', east', north', _psf', _conv') ← geo2grid lat' lon' (0 : ℝ) grs80 utm
      (pure (zone', east', north', pround 4 (htOut ell_ht h'), vcvENU') : Except PyErr MgaOut)) = _
  rw [h3]
  show (do
      let (x', y', z', vcvXYZ') ← conform7 x y z p vXYZ
      let (lat', lon', h') ← xyz2llh x' y' z' grs80
      let vcvENU' ← rotOpt vcv_cart2local_33 vcvXYZ' lat' lon'
      let (_hemi, zone', east', north', _psf', _conv') ← geo2grid lat' lon' (0 : ℝ) grs80 utm
      (pure (zone', east', north', pround 4 (htOut ell_ht h'), vcvENU') : Except PyErr MgaOut)) = _
  rw [h4]
  show (do
      let (lat', lon', h') ← xyz2llh x' y' z' grs80
      let vcvENU' ← rotOpt vcv_cart2local_33 vXYZ' lat' lon'
      let (_hemi, zone', east', north', _psf', _conv') ← geo2grid lat' lon' (0 : ℝ) grs80 utm
      (pure (zone', east', north', pround 4 (htOut ell_ht h'), vcvENU') : Except PyErr MgaOut)) = _
  rw [h5]
  show (do
      let vcvENU' ← rotOpt vcv_cart2local_33 vXYZ' lat' lon'
      let (_hemi, zone', east', north', _psf', _conv') ← geo2grid lat' lon' (0 : ℝ) grs80 utm
      (pure (zone', east', north', pround 4 (htOut ell_ht h'), vcvENU') : Except PyErr MgaOut)) = _
  rw [h6]
  show (do
      let (_hemi, zone', east', north', _psf', _conv') ← geo2grid lat' lon' (0 : ℝ) grs80 utm
      (pure (zone', east', north', pround 4 (htOut ell_ht h'), vENU') : Except PyErr MgaOut)) = _
  rw [h7]
  rfl

theorem run_of_pipeline {p : Transformation} {zone east north : ℝ} {ell_ht : Option ℝ}
    {vcv : Option V9} {r : MgaOut} (h : mgaPipeline p zone east north ell_ht vcv = .ok r) :
    ∃ lat lon vXYZ x y z x' y' z' vXYZ' lat' lon' h' vENU' zone' east' north',
      Run p zone east north ell_ht vcv lat lon vXYZ x y z x' y' z' vXYZ' lat' lon' h' vENU'
        zone' east' north' ∧
      r = (zone', east', north', pround 4 (htOut ell_ht h'), vENU') := by
  unfold mgaPipeline at h
  obtain ⟨⟨lat, lon, psf, gc⟩, h1, h⟩ := (bind_ok_iff _ _ _).1 h
  obtain ⟨vXYZ, h2, h⟩ := (bind_ok_iff _ _ _).1 h
  obtain ⟨⟨x', y', z', vXYZ'⟩, h4, h⟩ := (bind_ok_iff _ _ _).1 h
  obtain ⟨⟨lat', lon', h'⟩, h5, h⟩ := (bind_ok_iff _ _ _).1 h
  obtain ⟨vENU', h6, h⟩ := (bind_ok_iff _ _ _).1 h
  obtain ⟨⟨hemi, zone', east', north', psf', gc'⟩, h7, h⟩ := (bind_ok_iff _ _ _).1 h
  refine ⟨lat, lon, vXYZ, _, _, _, x', y', z', vXYZ', lat', lon', h', vENU', zone', east', north',
    ⟨psf, gc, hemi, psf', gc', h1, h2, rfl, h4, h5, h6, h7⟩, ?_⟩
  exact (Except.ok.inj h).symm

/-- a successful result of the pipeline is exactly the last line of a run -/
theorem pipeline_ok_iff (p : Transformation) (zone east north : ℝ) (ell_ht : Option ℝ)
    (vcv : Option V9) (r : MgaOut) :
    mgaPipeline p zone east north ell_ht vcv = .ok r ↔
    ∃ lat lon vXYZ x y z x' y' z' vXYZ' lat' lon' h' vENU' zone' east' north',
      Run p zone east north ell_ht vcv lat lon vXYZ x y z x' y' z' vXYZ' lat' lon' h' vENU'
        zone' east' north' ∧
      r = (zone', east', north', pround 4 (htOut ell_ht h'), vENU') := by
  constructor
  · exact run_of_pipeline
  · rintro ⟨lat, lon, vXYZ, x, y, z, x', y', z', vXYZ', lat', lon', h', vENU', zone', east', north',
      hrun, rfl⟩
    exact pipeline_of_run hrun

/-- the same, for the generated functions -/
theorem transform_94_to_2020_ok_iff (zone east north : ℝ) (ell_ht : Option ℝ) (vcv : Option V9)
    (r : MgaOut) :
    transform_mga94_to_mga2020 zone east north ell_ht vcv = .ok r ↔
    ∃ lat lon vXYZ x y z x' y' z' vXYZ' lat' lon' h' vENU' zone' east' north',
      Run gda94_to_gda2020 zone east north ell_ht vcv lat lon vXYZ x y z x' y' z' vXYZ'
        lat' lon' h' vENU' zone' east' north' ∧
      r = (zone', east', north', pround 4 (htOut ell_ht h'), vENU') := by
  rw [pipeline_94_to_2020]; exact pipeline_ok_iff _ _ _ _ _ _ _

theorem transform_2020_to_94_ok_iff (zone east north : ℝ) (ell_ht : Option ℝ) (vcv : Option V9)
    (r : MgaOut) :
    transform_mga2020_to_mga94 zone east north ell_ht vcv = .ok r ↔
    ∃ lat lon vXYZ x y z x' y' z' vXYZ' lat' lon' h' vENU' zone' east' north',
      Run (Transformation.neg gda94_to_gda2020) zone east north ell_ht vcv lat lon vXYZ x y z
        x' y' z' vXYZ' lat' lon' h' vENU' zone' east' north' ∧
      r = (zone', east', north', pround 4 (htOut ell_ht h'), vENU') := by
  rw [pipeline_2020_to_94]; exact pipeline_ok_iff _ _ _ _ _ _ _

/-! ## 2. Absent height versus the number 0 -/

theorem pround_zero (n : ℕ) : pround n 0 = 0 := by
  simp [pround, roundHalfEven]

/-- `ell_ht = False`: the height fed to `llh2xyz` is `0` … -/
theorem htIn_none : htIn none = 0 := rfl
/-- … and a supplied height (including the number `0`) is passed through unchanged. -/
theorem htIn_some (h : ℝ) : htIn (some h) = h := rfl
theorem htOut_none (h' : ℝ) : htOut none h' = 0 := rfl
theorem htOut_some (h h' : ℝ) : htOut (some h) h' = h' := rfl

/-- replace the height component of a result by `0` -/
def zeroHeight (r : MgaOut) : MgaOut := (r.1, r.2.1, r.2.2.1, 0, r.2.2.2.2)

theorem bind_map_congr {α β γ : Type} (x : Except PyErr α) {f : α → Except PyErr γ}
    {f' : α → Except PyErr β} (g : β → γ) (h : ∀ a, f a = Except.map g (f' a)) :
    Except.bind x f = Except.map g (Except.bind x f') := by
  cases x with
  | error e => rfl
  | ok a => exact h a

/-- Without an input height the computation is the one for the point ON the ellipsoid (height `0`
fed to `llh2xyz`), and the only difference in the result is that the returned height is replaced by
exactly `0`: zone, easting, northing and covariance are those of the height-0 point (and the same
exception is raised if any step raises). -/
theorem pipeline_height_absent (p : Transformation) (zone east north : ℝ) (vcv : Option V9) :
    mgaPipeline p zone east north none vcv
      = (mgaPipeline p zone east north (some 0) vcv).map zeroHeight := by
  unfold mgaPipeline
  refine bind_map_congr _ _ ?_; rintro ⟨lat, lon, psf, gc⟩
  refine bind_map_congr _ _ ?_; intro vx
  refine bind_map_congr _ _ ?_; rintro ⟨x', y', z', v'⟩
  refine bind_map_congr _ _ ?_; rintro ⟨lat', lon', h'⟩
  refine bind_map_congr _ _ ?_; intro vE
  refine bind_map_congr _ _ ?_; rintro ⟨hemi, zone', e', n', psf', gc'⟩
  simp only [Except.map, zeroHeight, htOut_none, pround_zero, pure, Except.pure]

/-- **height_absent**, MGA94 → MGA2020.
(a) without a height the result is that of the height-0 point with the height replaced by `0`;
(b) hence the returned height is exactly `0`;
(c) with the NUMBER `0` supplied (`some 0`, Python `0 is False` is false) the returned height is the
    transformed height `round(h', 4)`, `h'` the third component of `xyz2llh`, not forced to `0`. -/
theorem height_absent (zone east north : ℝ) (vcv : Option V9) :
    transform_mga94_to_mga2020 zone east north none vcv
        = (transform_mga94_to_mga2020 zone east north (some 0) vcv).map zeroHeight
    ∧ (∀ r, transform_mga94_to_mga2020 zone east north none vcv = .ok r → r.2.2.2.1 = 0)
    ∧ (∀ r, transform_mga94_to_mga2020 zone east north (some 0) vcv = .ok r →
        ∃ lat lon vXYZ x y z x' y' z' vXYZ' lat' lon' h' vENU' zone' east' north',
          Run gda94_to_gda2020 zone east north (some 0) vcv lat lon vXYZ x y z x' y' z' vXYZ'
            lat' lon' h' vENU' zone' east' north' ∧
          llh2xyz lat lon 0 grs80 = (x, y, z) ∧
          xyz2llh x' y' z' grs80 = .ok (lat', lon', h') ∧
          r.2.2.2.1 = pround 4 h') := by
  refine ⟨?_, ?_, ?_⟩
  · rw [pipeline_94_to_2020, pipeline_94_to_2020]; exact pipeline_height_absent _ _ _ _ _
  · intro r hr
    obtain ⟨lat, lon, vXYZ, x, y, z, x', y', z', vXYZ', lat', lon', h', vENU', zone', east', north',
      -, rfl⟩ := (transform_94_to_2020_ok_iff _ _ _ _ _ _).1 hr
    exact pround_zero 4
  · intro r hr
    obtain ⟨lat, lon, vXYZ, x, y, z, x', y', z', vXYZ', lat', lon', h', vENU', zone', east', north',
      hrun, rfl⟩ := (transform_94_to_2020_ok_iff _ _ _ _ _ _).1 hr
    obtain ⟨psf, gc, hemi, psf', gc', h1, h2, h3, h4, h5, h6, h7⟩ := id hrun
    exact ⟨lat, lon, vXYZ, x, y, z, x', y', z', vXYZ', lat', lon', h', vENU', zone', east', north',
      hrun, h3, h5, rfl⟩

/-- **height_absent**, MGA2020 → MGA94 (same three clauses). -/
theorem height_absent_2020_to_94 (zone east north : ℝ) (vcv : Option V9) :
    transform_mga2020_to_mga94 zone east north none vcv
        = (transform_mga2020_to_mga94 zone east north (some 0) vcv).map zeroHeight
    ∧ (∀ r, transform_mga2020_to_mga94 zone east north none vcv = .ok r → r.2.2.2.1 = 0)
    ∧ (∀ r, transform_mga2020_to_mga94 zone east north (some 0) vcv = .ok r →
        ∃ lat lon vXYZ x y z x' y' z' vXYZ' lat' lon' h' vENU' zone' east' north',
          Run (Transformation.neg gda94_to_gda2020) zone east north (some 0) vcv lat lon vXYZ x y z
            x' y' z' vXYZ' lat' lon' h' vENU' zone' east' north' ∧
          llh2xyz lat lon 0 grs80 = (x, y, z) ∧
          xyz2llh x' y' z' grs80 = .ok (lat', lon', h') ∧
          r.2.2.2.1 = pround 4 h') := by
  refine ⟨?_, ?_, ?_⟩
  · rw [pipeline_2020_to_94, pipeline_2020_to_94]; exact pipeline_height_absent _ _ _ _ _
  · intro r hr
    obtain ⟨lat, lon, vXYZ, x, y, z, x', y', z', vXYZ', lat', lon', h', vENU', zone', east', north',
      -, rfl⟩ := (transform_2020_to_94_ok_iff _ _ _ _ _ _).1 hr
    exact pround_zero 4
  · intro r hr
    obtain ⟨lat, lon, vXYZ, x, y, z, x', y', z', vXYZ', lat', lon', h', vENU', zone', east', north',
      hrun, rfl⟩ := (transform_2020_to_94_ok_iff _ _ _ _ _ _).1 hr
    obtain ⟨psf, gc, hemi, psf', gc', h1, h2, h3, h4, h5, h6, h7⟩ := id hrun
    exact ⟨lat, lon, vXYZ, x, y, z, x', y', z', vXYZ', lat', lon', h', vENU', zone', east', north',
      hrun, h3, h5, rfl⟩

/-- a supplied height `h` (any number) is the one used, and the returned height is
`round(h', 4)` of the transformed height -/
theorem height_supplied (p : Transformation) (zone east north h : ℝ) (vcv : Option V9) (r : MgaOut)
    (hr : mgaPipeline p zone east north (some h) vcv = .ok r) :
    ∃ lat lon vXYZ x y z x' y' z' vXYZ' lat' lon' h' vENU' zone' east' north',
      Run p zone east north (some h) vcv lat lon vXYZ x y z x' y' z' vXYZ'
        lat' lon' h' vENU' zone' east' north' ∧
      llh2xyz lat lon h grs80 = (x, y, z) ∧ r.2.2.2.1 = pround 4 h' := by
  obtain ⟨lat, lon, vXYZ, x, y, z, x', y', z', vXYZ', lat', lon', h', vENU', zone', east', north',
    hrun, rfl⟩ := run_of_pipeline hr
  obtain ⟨psf, gc, hemi, psf', gc', h1, h2, h3, h4, h5, h6, h7⟩ := id hrun
  exact ⟨lat, lon, vXYZ, x, y, z, x', y', z', vXYZ', lat', lon', h', vENU', zone', east', north',
    hrun, h3, rfl⟩

/-! ## 3. The output zone is the natural zone of the transformed position -/

/-- The zone argument handed to `geo2grid` is the literal `0` (automatic zone), NOT the input zone:
the returned zone/easting/northing are components 2–4 of
`geo2grid lat' lon' 0 grs80 utm` at the transformed geographic position `(lat', lon')`. -/
theorem natural_zone_pipeline (p : Transformation) (zone east north : ℝ) (ell_ht : Option ℝ)
    (vcv : Option V9) (r : MgaOut) (hr : mgaPipeline p zone east north ell_ht vcv = .ok r) :
    ∃ lat lon vXYZ x y z x' y' z' vXYZ' lat' lon' h' vENU' zone' east' north',
      Run p zone east north ell_ht vcv lat lon vXYZ x y z x' y' z' vXYZ'
        lat' lon' h' vENU' zone' east' north' ∧
      xyz2llh x' y' z' grs80 = .ok (lat', lon', h') ∧
      ∃ g, geo2grid lat' lon' (0 : ℝ) grs80 utm = .ok g ∧
        r.1 = g.2.1 ∧ r.2.1 = g.2.2.1 ∧ r.2.2.1 = g.2.2.2.1 := by
  obtain ⟨lat, lon, vXYZ, x, y, z, x', y', z', vXYZ', lat', lon', h', vENU', zone', east', north',
    hrun, rfl⟩ := run_of_pipeline hr
  obtain ⟨psf, gc, hemi, psf', gc', h1, h2, h3, h4, h5, h6, h7⟩ := id hrun
  exact ⟨lat, lon, vXYZ, x, y, z, x', y', z', vXYZ', lat', lon', h', vENU', zone', east', north',
    hrun, h5, _, h7, rfl, rfl, rfl⟩

theorem natural_zone (zone east north : ℝ) (ell_ht : Option ℝ) (vcv : Option V9) (r : MgaOut)
    (hr : transform_mga94_to_mga2020 zone east north ell_ht vcv = .ok r) :
    ∃ lat lon vXYZ x y z x' y' z' vXYZ' lat' lon' h' vENU' zone' east' north',
      Run gda94_to_gda2020 zone east north ell_ht vcv lat lon vXYZ x y z x' y' z' vXYZ'
        lat' lon' h' vENU' zone' east' north' ∧
      xyz2llh x' y' z' grs80 = .ok (lat', lon', h') ∧
      ∃ g, geo2grid lat' lon' (0 : ℝ) grs80 utm = .ok g ∧
        r.1 = g.2.1 ∧ r.2.1 = g.2.2.1 ∧ r.2.2.1 = g.2.2.2.1 :=
  natural_zone_pipeline _ _ _ _ _ _ _ (by rw [← pipeline_94_to_2020]; exact hr)

theorem natural_zone_2020_to_94 (zone east north : ℝ) (ell_ht : Option ℝ) (vcv : Option V9)
    (r : MgaOut) (hr : transform_mga2020_to_mga94 zone east north ell_ht vcv = .ok r) :
    ∃ lat lon vXYZ x y z x' y' z' vXYZ' lat' lon' h' vENU' zone' east' north',
      Run (Transformation.neg gda94_to_gda2020) zone east north ell_ht vcv lat lon vXYZ x y z
        x' y' z' vXYZ' lat' lon' h' vENU' zone' east' north' ∧
      xyz2llh x' y' z' grs80 = .ok (lat', lon', h') ∧
      ∃ g, geo2grid lat' lon' (0 : ℝ) grs80 utm = .ok g ∧
        r.1 = g.2.1 ∧ r.2.1 = g.2.2.1 ∧ r.2.2.1 = g.2.2.2.1 :=
  natural_zone_pipeline _ _ _ _ _ _ _ (by rw [← pipeline_2020_to_94]; exact hr)

/-! ## 5. The reverse direction uses exactly the negated parameters -/

/-- `Transformation.__neg__`: datum names swapped, reference epoch and uncertainties kept, all 14
parameters negated -/
theorem neg_fields (t : Transformation) :
    (Transformation.neg t).from_datum = t.to_datum ∧ (Transformation.neg t).to_datum = t.from_datum ∧
    (Transformation.neg t).ref_epoch = t.ref_epoch ∧
    (Transformation.neg t).tx = -t.tx ∧ (Transformation.neg t).ty = -t.ty ∧
    (Transformation.neg t).tz = -t.tz ∧ (Transformation.neg t).sc = -t.sc ∧
    (Transformation.neg t).rx = -t.rx ∧ (Transformation.neg t).ry = -t.ry ∧
    (Transformation.neg t).rz = -t.rz ∧
    (Transformation.neg t).d_tx = -t.d_tx ∧ (Transformation.neg t).d_ty = -t.d_ty ∧
    (Transformation.neg t).d_tz = -t.d_tz ∧ (Transformation.neg t).d_sc = -t.d_sc ∧
    (Transformation.neg t).d_rx = -t.d_rx ∧ (Transformation.neg t).d_ry = -t.d_ry ∧
    (Transformation.neg t).d_rz = -t.d_rz ∧
    (Transformation.neg t).tf_sd = t.tf_sd :=
  ⟨rfl, rfl, rfl, rfl, rfl, rfl, rfl, rfl, rfl, rfl, rfl, rfl, rfl, rfl, rfl, rfl, rfl, rfl⟩

/-- the published GDA94→GDA2020 set (GDA2020 Technical Manual v1.2, Table 3.2): translations in m,
scale in ppm, rotations in arc-seconds, no rates -/
theorem gda94_to_gda2020_parameters :
    gda94_to_gda2020.tx = 0.06155 ∧ gda94_to_gda2020.ty = -0.01087 ∧
    gda94_to_gda2020.tz = -0.04019 ∧ gda94_to_gda2020.sc = -0.009994 ∧
    gda94_to_gda2020.rx = -0.0394924 ∧ gda94_to_gda2020.ry = -0.0327221 ∧
    gda94_to_gda2020.rz = -0.0328979 ∧
    gda94_to_gda2020.d_tx = 0 ∧ gda94_to_gda2020.d_ty = 0 ∧ gda94_to_gda2020.d_tz = 0 ∧
    gda94_to_gda2020.d_sc = 0 ∧ gda94_to_gda2020.d_rx = 0 ∧ gda94_to_gda2020.d_ry = 0 ∧
    gda94_to_gda2020.d_rz = 0 := by
  simp only [gda94_to_gda2020, Transformation.init, dec]
  norm_num

/-- **inverse_pair_parameters**: the set used by `transform_mga2020_to_mga94` is exactly the negated
published set (with the same uncertainties). -/
theorem inverse_pair_parameters :
    (Transformation.neg gda94_to_gda2020).tx = -0.06155 ∧
    (Transformation.neg gda94_to_gda2020).ty = 0.01087 ∧
    (Transformation.neg gda94_to_gda2020).tz = 0.04019 ∧
    (Transformation.neg gda94_to_gda2020).sc = 0.009994 ∧
    (Transformation.neg gda94_to_gda2020).rx = 0.0394924 ∧
    (Transformation.neg gda94_to_gda2020).ry = 0.0327221 ∧
    (Transformation.neg gda94_to_gda2020).rz = 0.0328979 ∧
    (Transformation.neg gda94_to_gda2020).tf_sd = gda94_to_gda2020.tf_sd := by
  simp only [Transformation.neg, gda94_to_gda2020, Transformation.init, dec]
  norm_num

/-- the constant `gda2020_to_gda94` of `constants.py` is the same negated set -/
theorem gda2020_to_gda94_eq : gda2020_to_gda94 = Transformation.neg gda94_to_gda2020 := rfl

/-! ## 4. The covariance path -/

/-- both parameter sets carry the published uncertainties -/
theorem gda94_to_gda2020_tf_sd : gda94_to_gda2020.tf_sd = some gda94_to_gda2020_sd := rfl
theorem neg_gda94_to_gda2020_tf_sd :
    (Transformation.neg gda94_to_gda2020).tf_sd = some gda94_to_gda2020_sd := rfl

theorem rotOpt_none (rot : V9 → ℝ → ℝ → Except PyErr V9) (lat lon : ℝ) :
    rotOpt rot none lat lon = .ok none := rfl

theorem rotOpt_some_ok_iff (rot : V9 → ℝ → ℝ → Except PyErr V9) (V : V9) (lat lon : ℝ)
    (w : Option V9) :
    rotOpt rot (some V) lat lon = .ok w ↔ ∃ W, rot V lat lon = .ok W ∧ w = some W := by
  show Except.bind (rot V lat lon) (fun W => Except.ok (some W)) = .ok w ↔ _
  rw [bind_ok_iff]
  constructor
  · rintro ⟨W, h1, h2⟩; exact ⟨W, h1, (Except.ok.inj h2).symm⟩
  · rintro ⟨W, h1, rfl⟩; exact ⟨W, h1, rfl⟩

set_option linter.unusedTactic false in
/-- with a parameter set that carries uncertainties, `conform7` returns a covariance exactly when it
is given one -/
theorem conform7_vcv_none_iff {x y z : ℝ} {p : Transformation} {v : Option V9}
    {r : ℝ × ℝ × ℝ × Option V9} (h : conform7 x y z p v = .ok r) {sd : TransformationSD}
    (hsd : p.tf_sd = some sd) : r.2.2.2 = none ↔ v = none := by
  unfold conform7 at h
  -- peel off any raising steps that precede the final `match` (none in the current code; the
  -- earlier `hp2dec` version had three)
  repeat (replace h := ((bind_ok_iff _ _ _).1 h).choose_spec.2)
  rw [hsd] at h
  cases v with
  | none =>
    obtain rfl := Except.ok.inj h
    exact ⟨fun _ => rfl, fun _ => rfl⟩
  | some W =>
    obtain rfl := Except.ok.inj h
    exact ⟨fun h' => (by cases h'), fun h' => (by cases h')⟩

/-- `conform7` never raises (rotations are converted with `radians(r / 3600)`, no `hp2dec`) -/
theorem conform7_ok (x y z : ℝ) (p : Transformation) (v : Option V9) :
    ∃ r, conform7 x y z p v = .ok r := by
  unfold conform7
  dsimp only
  split <;> exact ⟨_, rfl⟩

/-- the two rotations never raise -/
theorem vcv_local2cart_33_ok (V : V9) (lat lon : ℝ) : ∃ W, vcv_local2cart_33 V lat lon = .ok W :=
  ⟨_, rfl⟩
theorem vcv_cart2local_33_ok (W : V9) (lat lon : ℝ) : ∃ V, vcv_cart2local_33 W lat lon = .ok V :=
  ⟨_, rfl⟩

theorem rotOpt_none_iff {rot : V9 → ℝ → ℝ → Except PyErr V9} {v w : Option V9} {lat lon : ℝ}
    (h : rotOpt rot v lat lon = .ok w) : w = none ↔ v = none := by
  cases v with
  | none =>
    obtain rfl := Except.ok.inj h
    exact ⟨fun _ => rfl, fun _ => rfl⟩
  | some V =>
    obtain ⟨W, -, rfl⟩ := (rotOpt_some_ok_iff _ _ _ _ _).1 h
    exact ⟨fun h' => (by cases h'), fun h' => (by cases h')⟩

/-- **vcv_path** (generic in the parameter set, which must carry uncertainties).
(a) a covariance is returned iff one was supplied;
(b) a supplied `V` is rotated to Cartesian with `vcv_local2cart_33` at the INPUT position
    `(lat, lon)` from `grid2geo`, propagated by `conform7` together with the point, and rotated back
    with `vcv_cart2local_33` at the OUTPUT position `(lat', lon')` from `xyz2llh`. -/
theorem vcv_path_pipeline (p : Transformation) {sd : TransformationSD} (hsd : p.tf_sd = some sd)
    (zone east north : ℝ) (ell_ht : Option ℝ) :
    (∀ (vcv : Option V9) (r : MgaOut), mgaPipeline p zone east north ell_ht vcv = .ok r →
        (r.2.2.2.2 = none ↔ vcv = none)) ∧
    (∀ (V : V9) (r : MgaOut), mgaPipeline p zone east north ell_ht (some V) = .ok r →
      ∃ lat lon psf gc W x y z x' y' z' W' lat' lon' h' V',
        grid2geo zone east north "south" grs80 utm = .ok (lat, lon, psf, gc) ∧
        vcv_local2cart_33 V lat lon = .ok W ∧
        llh2xyz lat lon (htIn ell_ht) grs80 = (x, y, z) ∧
        conform7 x y z p (some W) = .ok (x', y', z', some W') ∧
        xyz2llh x' y' z' grs80 = .ok (lat', lon', h') ∧
        vcv_cart2local_33 W' lat' lon' = .ok V' ∧
        r.2.2.2.2 = some V') := by
  constructor
  · intro vcv r hr
    obtain ⟨lat, lon, vXYZ, x, y, z, x', y', z', vXYZ', lat', lon', h', vENU', zone', east', north',
      hrun, rfl⟩ := run_of_pipeline hr
    obtain ⟨psf, gc, hemi, psf', gc', h1, h2, h3, h4, h5, h6, h7⟩ := hrun
    show vENU' = none ↔ vcv = none
    rw [rotOpt_none_iff h6, ← rotOpt_none_iff h2]
    exact conform7_vcv_none_iff h4 hsd
  · intro V r hr
    obtain ⟨lat, lon, vXYZ, x, y, z, x', y', z', vXYZ', lat', lon', h', vENU', zone', east', north',
      hrun, rfl⟩ := run_of_pipeline hr
    obtain ⟨psf, gc, hemi, psf', gc', h1, h2, h3, h4, h5, h6, h7⟩ := hrun
    obtain ⟨W, hW, rfl⟩ := (rotOpt_some_ok_iff _ _ _ _ _).1 h2
    cases vXYZ' with
    | none =>
      have := (conform7_vcv_none_iff h4 hsd).1 rfl
      cases this
    | some W' =>
      obtain ⟨V', hV', rfl⟩ := (rotOpt_some_ok_iff _ _ _ _ _).1 h6
      exact ⟨lat, lon, psf, gc, W, x, y, z, x', y', z', W', lat', lon', h', V',
        h1, hW, h3, h4, h5, hV', rfl⟩

/-- **vcv_path** for `transform_mga94_to_mga2020` -/
theorem vcv_path (zone east north : ℝ) (ell_ht : Option ℝ) :
    (∀ (vcv : Option V9) (r : MgaOut),
        transform_mga94_to_mga2020 zone east north ell_ht vcv = .ok r →
        (r.2.2.2.2 = none ↔ vcv = none)) ∧
    (∀ (V : V9) (r : MgaOut), transform_mga94_to_mga2020 zone east north ell_ht (some V) = .ok r →
      ∃ lat lon psf gc W x y z x' y' z' W' lat' lon' h' V',
        grid2geo zone east north "south" grs80 utm = .ok (lat, lon, psf, gc) ∧
        vcv_local2cart_33 V lat lon = .ok W ∧
        llh2xyz lat lon (htIn ell_ht) grs80 = (x, y, z) ∧
        conform7 x y z gda94_to_gda2020 (some W) = .ok (x', y', z', some W') ∧
        xyz2llh x' y' z' grs80 = .ok (lat', lon', h') ∧
        vcv_cart2local_33 W' lat' lon' = .ok V' ∧
        r.2.2.2.2 = some V') := by
  have h := vcv_path_pipeline gda94_to_gda2020 gda94_to_gda2020_tf_sd zone east north ell_ht
  simp only [← pipeline_94_to_2020] at h
  exact h

/-- **vcv_path** for `transform_mga2020_to_mga94` -/
theorem vcv_path_2020_to_94 (zone east north : ℝ) (ell_ht : Option ℝ) :
    (∀ (vcv : Option V9) (r : MgaOut),
        transform_mga2020_to_mga94 zone east north ell_ht vcv = .ok r →
        (r.2.2.2.2 = none ↔ vcv = none)) ∧
    (∀ (V : V9) (r : MgaOut), transform_mga2020_to_mga94 zone east north ell_ht (some V) = .ok r →
      ∃ lat lon psf gc W x y z x' y' z' W' lat' lon' h' V',
        grid2geo zone east north "south" grs80 utm = .ok (lat, lon, psf, gc) ∧
        vcv_local2cart_33 V lat lon = .ok W ∧
        llh2xyz lat lon (htIn ell_ht) grs80 = (x, y, z) ∧
        conform7 x y z (Transformation.neg gda94_to_gda2020) (some W) = .ok (x', y', z', some W') ∧
        xyz2llh x' y' z' grs80 = .ok (lat', lon', h') ∧
        vcv_cart2local_33 W' lat' lon' = .ok V' ∧
        r.2.2.2.2 = some V') := by
  have h := vcv_path_pipeline (Transformation.neg gda94_to_gda2020) neg_gda94_to_gda2020_tf_sd
    zone east north ell_ht
  simp only [← pipeline_2020_to_94] at h
  exact h

end

end GeodeVerif.C13

#print axioms GeodeVerif.C13.pipeline_94_to_2020
#print axioms GeodeVerif.C13.pipeline_2020_to_94
#print axioms GeodeVerif.C13.height_absent
#print axioms GeodeVerif.C13.natural_zone
#print axioms GeodeVerif.C13.vcv_path
#print axioms GeodeVerif.C13.vcv_path_2020_to_94
#print axioms GeodeVerif.C13.inverse_pair_parameters
