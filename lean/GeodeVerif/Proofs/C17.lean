import GeodeVerif.Model.Ntv2
import Mathlib.Tactic.Ring
import Mathlib.Tactic.Linarith
import Mathlib.Tactic.FieldSimp
import Mathlib.Tactic.NormNum
import Mathlib.Tactic.Positivity
import Mathlib.Algebra.Order.Floor.Ring
import Mathlib.Data.Rat.Floor
/-!
# C17 — NTv2 grid files (theorems about the hand model `GeodeVerif/Model/Ntv2.lean`)

The model follows the PATCHED reader (`tools/proposed_fixes/C17-{1,2,3}.diff`). The generic
definitions (`bilinearPoly`, `bicubicPoly`, `cellOf`, `cellXY`, `containing`, `finest`, `locate`,
`applyShift`, `ntv2_2dOf`) are the ones the driver executes at `Float`; here they are instantiated
at a field `K` / at `ℚ` (`qops`). The node addressing (`readBilinearNodes`, `readBicubicNodes`) is
integer/byte arithmetic and is proved about the executed definitions themselves.
-/
namespace GeodeVerif.C17
open Ntv2

/-! ## 1. Bilinear interpolation -/

/-- C17.4 the code's formula is the bilinear blend of the four nodes, in the order the code reads
them: n₁ = (row, col), n₂ = (row, col+1), n₃ = (row+1, col), n₄ = (row+1, col+1);
`x` along columns, `y` along rows. -/
theorem bilinear_blend {K : Type} [Field K] (n1 n2 n3 n4 x y : K) :
    bilinearPoly n1 n2 n3 n4 x y =
      (1 - x) * (1 - y) * n1 + x * (1 - y) * n2 + (1 - x) * y * n3 + x * y * n4 := by
  unfold bilinearPoly; ring

/-- at the four corners of the cell the node value is returned -/
theorem bilinear_at_node {K : Type} [Field K] (n1 n2 n3 n4 : K) :
    bilinearPoly n1 n2 n3 n4 0 0 = n1 ∧ bilinearPoly n1 n2 n3 n4 1 0 = n2 ∧
    bilinearPoly n1 n2 n3 n4 0 1 = n3 ∧ bilinearPoly n1 n2 n3 n4 1 1 = n4 := by
  unfold bilinearPoly; refine ⟨?_, ?_, ?_, ?_⟩ <;> ring

/-- a field linear in the cell coordinates (`u` along columns, `v` along rows) is reproduced -/
theorem bilinear_reproduces_linear {K : Type} [Field K] (a b c x y : K) :
    let f : K → K → K := fun u v => a + b * u + c * v
    bilinearPoly (f 0 0) (f 1 0) (f 0 1) (f 1 1) x y = f x y := by
  intro f; simp only [f]; unfold bilinearPoly; ring

/-- more generally every field `a + b u + c v + d u v` is reproduced (the blend is exact for
bilinear fields, which is why it cannot be exact for bi-quadratic ones) -/
theorem bilinear_reproduces_bilinear {K : Type} [Field K] (a b c d x y : K) :
    let f : K → K → K := fun u v => a + b * u + c * v + d * u * v
    bilinearPoly (f 0 0) (f 1 0) (f 0 1) (f 1 1) x y = f x y := by
  intro f; simp only [f]; unfold bilinearPoly; ring

/-- the bilinear fall-back used in the outer ring does NOT reproduce bi-quadratic fields:
for `f = u²` the value at the cell centre is 1/2 instead of 1/4 -/
theorem bilinear_not_biquadratic :
    ¬ ∀ x y : ℚ, let f : ℚ → ℚ → ℚ := fun u _ => u ^ 2
      bilinearPoly (f 0 0) (f 1 0) (f 0 1) (f 1 1) x y = f x y := by
  intro h
  have := h (1 / 2) (1 / 2)
  simp only [bilinearPoly] at this
  norm_num at this

/-! ## 2. Bicubic interpolation -/

section bicubic
variable {K : Type} [Field K]

/-- the instance of `bicubicPoly` the theorems are about: exact arithmetic in a field -/
def bicubicK (n1 n2 n3 n4 n5 n6 n7 n8 n9 n10 n11 n12 n13 n14 n15 n16 x y : K) : K :=
  bicubicPoly (fun i : Int => (i : K)) (fun (a : K) (n : Nat) => a ^ n)
    n1 n2 n3 n4 n5 n6 n7 n8 n9 n10 n11 n12 n13 n14 n15 n16 x y

/-- the sixteen coefficients `alpha = cinv · xarr` -/
def alphaK (n1 n2 n3 n4 n5 n6 n7 n8 n9 n10 n11 n12 n13 n14 n15 n16 : K) : List K :=
  cinv.map (fun r => dotRow (fun i : Int => (i : K)) r
    (bicubicXarr (fun i : Int => (i : K)) n1 n2 n3 n4 n5 n6 n7 n8 n9 n10 n11 n12 n13 n14 n15 n16))

end bicubic

/-- unfold the list plumbing of `bicubicPoly` into a closed arithmetic expression -/
macro "unfold_bicubic" : tactic => `(tactic|
  (simp only [bicubicK, alphaK, bicubicPoly, bicubicXarr, cinv, dotRow, expPairs, List.map_cons,
    List.map_nil, List.zipWith_cons_cons, List.zipWith_nil_right, List.foldl_cons, List.foldl_nil,
    List.zip_cons_cons, List.zip_nil_right]
   push_cast))

section bicubic_thms
variable {K : Type} [Field K]

/-- C17.6 at the four corners of the cell the node value is returned; corners in the code's
numbering: 1 = (row, col), 2 = (row, col+1), 3 = (row+1, col+1), 4 = (row+1, col) -/
theorem bicubic_at_node (n1 n2 n3 n4 n5 n6 n7 n8 n9 n10 n11 n12 n13 n14 n15 n16 : K) :
    bicubicK n1 n2 n3 n4 n5 n6 n7 n8 n9 n10 n11 n12 n13 n14 n15 n16 0 0 = n1 ∧
    bicubicK n1 n2 n3 n4 n5 n6 n7 n8 n9 n10 n11 n12 n13 n14 n15 n16 1 0 = n2 ∧
    bicubicK n1 n2 n3 n4 n5 n6 n7 n8 n9 n10 n11 n12 n13 n14 n15 n16 1 1 = n3 ∧
    bicubicK n1 n2 n3 n4 n5 n6 n7 n8 n9 n10 n11 n12 n13 n14 n15 n16 0 1 = n4 := by
  refine ⟨?_, ?_, ?_, ?_⟩ <;> unfold_bicubic <;> ring

/-- the bi-quadratic field with nine free coefficients, `u` along columns, `v` along rows -/
def biquad (c00 c01 c02 c10 c11 c12 c20 c21 c22 u v : K) : K :=
  c00 + c01 * v + c02 * v ^ 2 + c10 * u + c11 * u * v + c12 * u * v ^ 2 + c20 * u ^ 2
    + c21 * u ^ 2 * v + c22 * u ^ 2 * v ^ 2

set_option maxHeartbeats 1000000 in
private theorem bicubic_biquad_aux [CharZero K] (c00 c01 c02 c10 c11 c12 c20 c21 c22 x y : K) :
    bicubicK (biquad c00 c01 c02 c10 c11 c12 c20 c21 c22 0 0)
      (biquad c00 c01 c02 c10 c11 c12 c20 c21 c22 1 0)
      (biquad c00 c01 c02 c10 c11 c12 c20 c21 c22 1 1)
      (biquad c00 c01 c02 c10 c11 c12 c20 c21 c22 0 1)
      (biquad c00 c01 c02 c10 c11 c12 c20 c21 c22 (-1) (-1))
      (biquad c00 c01 c02 c10 c11 c12 c20 c21 c22 0 (-1))
      (biquad c00 c01 c02 c10 c11 c12 c20 c21 c22 1 (-1))
      (biquad c00 c01 c02 c10 c11 c12 c20 c21 c22 2 (-1))
      (biquad c00 c01 c02 c10 c11 c12 c20 c21 c22 2 0)
      (biquad c00 c01 c02 c10 c11 c12 c20 c21 c22 2 1)
      (biquad c00 c01 c02 c10 c11 c12 c20 c21 c22 2 2)
      (biquad c00 c01 c02 c10 c11 c12 c20 c21 c22 1 2)
      (biquad c00 c01 c02 c10 c11 c12 c20 c21 c22 0 2)
      (biquad c00 c01 c02 c10 c11 c12 c20 c21 c22 (-1) 2)
      (biquad c00 c01 c02 c10 c11 c12 c20 c21 c22 (-1) 1)
      (biquad c00 c01 c02 c10 c11 c12 c20 c21 c22 (-1) 0) x y
    = biquad c00 c01 c02 c10 c11 c12 c20 c21 c22 x y := by
  simp only [biquad]
  unfold_bicubic
  ring

/-- C17.6 **bicubic interpolation reproduces every bi-quadratic field** (all nine coefficients
free) when the sixteen stencil values are the field's values at the stencil nodes, in the
positions the interpolator's parameters assume: node k at (u, v) =
1:(0,0) 2:(1,0) 3:(1,1) 4:(0,1) 5:(-1,-1) 6:(0,-1) 7:(1,-1) 8:(2,-1) 9:(2,0) 10:(2,1) 11:(2,2)
12:(1,2) 13:(0,2) 14:(-1,2) 15:(-1,1) 16:(-1,0). -/
theorem bicubic_reproduces_biquadratic [CharZero K]
    (c00 c01 c02 c10 c11 c12 c20 c21 c22 x y : K) :
    let f := biquad c00 c01 c02 c10 c11 c12 c20 c21 c22
    bicubicK (f 0 0) (f 1 0) (f 1 1) (f 0 1) (f (-1) (-1)) (f 0 (-1)) (f 1 (-1)) (f 2 (-1))
      (f 2 0) (f 2 1) (f 2 2) (f 1 2) (f 0 2) (f (-1) 2) (f (-1) 1) (f (-1) 0) x y = f x y := by
  intro f
  exact bicubic_biquad_aux c00 c01 c02 c10 c11 c12 c20 c21 c22 x y

/-- in particular every field linear in the cell coordinates is reproduced -/
theorem bicubic_reproduces_linear [CharZero K] (a b c x y : K) :
    let f : K → K → K := fun u v => a + b * u + c * v
    bicubicK (f 0 0) (f 1 0) (f 1 1) (f 0 1) (f (-1) (-1)) (f 0 (-1)) (f 1 (-1)) (f 2 (-1))
      (f 2 0) (f 2 1) (f 2 2) (f 1 2) (f 0 2) (f (-1) 2) (f (-1) 1) (f (-1) 0) x y = f x y := by
  intro f
  simp only [f]
  unfold_bicubic
  ring

end bicubic_thms

/-! ### `cinv` is the inverse of the Hermite basis matrix -/

/-- corners of the cell in the order of `xarr`: nodes 1, 2, 3, 4 as `(x, y)` -/
def corners : List (Int × Int) := [(0, 0), (1, 0), (1, 1), (0, 1)]
/-- formal derivative of `a ^ i` with respect to `a` -/
def dpow (a : Int) (i : Nat) : Int := (i : Int) * a ^ (i - 1)
/-- the Hermite basis matrix: row `k` is the `k`-th functional (value, ∂x, ∂y, ∂x∂y at the four
corners) applied to the monomials `x^i y^j` in the order `alpha[i*4+j]` -/
def hermiteC : List (List Int) :=
  (corners.map fun p => expPairs.map fun e => p.1 ^ e.1 * p.2 ^ e.2) ++
  (corners.map fun p => expPairs.map fun e => dpow p.1 e.1 * p.2 ^ e.2) ++
  (corners.map fun p => expPairs.map fun e => p.1 ^ e.1 * dpow p.2 e.2) ++
  (corners.map fun p => expPairs.map fun e => dpow p.1 e.1 * dpow p.2 e.2)

def matMul (A B : List (List Int)) : List (List Int) :=
  A.map fun r => (List.range 16).map fun c =>
    (List.zipWith (· * ·) r (B.map (·.getD c 0))).foldl (· + ·) 0

def ident16 : List (List Int) :=
  (List.range 16).map fun i => (List.range 16).map fun j => if i = j then 1 else 0

/-- C17.6 `cinv · C = I` over ℤ -/
theorem cinv_mul_hermite : matMul cinv hermiteC = ident16 := by decide
/-- and `C · cinv = I` -/
theorem hermite_mul_cinv : matMul hermiteC cinv = ident16 := by decide

theorem hermiteC_eq : hermiteC =
  [[1, 0, 0, 0, 0, 0, 0, 0, 0, 0, 0, 0, 0, 0, 0, 0], [1, 0, 0, 0, 1, 0, 0, 0, 1, 0, 0, 0, 1, 0, 0, 0],
   [1, 1, 1, 1, 1, 1, 1, 1, 1, 1, 1, 1, 1, 1, 1, 1], [1, 1, 1, 1, 0, 0, 0, 0, 0, 0, 0, 0, 0, 0, 0, 0],
   [0, 0, 0, 0, 1, 0, 0, 0, 0, 0, 0, 0, 0, 0, 0, 0], [0, 0, 0, 0, 1, 0, 0, 0, 2, 0, 0, 0, 3, 0, 0, 0],
   [0, 0, 0, 0, 1, 1, 1, 1, 2, 2, 2, 2, 3, 3, 3, 3], [0, 0, 0, 0, 1, 1, 1, 1, 0, 0, 0, 0, 0, 0, 0, 0],
   [0, 1, 0, 0, 0, 0, 0, 0, 0, 0, 0, 0, 0, 0, 0, 0], [0, 1, 0, 0, 0, 1, 0, 0, 0, 1, 0, 0, 0, 1, 0, 0],
   [0, 1, 2, 3, 0, 1, 2, 3, 0, 1, 2, 3, 0, 1, 2, 3], [0, 1, 2, 3, 0, 0, 0, 0, 0, 0, 0, 0, 0, 0, 0, 0],
   [0, 0, 0, 0, 0, 1, 0, 0, 0, 0, 0, 0, 0, 0, 0, 0], [0, 0, 0, 0, 0, 1, 0, 0, 0, 2, 0, 0, 0, 3, 0, 0],
   [0, 0, 0, 0, 0, 1, 2, 3, 0, 2, 4, 6, 0, 3, 6, 9], [0, 0, 0, 0, 0, 1, 2, 3, 0, 0, 0, 0, 0, 0, 0, 0]] := by
  decide

/-- C17.6 **`bicubic_interpolation` is the bicubic Hermite interpolant**: the polynomial
`Σ alpha[i*4+j] xⁱ yʲ` has, at the four corners, the node values and the central-difference
x-, y- and cross-derivatives collected in `xarr` (`C · alpha = xarr`, the formal derivatives being
those of `hermiteC`). -/
theorem bicubic_hermite {K : Type} [Field K] [CharZero K]
    (n1 n2 n3 n4 n5 n6 n7 n8 n9 n10 n11 n12 n13 n14 n15 n16 : K) :
    hermiteC.map (fun r => dotRow (fun i : Int => (i : K)) r
        (alphaK n1 n2 n3 n4 n5 n6 n7 n8 n9 n10 n11 n12 n13 n14 n15 n16)) =
      bicubicXarr (fun i : Int => (i : K)) n1 n2 n3 n4 n5 n6 n7 n8 n9 n10 n11 n12 n13 n14 n15 n16 := by
  rw [hermiteC_eq]
  unfold_bicubic
  simp only [List.cons.injEq, and_true]
  refine ⟨?_, ?_, ?_, ?_, ?_, ?_, ?_, ?_, ?_, ?_, ?_, ?_, ?_, ?_, ?_, ?_⟩ <;> ring

end GeodeVerif.C17
