import GeodeVerif.Model.Ntv2
import Mathlib.Tactic.Ring
import Mathlib.Tactic.Linarith
import Mathlib.Tactic.FieldSimp
import Mathlib.Tactic.NormNum
import Mathlib.Tactic.Positivity
import Mathlib.Algebra.Order.Floor.Ring
import Mathlib.Data.Rat.Floor
import Mathlib.Data.List.Perm.Basic
/-!
# C17 — NTv2 grid files (theorems about the hand model `GeodeVerif/Model/Ntv2.lean`)

The model follows the PATCHED reader (`tools/proposed_fixes/C17-{1,2,3}.diff`). The generic
definitions (`bilinearPoly`, `bicubicPoly`, `cellOf`, `cellXY`, `containing`, `finest`, `locate`,
`applyShift`, `ntv2_2dOf`) are the ones the driver executes at `Float`; here they are instantiated
at a field `K` / at `ℚ` (`qops`). The node addressing (`readBilinearNodes`, `readBicubicNodes`) is
integer/byte arithmetic and is proved about the executed definitions themselves.

1. bilinear: `bilinear_blend`, `bilinear_at_node`, `bilinear_reproduces_linear`,
   `bilinear_reproduces_bilinear`, `bilinear_not_biquadratic` (why the fall-back cannot serve the
   bi-quadratic clause in the outer ring)
2. bicubic: `bicubic_at_node`, `bicubic_reproduces_biquadratic`, `bicubic_reproduces_linear`,
   `cinv_mul_hermite`, `hermite_mul_cinv`, `bicubic_hermite`
3. sub-grid choice: `finest_min`, `finest_subgrid`, `finest_order_independent`
4. outside / checks / signs: `interpolate_outside`, `interpolate_bad_method` (executed `Float`
   definitions), `ntv2_2d_outside`, `ntv2_2d_type_error`, `ntv2_2d_bad_method`, `ntv2_2d_propagates`,
   `ntv2_2d_value`, `shift_signs`, `shift_reverse_forward`
5. `data_offset`, `data_offset_176`, `locate_none`
6. `cellOf_bounds` (any arithmetic, so also the `Float` run), `row_col` (ℚ)
7. node addressing: `seekRel_ok`, `seekRel_neg`, `readNode_ok`, `readNode_short`, `bilinear_nodes`,
   `bicubic_nodes`, `index_range`, `stencil_inside_iff`, `cell_inside`, `bilinear_reads_in_subgrid`,
   `bicubic_reads_in_subgrid`; the defect of the unchanged reader: `bicubic_ring_fails`,
   `bicubic_ring_raises`
8. fields in latitude/longitude over ℚ: `cellXY_spec`, `cellXY_unit`, `bilinear_linear_field`,
   `bicubic_linear_field`

Not here: `header_roundtrip` and `rounding_budget` of DESIGN §6 (both are statements about binary64
decoding / `round`, which are opaque `Float` operations in Lean; they are covered by the
correspondence harness and the probe only).
-/
namespace GeodeVerif.C17
open Ntv2

/-! ## 1. Bilinear interpolation -/

/-- C17.4 the code's formula is the bilinear blend of the four nodes, in the order the code reads
them: n₁ = (row, col), n₂ = (row, col+1), n₃ = (row+1, col), n₄ = (row+1, col+1);
`x` along columns, `y` along rows. -/
theorem bilinear_blend {K : Type} [Field K] (n1 n2 n3 n4 x y : K) :
    bilinearPoly n1 n2 n3 n4 x y =
      (1 - x) * (1 - y) * n1 + x * (1 - y) * n2 + (1 - x) * y * n3 + x * y * n4 := by
  unfold bilinearPoly; ring

/-- at the four corners of the cell the node value is returned -/
theorem bilinear_at_node {K : Type} [Field K] (n1 n2 n3 n4 : K) :
    bilinearPoly n1 n2 n3 n4 0 0 = n1 ∧ bilinearPoly n1 n2 n3 n4 1 0 = n2 ∧
    bilinearPoly n1 n2 n3 n4 0 1 = n3 ∧ bilinearPoly n1 n2 n3 n4 1 1 = n4 := by
  unfold bilinearPoly; refine ⟨?_, ?_, ?_, ?_⟩ <;> ring

/-- a field linear in the cell coordinates (`u` along columns, `v` along rows) is reproduced -/
theorem bilinear_reproduces_linear {K : Type} [Field K] (a b c x y : K) :
    let f : K → K → K := fun u v => a + b * u + c * v
    bilinearPoly (f 0 0) (f 1 0) (f 0 1) (f 1 1) x y = f x y := by
  intro f; simp only [f]; unfold bilinearPoly; ring

/-- more generally every field `a + b u + c v + d u v` is reproduced (the blend is exact for
bilinear fields, which is why it cannot be exact for bi-quadratic ones) -/
theorem bilinear_reproduces_bilinear {K : Type} [Field K] (a b c d x y : K) :
    let f : K → K → K := fun u v => a + b * u + c * v + d * u * v
    bilinearPoly (f 0 0) (f 1 0) (f 0 1) (f 1 1) x y = f x y := by
  intro f; simp only [f]; unfold bilinearPoly; ring

/-- the bilinear fall-back used in the outer ring does NOT reproduce bi-quadratic fields:
for `f = u²` the value at the cell centre is 1/2 instead of 1/4 -/
theorem bilinear_not_biquadratic :
    ¬ ∀ x y : ℚ, let f : ℚ → ℚ → ℚ := fun u _ => u ^ 2
      bilinearPoly (f 0 0) (f 1 0) (f 0 1) (f 1 1) x y = f x y := by
  intro h
  have := h (1 / 2) (1 / 2)
  simp only [bilinearPoly] at this
  norm_num at this

/-! ## 2. Bicubic interpolation -/

section bicubic
variable {K : Type} [Field K]

/-- the instance of `bicubicPoly` the theorems are about: exact arithmetic in a field -/
def bicubicK (n1 n2 n3 n4 n5 n6 n7 n8 n9 n10 n11 n12 n13 n14 n15 n16 x y : K) : K :=
  bicubicPoly (fun i : Int => (i : K)) (fun (a : K) (n : Nat) => a ^ n)
    n1 n2 n3 n4 n5 n6 n7 n8 n9 n10 n11 n12 n13 n14 n15 n16 x y

/-- the sixteen coefficients `alpha = cinv · xarr` -/
def alphaK (n1 n2 n3 n4 n5 n6 n7 n8 n9 n10 n11 n12 n13 n14 n15 n16 : K) : List K :=
  cinv.map (fun r => dotRow (fun i : Int => (i : K)) r
    (bicubicXarr (fun i : Int => (i : K)) n1 n2 n3 n4 n5 n6 n7 n8 n9 n10 n11 n12 n13 n14 n15 n16))

end bicubic

/-- unfold the list plumbing of `bicubicPoly` into a closed arithmetic expression -/
macro "unfold_bicubic" : tactic => `(tactic|
  (simp only [bicubicK, alphaK, bicubicPoly, bicubicXarr, cinv, dotRow, expPairs, List.map_cons,
    List.map_nil, List.zipWith_cons_cons, List.zipWith_nil_right, List.foldl_cons, List.foldl_nil,
    List.zip_cons_cons, List.zip_nil_right]
   push_cast))

section bicubic_thms
variable {K : Type} [Field K]

/-- C17.6 at the four corners of the cell the node value is returned; corners in the code's
numbering: 1 = (row, col), 2 = (row, col+1), 3 = (row+1, col+1), 4 = (row+1, col) -/
theorem bicubic_at_node (n1 n2 n3 n4 n5 n6 n7 n8 n9 n10 n11 n12 n13 n14 n15 n16 : K) :
    bicubicK n1 n2 n3 n4 n5 n6 n7 n8 n9 n10 n11 n12 n13 n14 n15 n16 0 0 = n1 ∧
    bicubicK n1 n2 n3 n4 n5 n6 n7 n8 n9 n10 n11 n12 n13 n14 n15 n16 1 0 = n2 ∧
    bicubicK n1 n2 n3 n4 n5 n6 n7 n8 n9 n10 n11 n12 n13 n14 n15 n16 1 1 = n3 ∧
    bicubicK n1 n2 n3 n4 n5 n6 n7 n8 n9 n10 n11 n12 n13 n14 n15 n16 0 1 = n4 := by
  refine ⟨?_, ?_, ?_, ?_⟩ <;> unfold_bicubic <;> ring

/-- the bi-quadratic field with nine free coefficients, `u` along columns, `v` along rows -/
def biquad (c00 c01 c02 c10 c11 c12 c20 c21 c22 u v : K) : K :=
  c00 + c01 * v + c02 * v ^ 2 + c10 * u + c11 * u * v + c12 * u * v ^ 2 + c20 * u ^ 2
    + c21 * u ^ 2 * v + c22 * u ^ 2 * v ^ 2

set_option maxHeartbeats 1000000 in
private theorem bicubic_biquad_aux [CharZero K] (c00 c01 c02 c10 c11 c12 c20 c21 c22 x y : K) :
    bicubicK (biquad c00 c01 c02 c10 c11 c12 c20 c21 c22 0 0)
      (biquad c00 c01 c02 c10 c11 c12 c20 c21 c22 1 0)
      (biquad c00 c01 c02 c10 c11 c12 c20 c21 c22 1 1)
      (biquad c00 c01 c02 c10 c11 c12 c20 c21 c22 0 1)
      (biquad c00 c01 c02 c10 c11 c12 c20 c21 c22 (-1) (-1))
      (biquad c00 c01 c02 c10 c11 c12 c20 c21 c22 0 (-1))
      (biquad c00 c01 c02 c10 c11 c12 c20 c21 c22 1 (-1))
      (biquad c00 c01 c02 c10 c11 c12 c20 c21 c22 2 (-1))
      (biquad c00 c01 c02 c10 c11 c12 c20 c21 c22 2 0)
      (biquad c00 c01 c02 c10 c11 c12 c20 c21 c22 2 1)
      (biquad c00 c01 c02 c10 c11 c12 c20 c21 c22 2 2)
      (biquad c00 c01 c02 c10 c11 c12 c20 c21 c22 1 2)
      (biquad c00 c01 c02 c10 c11 c12 c20 c21 c22 0 2)
      (biquad c00 c01 c02 c10 c11 c12 c20 c21 c22 (-1) 2)
      (biquad c00 c01 c02 c10 c11 c12 c20 c21 c22 (-1) 1)
      (biquad c00 c01 c02 c10 c11 c12 c20 c21 c22 (-1) 0) x y
    = biquad c00 c01 c02 c10 c11 c12 c20 c21 c22 x y := by
  simp only [biquad]
  unfold_bicubic
  ring

/-- C17.6 **bicubic interpolation reproduces every bi-quadratic field** (all nine coefficients
free) when the sixteen stencil values are the field's values at the stencil nodes, in the
positions the interpolator's parameters assume: node k at (u, v) =
1:(0,0) 2:(1,0) 3:(1,1) 4:(0,1) 5:(-1,-1) 6:(0,-1) 7:(1,-1) 8:(2,-1) 9:(2,0) 10:(2,1) 11:(2,2)
12:(1,2) 13:(0,2) 14:(-1,2) 15:(-1,1) 16:(-1,0). -/
theorem bicubic_reproduces_biquadratic [CharZero K]
    (c00 c01 c02 c10 c11 c12 c20 c21 c22 x y : K) :
    let f := biquad c00 c01 c02 c10 c11 c12 c20 c21 c22
    bicubicK (f 0 0) (f 1 0) (f 1 1) (f 0 1) (f (-1) (-1)) (f 0 (-1)) (f 1 (-1)) (f 2 (-1))
      (f 2 0) (f 2 1) (f 2 2) (f 1 2) (f 0 2) (f (-1) 2) (f (-1) 1) (f (-1) 0) x y = f x y := by
  intro f
  exact bicubic_biquad_aux c00 c01 c02 c10 c11 c12 c20 c21 c22 x y

/-- in particular every field linear in the cell coordinates is reproduced -/
theorem bicubic_reproduces_linear [CharZero K] (a b c x y : K) :
    let f : K → K → K := fun u v => a + b * u + c * v
    bicubicK (f 0 0) (f 1 0) (f 1 1) (f 0 1) (f (-1) (-1)) (f 0 (-1)) (f 1 (-1)) (f 2 (-1))
      (f 2 0) (f 2 1) (f 2 2) (f 1 2) (f 0 2) (f (-1) 2) (f (-1) 1) (f (-1) 0) x y = f x y := by
  intro f
  simp only [f]
  unfold_bicubic
  ring

end bicubic_thms

/-! ### `cinv` is the inverse of the Hermite basis matrix -/

/-- corners of the cell in the order of `xarr`: nodes 1, 2, 3, 4 as `(x, y)` -/
def corners : List (Int × Int) := [(0, 0), (1, 0), (1, 1), (0, 1)]
/-- formal derivative of `a ^ i` with respect to `a` -/
def dpow (a : Int) (i : Nat) : Int := (i : Int) * a ^ (i - 1)
/-- the Hermite basis matrix: row `k` is the `k`-th functional (value, ∂x, ∂y, ∂x∂y at the four
corners) applied to the monomials `x^i y^j` in the order `alpha[i*4+j]` -/
def hermiteC : List (List Int) :=
  (corners.map fun p => expPairs.map fun e => p.1 ^ e.1 * p.2 ^ e.2) ++
  (corners.map fun p => expPairs.map fun e => dpow p.1 e.1 * p.2 ^ e.2) ++
  (corners.map fun p => expPairs.map fun e => p.1 ^ e.1 * dpow p.2 e.2) ++
  (corners.map fun p => expPairs.map fun e => dpow p.1 e.1 * dpow p.2 e.2)

def matMul (A B : List (List Int)) : List (List Int) :=
  A.map fun r => (List.range 16).map fun c =>
    (List.zipWith (· * ·) r (B.map (·.getD c 0))).foldl (· + ·) 0

def ident16 : List (List Int) :=
  (List.range 16).map fun i => (List.range 16).map fun j => if i = j then 1 else 0

/-- C17.6 `cinv · C = I` over ℤ -/
theorem cinv_mul_hermite : matMul cinv hermiteC = ident16 := by decide
/-- and `C · cinv = I` -/
theorem hermite_mul_cinv : matMul hermiteC cinv = ident16 := by decide

theorem hermiteC_eq : hermiteC =
  [[1, 0, 0, 0, 0, 0, 0, 0, 0, 0, 0, 0, 0, 0, 0, 0], [1, 0, 0, 0, 1, 0, 0, 0, 1, 0, 0, 0, 1, 0, 0, 0],
   [1, 1, 1, 1, 1, 1, 1, 1, 1, 1, 1, 1, 1, 1, 1, 1], [1, 1, 1, 1, 0, 0, 0, 0, 0, 0, 0, 0, 0, 0, 0, 0],
   [0, 0, 0, 0, 1, 0, 0, 0, 0, 0, 0, 0, 0, 0, 0, 0], [0, 0, 0, 0, 1, 0, 0, 0, 2, 0, 0, 0, 3, 0, 0, 0],
   [0, 0, 0, 0, 1, 1, 1, 1, 2, 2, 2, 2, 3, 3, 3, 3], [0, 0, 0, 0, 1, 1, 1, 1, 0, 0, 0, 0, 0, 0, 0, 0],
   [0, 1, 0, 0, 0, 0, 0, 0, 0, 0, 0, 0, 0, 0, 0, 0], [0, 1, 0, 0, 0, 1, 0, 0, 0, 1, 0, 0, 0, 1, 0, 0],
   [0, 1, 2, 3, 0, 1, 2, 3, 0, 1, 2, 3, 0, 1, 2, 3], [0, 1, 2, 3, 0, 0, 0, 0, 0, 0, 0, 0, 0, 0, 0, 0],
   [0, 0, 0, 0, 0, 1, 0, 0, 0, 0, 0, 0, 0, 0, 0, 0], [0, 0, 0, 0, 0, 1, 0, 0, 0, 2, 0, 0, 0, 3, 0, 0],
   [0, 0, 0, 0, 0, 1, 2, 3, 0, 2, 4, 6, 0, 3, 6, 9], [0, 0, 0, 0, 0, 1, 2, 3, 0, 0, 0, 0, 0, 0, 0, 0]] := by
  decide

/-- C17.6 **`bicubic_interpolation` is the bicubic Hermite interpolant**: the polynomial
`Σ alpha[i*4+j] xⁱ yʲ` has, at the four corners, the node values and the central-difference
x-, y- and cross-derivatives collected in `xarr` (`C · alpha = xarr`, the formal derivatives being
those of `hermiteC`). -/
theorem bicubic_hermite {K : Type} [Field K] [CharZero K]
    (n1 n2 n3 n4 n5 n6 n7 n8 n9 n10 n11 n12 n13 n14 n15 n16 : K) :
    hermiteC.map (fun r => dotRow (fun i : Int => (i : K)) r
        (alphaK n1 n2 n3 n4 n5 n6 n7 n8 n9 n10 n11 n12 n13 n14 n15 n16)) =
      bicubicXarr (fun i : Int => (i : K)) n1 n2 n3 n4 n5 n6 n7 n8 n9 n10 n11 n12 n13 n14 n15 n16 := by
  rw [hermiteC_eq]
  unfold_bicubic
  simp only [List.cons.injEq, and_true]
  refine ⟨?_, ?_, ?_, ?_, ?_, ?_, ?_, ?_, ?_, ?_, ?_, ?_, ?_, ?_, ?_, ?_⟩ <;> ring

/-! ## 3. Sub-grid choice -/

/-- Python `round(x)` (half to even) on a rational -/
def roundHalfEven (q : ℚ) : ℤ :=
  if q - ⌊q⌋ < 1 / 2 then ⌊q⌋
  else if 1 / 2 < q - ⌊q⌋ then ⌊q⌋ + 1
  else if ⌊q⌋ % 2 = 0 then ⌊q⌋ else ⌊q⌋ + 1

/-- exact rational arithmetic: what the `Float` primitives approximate -/
def qops : Ops ℚ where
  ofInt := fun i => (i : ℚ)
  pw := fun a n => a ^ n
  truncI := fun q => .ok (if 0 ≤ q then ⌊q⌋ else ⌈q⌉)
  roundI := fun q => .ok (roundHalfEven q)
  isZero := fun q => decide (q = 0)
  le := fun a b => decide (a ≤ b)
  lt := fun a b => decide (a < b)

theorem roundHalfEven_int (k : ℤ) : roundHalfEven (k : ℚ) = k := by
  simp [roundHalfEven]

theorem mem_containing {subs : List (SubGrid ℚ)} {lat lon : ℚ} {sg : SubGrid ℚ} :
    sg ∈ containing qops subs lat lon ↔
      sg ∈ subs ∧ sg.sLat ≤ lat ∧ lat < sg.nLat ∧ sg.eLong ≤ lon ∧ lon < sg.wLong := by
  simp [containing, contains, qops, and_assoc]

/-- invariant of the selection loop once a first candidate has been taken -/
private theorem finest_fold (l : List (SubGrid ℚ)) (g : SubGrid ℚ)
    (hg : g.latInc ≠ 0) (hl : ∀ x ∈ l, x.latInc ≠ 0) :
    ∃ r, (l.foldl (finestStep qops) (some g.latInc, some g)).2 = some r ∧ (r = g ∨ r ∈ l) ∧
      r.latInc ≤ g.latInc ∧ ∀ x ∈ l, r.latInc ≤ x.latInc := by
  induction l generalizing g with
  | nil => exact ⟨g, rfl, Or.inl rfl, le_refl _, by simp⟩
  | cons a t ih =>
    have ha : a.latInc ≠ 0 := hl a (by simp)
    have ht : ∀ x ∈ t, x.latInc ≠ 0 := fun x hx => hl x (by simp [hx])
    simp only [List.foldl_cons]
    by_cases hlt : a.latInc < g.latInc
    · have hstep : finestStep qops (some g.latInc, some g) a = (some a.latInc, some a) := by
        simp [finestStep, qops, hg, hlt]
      rw [hstep]
      obtain ⟨r, hr, hmem, hle, hall⟩ := ih a ha ht
      refine ⟨r, hr, ?_, le_trans hle (le_of_lt hlt), ?_⟩
      · rcases hmem with h | h
        · exact Or.inr (by simp [h])
        · exact Or.inr (by simp [h])
      · intro x hx
        rcases List.mem_cons.mp hx with h | h
        · rw [h]; exact hle
        · exact hall x h
    · have hstep : finestStep qops (some g.latInc, some g) a = (some g.latInc, some g) := by
        simp [finestStep, qops, hg, hlt]
      rw [hstep]
      obtain ⟨r, hr, hmem, hle, hall⟩ := ih g hg ht
      refine ⟨r, hr, ?_, hle, ?_⟩
      · rcases hmem with h | h
        · exact Or.inl h
        · exact Or.inr (by simp [h])
      · intro x hx
        rcases List.mem_cons.mp hx with h | h
        · rw [h]; exact le_trans hle (not_lt.mp hlt)
        · exact hall x h

/-- C17.8 the loop returns a candidate whose latitude increment is minimal (increments non-zero) -/
theorem finest_min (cands : List (SubGrid ℚ)) (hne : cands ≠ [])
    (hinc : ∀ x ∈ cands, x.latInc ≠ 0) :
    ∃ r, finest qops cands = some r ∧ r ∈ cands ∧ ∀ x ∈ cands, r.latInc ≤ x.latInc := by
  cases cands with
  | nil => exact absurd rfl hne
  | cons a t =>
    have ha : a.latInc ≠ 0 := hinc a (by simp)
    have ht : ∀ x ∈ t, x.latInc ≠ 0 := fun x hx => hinc x (by simp [hx])
    obtain ⟨r, hr, hmem, hle, hall⟩ := finest_fold t a ha ht
    refine ⟨r, ?_, ?_, ?_⟩
    · simpa [finest, finestStep] using hr
    · rcases hmem with h | h
      · simp [h]
      · simp [h]
    · intro x hx
      rcases List.mem_cons.mp hx with h | h
      · rw [h]; exact hle
      · exact hall x h

theorem finest_nil {α : Type} (ops : Ops α) : finest ops ([] : List (SubGrid α)) = none := rfl

/-- C17.8 **finest sub-grid**: for any iteration order `perm` of the candidate set, the sub-grid
used contains the point and no containing sub-grid has a smaller latitude increment; when the
containing sub-grids have pairwise distinct increments the choice is the same for every order. -/
theorem finest_subgrid (subs : List (SubGrid ℚ)) (lat lon : ℚ)
    (perm : List (SubGrid ℚ) → List (SubGrid ℚ))
    (hperm : (perm (containing qops subs lat lon)).Perm (containing qops subs lat lon))
    (hinc : ∀ x ∈ subs, x.latInc ≠ 0)
    (hne : containing qops subs lat lon ≠ []) :
    ∃ r, finest qops (perm (containing qops subs lat lon)) = some r ∧
      r ∈ subs ∧ (r.sLat ≤ lat ∧ lat < r.nLat ∧ r.eLong ≤ lon ∧ lon < r.wLong) ∧
      ∀ x ∈ subs, (x.sLat ≤ lat ∧ lat < x.nLat ∧ x.eLong ≤ lon ∧ lon < x.wLong) →
        r.latInc ≤ x.latInc := by
  have hne' : perm (containing qops subs lat lon) ≠ [] := by
    intro h; rw [h] at hperm; exact hne (List.Perm.nil_eq hperm).symm
  have hinc' : ∀ x ∈ perm (containing qops subs lat lon), x.latInc ≠ 0 := by
    intro x hx
    exact hinc x (mem_containing.mp (hperm.mem_iff.mp hx)).1
  obtain ⟨r, hr, hmem, hmin⟩ := finest_min _ hne' hinc'
  have hr' := mem_containing.mp (hperm.mem_iff.mp hmem)
  refine ⟨r, hr, hr'.1, hr'.2, ?_⟩
  intro x hx hcx
  exact hmin x (hperm.mem_iff.mpr (mem_containing.mpr ⟨hx, hcx⟩))

/-- order independence: with pairwise distinct increments among the containing sub-grids, two
iteration orders give the same sub-grid -/
theorem finest_order_independent (subs : List (SubGrid ℚ)) (lat lon : ℚ)
    (p1 p2 : List (SubGrid ℚ) → List (SubGrid ℚ))
    (h1 : (p1 (containing qops subs lat lon)).Perm (containing qops subs lat lon))
    (h2 : (p2 (containing qops subs lat lon)).Perm (containing qops subs lat lon))
    (hinc : ∀ x ∈ subs, x.latInc ≠ 0)
    (hdist : ∀ x ∈ containing qops subs lat lon, ∀ y ∈ containing qops subs lat lon,
      x.latInc = y.latInc → x = y) :
    finest qops (p1 (containing qops subs lat lon)) = finest qops (p2 (containing qops subs lat lon)) := by
  by_cases hne : containing qops subs lat lon = []
  · have e1 : p1 (containing qops subs lat lon) = [] := by
      rw [hne] at h1 ⊢; exact List.Perm.eq_nil h1
    have e2 : p2 (containing qops subs lat lon) = [] := by
      rw [hne] at h2 ⊢; exact List.Perm.eq_nil h2
    rw [hne] at e1 e2 ⊢
    rw [e1, e2]
  · obtain ⟨r1, hr1, hm1, hc1, hmin1⟩ := finest_subgrid subs lat lon p1 h1 hinc hne
    obtain ⟨r2, hr2, hm2, hc2, hmin2⟩ := finest_subgrid subs lat lon p2 h2 hinc hne
    have hle1 := hmin1 r2 hm2 hc2
    have hle2 := hmin2 r1 hm1 hc1
    have : r1 = r2 := hdist r1 (mem_containing.mpr ⟨hm1, hc1⟩) r2 (mem_containing.mpr ⟨hm2, hc2⟩)
      (le_antisymm hle1 hle2)
    rw [hr1, hr2, this]

/-! ## 4. Outside every sub-grid; method and type checks; sign of the shifts -/

/-- C17.9 (executed `Float` definition) no sub-grid contains the point ⇒ `interpolate_ntv2` returns
the four `None`s, whatever the bytes of the file and the iteration order -/
theorem interpolate_outside (b : ByteArray) (g : Grid Float) (lat lon : Float) (method : String)
    (perm : List (SubGrid Float) → List (SubGrid Float)) (hperm : perm [] = [])
    (hm : method = "bicubic" ∨ method = "bilinear")
    (hout : containing fops g.subgrids (lat * 3600.0) (lon * (-3600.0)) = []) :
    interpolate b g lat lon method perm = .ok none := by
  have hm' : (method != "bicubic" && method != "bilinear") = false := by
    rcases hm with h | h <;> simp [h]
  simp [interpolate, plan, hm', hout, hperm, finest_nil, bind, Except.bind, pure, Except.pure]

/-- unsupported method ⇒ `ValueError`, before anything else is looked at -/
theorem interpolate_bad_method (b : ByteArray) (g : Grid Float) (lat lon : Float) (method : String)
    (perm : List (SubGrid Float) → List (SubGrid Float))
    (hm : method ≠ "bicubic" ∧ method ≠ "bilinear") :
    interpolate b g lat lon method perm = .error .ValueError := by
  have hm' : (method != "bicubic" && method != "bilinear") = true := by
    simp [hm.1, hm.2]
  simp [interpolate, plan, hm', bind, Except.bind, throw, throwThe, MonadExceptOf.throw]

section twod
variable {α : Type} [Add α] [Sub α] [Mul α] [Div α] (ops : Ops α)

/-- C17.9 `ntv2_2d`: four `None`s ⇒ `ValueError` -/
theorem ntv2_2d_outside (method : String) (hm : method = "bicubic" ∨ method = "bilinear")
    (lat lon : α) (fwd : Bool) :
    ntv2_2dOf ops true method (.ok none) lat lon fwd = .error .ValueError := by
  have hm' : (method != "bicubic" && method != "bilinear") = false := by
    rcases hm with h | h <;> simp [h]
  simp [ntv2_2dOf, hm', bind, Except.bind, throw, throwThe, MonadExceptOf.throw]

/-- wrong grid type ⇒ `TypeError` (checked first) -/
theorem ntv2_2d_type_error (method : String) (i : Except Err (Option (α × α × α × α)))
    (lat lon : α) (fwd : Bool) :
    ntv2_2dOf ops false method i lat lon fwd = .error .TypeError := by
  simp [ntv2_2dOf, bind, Except.bind, throw, throwThe, MonadExceptOf.throw]

/-- unsupported method ⇒ `ValueError` -/
theorem ntv2_2d_bad_method (method : String) (hm : method ≠ "bicubic" ∧ method ≠ "bilinear")
    (i : Except Err (Option (α × α × α × α))) (lat lon : α) (fwd : Bool) :
    ntv2_2dOf ops true method i lat lon fwd = .error .ValueError := by
  have hm' : (method != "bicubic" && method != "bilinear") = true := by simp [hm.1, hm.2]
  simp [ntv2_2dOf, hm', bind, Except.bind, throw, throwThe, MonadExceptOf.throw]

/-- an exception of the interpolation propagates -/
theorem ntv2_2d_propagates (method : String) (hm : method = "bicubic" ∨ method = "bilinear")
    (e : Err) (lat lon : α) (fwd : Bool) :
    ntv2_2dOf ops true method (.error e) lat lon fwd = .error e := by
  have hm' : (method != "bicubic" && method != "bilinear") = false := by
    rcases hm with h | h <;> simp [h]
  simp [ntv2_2dOf, hm', bind, Except.bind]

/-- with four values the result is `applyShift` of the first two -/
theorem ntv2_2d_value (method : String) (hm : method = "bicubic" ∨ method = "bilinear")
    (s : α × α × α × α) (lat lon : α) (fwd : Bool) :
    ntv2_2dOf ops true method (.ok (some s)) lat lon fwd = .ok (applyShift ops lat lon s.1 s.2.1 fwd) := by
  have hm' : (method != "bicubic" && method != "bilinear") = false := by
    rcases hm with h | h <;> simp [h]
  simp [ntv2_2dOf, hm', bind, Except.bind, pure, Except.pure]
end twod

/-- C17.10 **sign and unit of the shifts**: forward adds the latitude shift and subtracts the
positive-west longitude shift (arc-seconds → degrees); reverse does the opposite -/
theorem shift_signs (lat lon s0 s1 : ℚ) :
    applyShift qops lat lon s0 s1 true = (lat + s0 / 3600, lon - s1 / 3600) ∧
    applyShift qops lat lon s0 s1 false = (lat - s0 / 3600, lon + s1 / 3600) := by
  simp [applyShift, qops]

/-- reverse undoes forward when the same shifts are applied -/
theorem shift_reverse_forward (lat lon s0 s1 : ℚ) :
    let p := applyShift qops lat lon s0 s1 true
    applyShift qops p.1 p.2 s0 s1 false = (lat, lon) := by
  simp [applyShift, qops]

/-! ## 5. Byte offset of a sub-grid's first node -/

/-- bytes occupied by a list of sub-grids: 11 header records and the nodes, each -/
def blockBytes {α : Type} (l : List (SubGrid α)) : Nat :=
  (l.map fun sg => 176 + sg.gsCount * 16).sum

/-- C17.2 **data offset**, by induction over the sub-grid list: when the loop reaches the first
sub-grid called `name` it has accumulated the overview header (the initial 176), the header and
nodes of every preceding sub-grid, and this sub-grid's own header. -/
theorem data_offset {α : Type} (name : String) (pre : List (SubGrid α)) (sg : SubGrid α)
    (post : List (SubGrid α)) (skip : Nat)
    (hpre : ∀ x ∈ pre, x.subName ≠ name) (hsg : sg.subName = name) :
    locate name (pre ++ sg :: post) skip = some (skip + blockBytes pre + 176) := by
  induction pre generalizing skip with
  | nil => simp [locate, hsg, blockBytes]
  | cons a t ih =>
    have ha : a.subName ≠ name := hpre a (by simp)
    have ht : ∀ x ∈ t, x.subName ≠ name := fun x hx => hpre x (by simp [hx])
    simp only [List.cons_append, locate, beq_iff_eq, ha, if_false]
    rw [ih _ ht]
    simp only [blockBytes, List.map_cons, List.sum_cons]
    congr 1; omega

/-- the value used by `interpolate_ntv2` (initial `skip_bytes = 176`): the offset of the first node
of sub-grid number `k` in a well-formed file, `176 + Σ_{j<k} (176 + 16·count_j) + 176` -/
theorem data_offset_176 {α : Type} (name : String) (pre : List (SubGrid α)) (sg : SubGrid α)
    (post : List (SubGrid α)) (hpre : ∀ x ∈ pre, x.subName ≠ name) (hsg : sg.subName = name) :
    locate name (pre ++ sg :: post) 176 = some (176 + blockBytes pre + 176) :=
  data_offset name pre sg post 176 hpre hsg

/-- no sub-grid of that name ⇒ the loop never calls the interpolator (`UnboundLocalError` in the
model's `plan`; cannot happen for a name taken from the dict itself) -/
theorem locate_none {α : Type} (name : String) (l : List (SubGrid α)) (skip : Nat)
    (h : ∀ x ∈ l, x.subName ≠ name) : locate name l skip = none := by
  induction l generalizing skip with
  | nil => rfl
  | cons a t ih =>
    have ha : a.subName ≠ name := h a (by simp)
    simp only [locate, beq_iff_eq, ha, if_false]
    exact ih _ (fun x hx => h x (by simp [hx]))

/-! ## 6. Row / column arithmetic -/

/-- whatever the arithmetic (in particular for the executed `Float` instance): the patched
`interpolate_ntv2` never leaves the last cell, and uses the bicubic reader only where the 4×4
stencil fits inside the sub-grid -/
theorem cellOf_bounds {α : Type} [Add α] [Sub α] [Mul α] [Div α] (ops : Ops α) (sg : SubGrid α)
    (lat lon : α) (wb : Bool) (c : Cell) (h : cellOf ops sg lat lon wb = .ok c) :
    c.row ≤ c.numRows - 2 ∧ c.col ≤ c.numCols - 2 ∧
    (c.bicubic = true → wb = true ∧ 1 ≤ c.row ∧ c.row ≤ c.numRows - 3 ∧ 1 ≤ c.col ∧ c.col ≤ c.numCols - 3) := by
  unfold cellOf at h
  simp only [bind, Except.bind, pure, Except.pure, throw, throwThe, MonadExceptOf.throw] at h
  by_cases h1 : ops.isZero sg.longInc = true
  · simp [h1] at h
  simp only [h1, if_false, Bool.false_eq_true] at h
  cases hA : ops.roundI ((sg.wLong - sg.eLong) / sg.longInc) with
  | error e => simp [hA] at h
  | ok nc =>
    simp only [hA] at h
    by_cases h2 : ops.isZero sg.latInc = true
    · simp [h2] at h
    simp only [h2, if_false, Bool.false_eq_true] at h
    cases hB : ops.truncI ((lat - sg.sLat) / sg.latInc) with
    | error e => simp [hB] at h
    | ok r =>
      cases hC : ops.truncI ((lon - sg.eLong) / sg.longInc) with
      | error e => simp [hB, hC] at h
      | ok cc =>
        cases hD : ops.roundI ((sg.nLat - sg.sLat) / sg.latInc) with
        | error e => simp [hB, hC, hD] at h
        | ok nr =>
          simp only [hB, hC, hD, Except.ok.injEq] at h
          subst h
          simp only [stencilFits, Bool.and_eq_true, decide_eq_true_eq]
          refine ⟨min_le_right _ _, min_le_right _ _, ?_⟩
          rintro ⟨hw, ⟨⟨h1, h2⟩, h3⟩, h4⟩
          exact ⟨hw, h1, h2, h3, h4⟩

/-- C17.3 **row / column** over ℚ: for a sub-grid whose extents are whole multiples of its
(positive) increments, `nrows × ncols` nodes, and a point with `s ≤ lat < n`, `e ≤ lon < w`
(arc-seconds, positive west): `num_cols = ncols`, `num_rows = nrows`, `row = ⌊(lat−s)/Δφ⌋`,
`col = ⌊(lon−e)/Δλ⌋` (the clamps do nothing), `0 ≤ row ≤ nrows−2`, `0 ≤ col ≤ ncols−2`, the point
lies in the cell, and bicubic is used iff it was asked for and the stencil fits. -/
theorem row_col (sg : SubGrid ℚ) (nrows ncols : ℕ) (lat lon : ℚ) (wb : Bool)
    (hdlat : 0 < sg.latInc) (hdlon : 0 < sg.longInc)
    (hn : sg.nLat = sg.sLat + ((nrows : ℚ) - 1) * sg.latInc)
    (hw : sg.wLong = sg.eLong + ((ncols : ℚ) - 1) * sg.longInc)
    (hlat : sg.sLat ≤ lat ∧ lat < sg.nLat) (hlon : sg.eLong ≤ lon ∧ lon < sg.wLong) :
    let row := ⌊(lat - sg.sLat) / sg.latInc⌋
    let col := ⌊(lon - sg.eLong) / sg.longInc⌋
    cellOf qops sg lat lon wb =
      .ok { numCols := ncols, numRows := nrows, row := row, col := col,
            bicubic := wb && stencilFits nrows ncols row col } ∧
    0 ≤ row ∧ row ≤ (nrows : ℤ) - 2 ∧ 0 ≤ col ∧ col ≤ (ncols : ℤ) - 2 ∧
    sg.sLat + row * sg.latInc ≤ lat ∧ lat < sg.sLat + (row + 1) * sg.latInc ∧
    sg.eLong + col * sg.longInc ≤ lon ∧ lon < sg.eLong + (col + 1) * sg.longInc := by
  intro row col
  have hqr : 0 ≤ (lat - sg.sLat) / sg.latInc := div_nonneg (by linarith [hlat.1]) hdlat.le
  have hqc : 0 ≤ (lon - sg.eLong) / sg.longInc := div_nonneg (by linarith [hlon.1]) hdlon.le
  have hqr' : (lat - sg.sLat) / sg.latInc < (nrows : ℚ) - 1 := by
    rw [div_lt_iff₀ hdlat]; linarith [hlat.2]
  have hqc' : (lon - sg.eLong) / sg.longInc < (ncols : ℚ) - 1 := by
    rw [div_lt_iff₀ hdlon]; linarith [hlon.2]
  have hrow0 : 0 ≤ row := Int.floor_nonneg.mpr hqr
  have hcol0 : 0 ≤ col := Int.floor_nonneg.mpr hqc
  have hrow1 : row ≤ (nrows : ℤ) - 2 := by
    have : row < (nrows : ℤ) - 1 := by
      rw [Int.floor_lt]; push_cast; exact hqr'
    omega
  have hcol1 : col ≤ (ncols : ℤ) - 2 := by
    have : col < (ncols : ℤ) - 1 := by
      rw [Int.floor_lt]; push_cast; exact hqc'
    omega
  have hnc : (sg.wLong - sg.eLong) / sg.longInc = (((ncols : ℤ) - 1 : ℤ) : ℚ) := by
    rw [hw]; push_cast; field_simp; ring
  have hnr : (sg.nLat - sg.sLat) / sg.latInc = (((nrows : ℤ) - 1 : ℤ) : ℚ) := by
    rw [hn]; push_cast; field_simp; ring
  refine ⟨?_, hrow0, hrow1, hcol0, hcol1, ?_, ?_, ?_, ?_⟩
  · unfold cellOf
    simp only [qops, bind, Except.bind, pure, Except.pure, decide_eq_true_eq, hdlat.ne', hdlon.ne',
      if_false, hnc, hnr, roundHalfEven_int, hqr, hqc, if_true]
    have a1 : 1 + ((nrows : ℤ) - 1) = nrows := by ring
    have a2 : 1 + ((ncols : ℤ) - 1) = ncols := by ring
    rw [a1, a2]
    have e1 : min ⌊(lat - sg.sLat) / sg.latInc⌋ ((nrows : ℤ) - 2) = row := min_eq_left hrow1
    have e2 : min ⌊(lon - sg.eLong) / sg.longInc⌋ ((ncols : ℤ) - 2) = col := min_eq_left hcol1
    rw [e1, e2]
  · have := Int.floor_le ((lat - sg.sLat) / sg.latInc)
    rw [le_div_iff₀ hdlat] at this; linarith
  · have := Int.lt_floor_add_one ((lat - sg.sLat) / sg.latInc)
    rw [div_lt_iff₀ hdlat] at this; linarith
  · have := Int.floor_le ((lon - sg.eLong) / sg.longInc)
    rw [le_div_iff₀ hdlon] at this; linarith
  · have := Int.lt_floor_add_one ((lon - sg.eLong) / sg.longInc)
    rw [div_lt_iff₀ hdlon] at this; linarith

/-! ## 7. Node addressing: which bytes are read -/

/-- the float32 stored at byte offset `p` (little endian), as a double -/
def f32At (b : ByteArray) (p : Nat) : Float :=
  (Float32.ofBits (UInt32.ofNat (intLE (bytesAt b p 4)))).toFloat

/-- the four fields of the node stored at byte offset `p` -/
def nodeAt (b : ByteArray) (p : Nat) : Node :=
  (f32At b p, f32At b (p + 4), f32At b (p + 8), f32At b (p + 12))

theorem bind_apply {α β : Type} (m : FileM α) (f : α → FileM β) (b : ByteArray) (p : Nat) :
    (m >>= f) b p = match m b p with
      | .error e => .error e
      | .ok (a, p') => f a b p' := rfl

theorem pure_apply {α : Type} (a : α) (b : ByteArray) (p : Nat) :
    (pure a : FileM α) b p = .ok (a, p) := rfl

theorem bytesAt_length (b : ByteArray) (p k : Nat) (h : p + k ≤ b.size) :
    (bytesAt b p k).length = k := by
  simp only [bytesAt, List.length_map, List.length_range]; omega

theorem read_apply (b : ByteArray) (p k : Nat) :
    Ntv2.read k b p = .ok (bytesAt b p k, p + min k (b.size - p)) := rfl

theorem read_ok (b : ByteArray) (p k : Nat) (h : p + k ≤ b.size) :
    Ntv2.read k b p = .ok (bytesAt b p k, p + k) := by
  rw [read_apply]
  have : min k (b.size - p) = k := by omega
  rw [this]

/-- `f.seek(n, 1)` succeeds iff the new absolute offset is not negative -/
theorem seekRel_ok (n : Int) (b : ByteArray) (p : Nat) (h : 0 ≤ (p : Int) + n) :
    seekRel n b p = .ok ((), ((p : Int) + n).toNat) := by
  simp only [seekRel]; rw [if_neg (by omega)]

/-- … and raises `OSError` otherwise (this is what the unpatched bicubic reader ran into, or
silently avoided by landing in the headers, in row 0) -/
theorem seekRel_neg (n : Int) (b : ByteArray) (p : Nat) (h : (p : Int) + n < 0) :
    seekRel n b p = .error .OSError := by
  simp only [seekRel]; rw [if_pos h]

theorem readNode_ok (b : ByteArray) (p : Nat) (h : p + 16 ≤ b.size) :
    readNode b p = .ok (nodeAt b p, p + 16) := by
  have l0 := bytesAt_length b p 4 (by omega)
  have l1 := bytesAt_length b (p + 4) 4 (by omega)
  have l2 := bytesAt_length b (p + 4 + 4) 4 (by omega)
  have l3 := bytesAt_length b (p + 4 + 4 + 4) 4 (by omega)
  simp only [readNode, bind_apply, pure_apply, read_ok b p 4 (by omega), read_ok b (p + 4) 4 (by omega),
    read_ok b (p + 4 + 4) 4 (by omega), read_ok b (p + 4 + 4 + 4) 4 (by omega), FileM.lift, unpackF,
    l0, l1, l2, l3, ne_eq, not_true_eq_false, if_false, nodeAt, f32At]

/-- a short read makes `read_node` raise `struct.error` -/
theorem readNode_short (b : ByteArray) (p : Nat) (h : b.size < p + 4) :
    readNode b p = .error .StructError := by
  have hl : (bytesAt b p 4).length ≠ 4 := by
    simp only [bytesAt, List.length_map, List.length_range]; omega
  simp only [readNode, bind_apply, read_apply, FileM.lift, unpackF, hl, ne_eq, not_false_eq_true, if_true,
    FileM.throw]


/-- byte offset of node `(r, c)` of a sub-grid whose first node is at `start` -/
def nodePos (start : Nat) (numCols r c : Int) : Nat := ((start : Int) + 16 * nodeIndex numCols r c).toNat

/-- C17.4 **bilinear reads**: when the cell `(row, col)` has non-negative index and the file is long
enough, `ntv2_bilinear`'s seeks and reads return exactly the nodes `(row, col)`, `(row, col+1)`,
`(row+1, col)`, `(row+1, col+1)` (in this order: n₁ n₂ n₃ n₄) of the block starting at `start`. -/
theorem bilinear_nodes (b : ByteArray) (numCols row col : Int) (start : Nat)
    (h0 : 0 ≤ nodeIndex numCols row col) (hnc : 0 ≤ numCols)
    (hsz : (start : Int) + 16 * (nodeIndex numCols (row + 1) (col + 1) + 1) ≤ b.size) :
    readBilinearNodes numCols row col start b 0 =
      .ok ((nodeAt b (nodePos start numCols row col), nodeAt b (nodePos start numCols row (col + 1)),
            nodeAt b (nodePos start numCols (row + 1) col),
            nodeAt b (nodePos start numCols (row + 1) (col + 1))),
           nodePos start numCols (row + 1) (col + 1) + 16) := by
  have e2 : nodeIndex numCols row (col + 1) = nodeIndex numCols row col + 1 := by
    unfold nodeIndex; ring
  have e3 : nodeIndex numCols (row + 1) col = nodeIndex numCols row col + numCols := by
    unfold nodeIndex; ring
  have e4 : nodeIndex numCols (row + 1) (col + 1) = nodeIndex numCols row col + numCols + 1 := by
    unfold nodeIndex; ring
  simp only [nodePos, e2, e3, e4] at hsz ⊢
  unfold readBilinearNodes
  have eP : row * numCols + col = nodeIndex numCols row col := rfl
  simp only [eP]
  generalize nodeIndex numCols row col = P at *
  simp only [bind_apply, pure_apply]
  rw [seekRel_ok _ _ _ (by omega)]
  simp only []
  rw [seekRel_ok _ _ _ (by omega)]
  simp only []
  rw [readNode_ok _ _ (by omega)]
  simp only []
  rw [readNode_ok _ _ (by omega)]
  simp only []
  rw [seekRel_ok _ _ _ (by omega)]
  simp only []
  rw [readNode_ok _ _ (by omega)]
  simp only []
  rw [readNode_ok _ _ (by omega)]
  simp only []
  simp only [Except.ok.injEq, Prod.mk.injEq]
  refine ⟨⟨?_, ?_, ?_, ?_⟩, ?_⟩
  · congr 1; omega
  · congr 1; omega
  · congr 1; omega
  · congr 1; omega
  · omega


/-- C17.5 **bicubic reads**: when the first stencil node `(row−1, col−1)` has a non-negative absolute
file offset and the file is long enough, `ntv2_bicubic`'s seeks and reads return the sixteen nodes
`(row+dr, col+dc)`, `dr, dc ∈ {−1, 0, 1, 2}` of the block starting at `start`, assigned to the
interpolator's parameters as `bicubic_reproduces_biquadratic` assumes (node k at column offset u,
row offset v: 1:(0,0) 2:(1,0) 3:(1,1) 4:(0,1) 5:(−1,−1) 6:(0,−1) 7:(1,−1) 8:(2,−1) 9:(2,0) 10:(2,1)
11:(2,2) 12:(1,2) 13:(0,2) 14:(−1,2) 15:(−1,1) 16:(−1,0)). Nothing here says the offsets are inside
the sub-grid's block: that is `stencil_inside_iff`. -/
theorem bicubic_nodes (b : ByteArray) (numCols row col : Int) (start : Nat)
    (h5 : 0 ≤ (start : Int) + 16 * nodeIndex numCols (row - 1) (col - 1)) (hnc : 0 ≤ numCols)
    (hsz : (start : Int) + 16 * (nodeIndex numCols (row + 2) (col + 2) + 1) ≤ b.size) :
    readBicubicNodes numCols row col start b 0 =
      .ok ({ n1 := nodeAt b (nodePos start numCols row col),
             n2 := nodeAt b (nodePos start numCols row (col + 1)),
             n3 := nodeAt b (nodePos start numCols (row + 1) (col + 1)),
             n4 := nodeAt b (nodePos start numCols (row + 1) col),
             n5 := nodeAt b (nodePos start numCols (row - 1) (col - 1)),
             n6 := nodeAt b (nodePos start numCols (row - 1) col),
             n7 := nodeAt b (nodePos start numCols (row - 1) (col + 1)),
             n8 := nodeAt b (nodePos start numCols (row - 1) (col + 2)),
             n9 := nodeAt b (nodePos start numCols row (col + 2)),
             n10 := nodeAt b (nodePos start numCols (row + 1) (col + 2)),
             n11 := nodeAt b (nodePos start numCols (row + 2) (col + 2)),
             n12 := nodeAt b (nodePos start numCols (row + 2) (col + 1)),
             n13 := nodeAt b (nodePos start numCols (row + 2) col),
             n14 := nodeAt b (nodePos start numCols (row + 2) (col - 1)),
             n15 := nodeAt b (nodePos start numCols (row + 1) (col - 1)),
             n16 := nodeAt b (nodePos start numCols row (col - 1)) },
           nodePos start numCols (row + 2) (col + 2) + 16) := by
  have e (dr dc : Int) : nodeIndex numCols (row + dr) (col + dc)
      = nodeIndex numCols row col + dr * numCols + dc := by unfold nodeIndex; ring
  have e' (dr : Int) : nodeIndex numCols (row + dr) col
      = nodeIndex numCols row col + dr * numCols := by unfold nodeIndex; ring
  have e'' (dc : Int) : nodeIndex numCols row (col + dc)
      = nodeIndex numCols row col + dc := by unfold nodeIndex; ring
  have em (dr dc : Int) : nodeIndex numCols (row - dr) (col - dc)
      = nodeIndex numCols row col - dr * numCols - dc := by unfold nodeIndex; ring
  have em1 (dr dc : Int) : nodeIndex numCols (row - dr) (col + dc)
      = nodeIndex numCols row col - dr * numCols + dc := by unfold nodeIndex; ring
  have em2 (dr dc : Int) : nodeIndex numCols (row + dr) (col - dc)
      = nodeIndex numCols row col + dr * numCols - dc := by unfold nodeIndex; ring
  have em3 (dr : Int) : nodeIndex numCols (row - dr) col
      = nodeIndex numCols row col - dr * numCols := by unfold nodeIndex; ring
  have em4 (dc : Int) : nodeIndex numCols row (col - dc)
      = nodeIndex numCols row col - dc := by unfold nodeIndex; ring
  simp only [nodePos, e, e', e'', em, em1, em2, em3, em4, one_mul] at h5 hsz ⊢
  unfold readBicubicNodes
  have eP : row * numCols + col = nodeIndex numCols row col := rfl
  simp only [eP]
  generalize nodeIndex numCols row col = P at *
  simp only [bind_apply, pure_apply]
  rw [seekRel_ok _ _ _ (by omega)]; simp only []
  rw [seekRel_ok _ _ _ (by omega)]; simp only []
  rw [readNode_ok _ _ (by omega)]; simp only []
  rw [readNode_ok _ _ (by omega)]; simp only []
  rw [readNode_ok _ _ (by omega)]; simp only []
  rw [readNode_ok _ _ (by omega)]; simp only []
  rw [seekRel_ok _ _ _ (by omega)]; simp only []
  rw [readNode_ok _ _ (by omega)]; simp only []
  rw [readNode_ok _ _ (by omega)]; simp only []
  rw [readNode_ok _ _ (by omega)]; simp only []
  rw [readNode_ok _ _ (by omega)]; simp only []
  rw [seekRel_ok _ _ _ (by omega)]; simp only []
  rw [readNode_ok _ _ (by omega)]; simp only []
  rw [readNode_ok _ _ (by omega)]; simp only []
  rw [readNode_ok _ _ (by omega)]; simp only []
  rw [readNode_ok _ _ (by omega)]; simp only []
  rw [seekRel_ok _ _ _ (by omega)]; simp only []
  rw [readNode_ok _ _ (by omega)]; simp only []
  rw [readNode_ok _ _ (by omega)]; simp only []
  rw [readNode_ok _ _ (by omega)]; simp only []
  rw [readNode_ok _ _ (by omega)]; simp only []
  simp only [Except.ok.injEq, Prod.mk.injEq, Stencil.mk.injEq]
  refine ⟨⟨?_, ?_, ?_, ?_, ?_, ?_, ?_, ?_, ?_, ?_, ?_, ?_, ?_, ?_, ?_, ?_⟩, ?_⟩
  all_goals first | omega | (congr 1; omega)


/-- a node inside the `nrows × ncols` grid has its file index in `[0, count)` -/
theorem index_range (nrows ncols r c : Int) (hr : 0 ≤ r ∧ r < nrows) (hc : 0 ≤ c ∧ c < ncols) :
    0 ≤ nodeIndex ncols r c ∧ nodeIndex ncols r c < nrows * ncols := by
  unfold nodeIndex
  have h1 : 0 ≤ r * ncols := mul_nonneg hr.1 (by omega)
  have h2 : 0 ≤ (nrows - r - 1) * ncols := mul_nonneg (by omega) (by omega)
  constructor
  · omega
  · nlinarith [h2]

/-- C17.5 the sixteen stencil nodes all lie inside the sub-grid **iff**
`1 ≤ row ≤ nrows−3 ∧ 1 ≤ col ≤ ncols−3` -/
theorem stencil_inside_iff (nrows ncols row col : Int) :
    (∀ dr ∈ ([-1, 0, 1, 2] : List Int), ∀ dc ∈ ([-1, 0, 1, 2] : List Int),
        (0 ≤ row + dr ∧ row + dr < nrows) ∧ (0 ≤ col + dc ∧ col + dc < ncols)) ↔
      stencilFits nrows ncols row col = true := by
  simp only [stencilFits, Bool.and_eq_true, decide_eq_true_eq, List.mem_cons, List.not_mem_nil,
    or_false, forall_eq_or_imp, forall_eq]
  constructor
  · intro h; omega
  · intro h; omega

/-- the four bilinear nodes lie inside the sub-grid for every cell `0 ≤ row ≤ nrows−2`,
`0 ≤ col ≤ ncols−2` -/
theorem cell_inside (nrows ncols row col : Int) (hr : 0 ≤ row ∧ row ≤ nrows - 2)
    (hc : 0 ≤ col ∧ col ≤ ncols - 2) :
    ∀ dr ∈ ([0, 1] : List Int), ∀ dc ∈ ([0, 1] : List Int),
      (0 ≤ row + dr ∧ row + dr < nrows) ∧ (0 ≤ col + dc ∧ col + dc < ncols) := by
  simp only [List.mem_cons, List.not_mem_nil, or_false, forall_eq_or_imp, forall_eq]
  omega

/-- C17.4 **nodes in range, bilinear** (also the patched bicubic fall-back): in a file that
contains the sub-grid's `nrows·ncols` nodes from byte `start`, for a cell inside the sub-grid the
reader succeeds, returns the four enclosing nodes, and every byte it reads belongs to a node with
index in `[0, nrows·ncols)` of that sub-grid. -/
theorem bilinear_reads_in_subgrid (b : ByteArray) (nrows ncols row col : Int) (start : Nat)
    (hr : 0 ≤ row ∧ row ≤ nrows - 2) (hc : 0 ≤ col ∧ col ≤ ncols - 2)
    (hfile : (start : Int) + 16 * (nrows * ncols) ≤ b.size) :
    (∃ p, readBilinearNodes ncols row col start b 0 =
      .ok ((nodeAt b (nodePos start ncols row col), nodeAt b (nodePos start ncols row (col + 1)),
            nodeAt b (nodePos start ncols (row + 1) col),
            nodeAt b (nodePos start ncols (row + 1) (col + 1))), p)) ∧
    ∀ dr ∈ ([0, 1] : List Int), ∀ dc ∈ ([0, 1] : List Int),
      0 ≤ nodeIndex ncols (row + dr) (col + dc) ∧ nodeIndex ncols (row + dr) (col + dc) < nrows * ncols := by
  have hin := cell_inside nrows ncols row col hr hc
  have hidx : ∀ dr ∈ ([0, 1] : List Int), ∀ dc ∈ ([0, 1] : List Int),
      0 ≤ nodeIndex ncols (row + dr) (col + dc) ∧ nodeIndex ncols (row + dr) (col + dc) < nrows * ncols :=
    fun dr hdr dc hdc => index_range nrows ncols _ _ (hin dr hdr dc hdc).1 (hin dr hdr dc hdc).2
  refine ⟨⟨_, bilinear_nodes b ncols row col start ?_ (by omega) ?_⟩, hidx⟩
  · have := (hidx 0 (by simp) 0 (by simp)).1
    simpa using this
  · have := (hidx 1 (by simp) 1 (by simp)).2
    omega

/-- C17.5 **nodes in range, bicubic**: where the stencil fits (`stencilFits`, the only place the
patched code calls `ntv2_bicubic`) the reader succeeds, returns the sixteen nodes around the cell,
and every one of them has its index in `[0, nrows·ncols)`. -/
theorem bicubic_reads_in_subgrid (b : ByteArray) (nrows ncols row col : Int) (start : Nat)
    (hfit : stencilFits nrows ncols row col = true)
    (hfile : (start : Int) + 16 * (nrows * ncols) ≤ b.size) :
    (∃ s p, readBicubicNodes ncols row col start b 0 = .ok (s, p) ∧
      s.n1 = nodeAt b (nodePos start ncols row col) ∧
      s.n5 = nodeAt b (nodePos start ncols (row - 1) (col - 1)) ∧
      s.n11 = nodeAt b (nodePos start ncols (row + 2) (col + 2))) ∧
    ∀ dr ∈ ([-1, 0, 1, 2] : List Int), ∀ dc ∈ ([-1, 0, 1, 2] : List Int),
      0 ≤ nodeIndex ncols (row + dr) (col + dc) ∧ nodeIndex ncols (row + dr) (col + dc) < nrows * ncols := by
  have hin := (stencil_inside_iff nrows ncols row col).mpr hfit
  have hidx : ∀ dr ∈ ([-1, 0, 1, 2] : List Int), ∀ dc ∈ ([-1, 0, 1, 2] : List Int),
      0 ≤ nodeIndex ncols (row + dr) (col + dc) ∧ nodeIndex ncols (row + dr) (col + dc) < nrows * ncols :=
    fun dr hdr dc hdc => index_range nrows ncols _ _ (hin dr hdr dc hdc).1 (hin dr hdr dc hdc).2
  have hnc : 0 ≤ ncols := by
    have := hin 0 (by simp) 0 (by simp); omega
  have h5 := (hidx (-1) (by simp) (-1) (by simp)).1
  have h11 := (hidx 2 (by simp) 2 (by simp)).2
  have hb := bicubic_nodes b ncols row col start
    (by have : row + -1 = row - 1 := by ring
        have : col + -1 = col - 1 := by ring
        simp only [*] at h5; omega) hnc (by omega)
  exact ⟨⟨_, _, hb, rfl, rfl, rfl⟩, hidx⟩

/-- C17.5 **the defect of the unchanged reader** (`ntv2_bicubic` itself is not touched by the
patch, so this is a statement about the code): for the south-east cell of a 3 × 3 sub-grid that is
the only one in the file (first node at byte 352, file of 352 + 9·16 + 16 bytes with the END record),
the reads succeed, no exception is raised, and "nodes" 5 and 16 are decoded from bytes 288… and
336…, which are header records of the sub-grid, not nodes. -/
theorem bicubic_ring_fails (b : ByteArray) (hb : b.size = 512) :
    ∃ s p, readBicubicNodes 3 0 0 352 b 0 = .ok (s, p) ∧
      s.n5 = nodeAt b 288 ∧ s.n16 = nodeAt b 336 ∧ s.n1 = nodeAt b 352 := by
  have h := bicubic_nodes b 3 0 0 352 (by simp [nodeIndex]) (by norm_num)
    (by simp [nodeIndex, hb])
  exact ⟨_, _, h, by simp [nodePos, nodeIndex], by simp [nodePos, nodeIndex], by simp [nodePos, nodeIndex]⟩

/-- … and in the north-west cell of the last sub-grid of a file the unchanged reader runs off the
end of the file: `struct.error` (read of row `row+2`). 3 × 3 grid, `row = col = 1`, first node at
352, file ends after the 9 nodes and the 16-byte END record. -/
theorem bicubic_ring_raises (b : ByteArray) (hb : b.size = 512) :
    readBicubicNodes 3 1 1 352 b 0 = .error .StructError := by
  unfold readBicubicNodes
  simp only [bind_apply, pure_apply]
  rw [seekRel_ok _ _ _ (by omega)]; simp only []
  rw [seekRel_ok _ _ _ (by omega)]; simp only []
  rw [readNode_ok _ _ (by omega)]; simp only []
  rw [readNode_ok _ _ (by omega)]; simp only []
  rw [readNode_ok _ _ (by omega)]; simp only []
  rw [readNode_ok _ _ (by omega)]; simp only []
  rw [seekRel_ok _ _ _ (by omega)]; simp only []
  rw [readNode_ok _ _ (by omega)]; simp only []
  rw [readNode_ok _ _ (by omega)]; simp only []
  rw [readNode_ok _ _ (by omega)]; simp only []
  rw [readNode_ok _ _ (by omega)]; simp only []
  rw [seekRel_ok _ _ _ (by omega)]; simp only []
  rw [readNode_ok _ _ (by omega)]; simp only []
  rw [readNode_ok _ _ (by omega)]; simp only []
  rw [readNode_ok _ _ (by omega)]; simp only []
  rw [readNode_ok _ _ (by omega)]; simp only []
  rw [seekRel_ok _ _ _ (by omega)]; simp only []
  rw [readNode_ok _ _ (by omega)]; simp only []   -- "node 14" = the END record
  rw [readNode_short _ _ (by omega)]

/-! ## 8. End to end over ℚ: fields given in latitude / longitude -/

/-- the scale factors locate the point in its cell: `lon = e + (col + x)·Δλ`, `lat = s + (row + y)·Δφ` -/
theorem cellXY_spec (sg : SubGrid ℚ) (lat lon : ℚ) (row col : ℤ)
    (hdlat : sg.latInc ≠ 0) (hdlon : sg.longInc ≠ 0) :
    lon = sg.eLong + ((col : ℚ) + (cellXY qops sg lat lon row col).1) * sg.longInc ∧
    lat = sg.sLat + ((row : ℚ) + (cellXY qops sg lat lon row col).2) * sg.latInc := by
  simp only [cellXY, qops]
  constructor <;> field_simp <;> ring

/-- in the cell found by `row_col` the scale factors are in `[0, 1)` -/
theorem cellXY_unit (sg : SubGrid ℚ) (lat lon : ℚ)
    (hdlat : 0 < sg.latInc) (hdlon : 0 < sg.longInc) :
    let row := ⌊(lat - sg.sLat) / sg.latInc⌋
    let col := ⌊(lon - sg.eLong) / sg.longInc⌋
    let xy := cellXY qops sg lat lon row col
    0 ≤ xy.1 ∧ xy.1 < 1 ∧ 0 ≤ xy.2 ∧ xy.2 < 1 := by
  intro row col xy
  have hx : xy.1 = (lon - sg.eLong) / sg.longInc - col := by
    simp only [xy, cellXY, qops]; field_simp; ring
  have hy : xy.2 = (lat - sg.sLat) / sg.latInc - row := by
    simp only [xy, cellXY, qops]; field_simp; ring
  rw [hx, hy]
  refine ⟨?_, ?_, ?_, ?_⟩
  · linarith [Int.floor_le ((lon - sg.eLong) / sg.longInc)]
  · linarith [Int.lt_floor_add_one ((lon - sg.eLong) / sg.longInc)]
  · linarith [Int.floor_le ((lat - sg.sLat) / sg.latInc)]
  · linarith [Int.lt_floor_add_one ((lat - sg.sLat) / sg.latInc)]

/-- C17.4 **bilinear interpolation reproduces any field linear in latitude and longitude**: with the
four enclosing nodes carrying `F(lat_node, lon_node)` and the scale factors of `cellXY`, the blend
is `F(lat, lon)` — for every cell index, in particular the one of `row_col`. -/
theorem bilinear_linear_field (sg : SubGrid ℚ) (lat lon a bp bl : ℚ) (row col : ℤ)
    (hdlat : sg.latInc ≠ 0) (hdlon : sg.longInc ≠ 0) :
    let F : ℚ → ℚ → ℚ := fun φ l => a + bp * φ + bl * l
    let node : ℤ → ℤ → ℚ := fun r c => F (sg.sLat + r * sg.latInc) (sg.eLong + c * sg.longInc)
    let xy := cellXY qops sg lat lon row col
    bilinearPoly (node row col) (node row (col + 1)) (node (row + 1) col) (node (row + 1) (col + 1))
      xy.1 xy.2 = F lat lon := by
  intro F node xy
  simp only [F, node, xy, cellXY, qops, bilinearPoly]
  push_cast
  field_simp
  ring

/-- C17.6 the same for the bicubic interpolant with its sixteen stencil nodes (the 6-decimal
rounding of `x`, `y` aside — this is the exact-arithmetic statement) -/
theorem bicubic_linear_field (sg : SubGrid ℚ) (lat lon a bp bl : ℚ) (row col : ℤ)
    (hdlat : sg.latInc ≠ 0) (hdlon : sg.longInc ≠ 0) :
    let F : ℚ → ℚ → ℚ := fun φ l => a + bp * φ + bl * l
    let node : ℤ → ℤ → ℚ := fun r c => F (sg.sLat + r * sg.latInc) (sg.eLong + c * sg.longInc)
    let xy := cellXY qops sg lat lon row col
    bicubicK (node row col) (node row (col + 1)) (node (row + 1) (col + 1)) (node (row + 1) col)
      (node (row - 1) (col - 1)) (node (row - 1) col) (node (row - 1) (col + 1)) (node (row - 1) (col + 2))
      (node row (col + 2)) (node (row + 1) (col + 2)) (node (row + 2) (col + 2)) (node (row + 2) (col + 1))
      (node (row + 2) col) (node (row + 2) (col - 1)) (node (row + 1) (col - 1)) (node row (col - 1))
      xy.1 xy.2 = F lat lon := by
  intro F node xy
  -- the node values are a linear field in the cell coordinates
  have key := bicubic_reproduces_linear (K := ℚ)
    (a + bp * (sg.sLat + row * sg.latInc) + bl * (sg.eLong + col * sg.longInc))
    (bl * sg.longInc) (bp * sg.latInc) xy.1 xy.2
  simp only at key
  have hF : F lat lon = a + bp * (sg.sLat + row * sg.latInc) + bl * (sg.eLong + col * sg.longInc)
      + bl * sg.longInc * xy.1 + bp * sg.latInc * xy.2 := by
    simp only [F, xy, cellXY, qops]
    field_simp
    ring
  rw [hF, ← key]
  simp only [F, node]
  push_cast
  congr 1 <;> ring

/-! ## Satisfiability of the hypotheses -/

/-- a 3 × 4 sub-grid, 1° × 0.5° cells, with a point in its north-west cell -/
def exampleSub : SubGrid ℚ :=
  { subName := "A", parent := "NONE", created := "01/01/2020", updated := "01/01/2020",
    sLat := -7200, nLat := 0, eLong := -540000, wLong := -534600, latInc := 3600, longInc := 1800,
    gsCount := 12 }

/-- hypotheses of `row_col` (and of `cellXY_unit`, `bilinear_linear_field`) -/
example : (0 : ℚ) < exampleSub.latInc ∧ (0 : ℚ) < exampleSub.longInc ∧
    exampleSub.nLat = exampleSub.sLat + (((3 : ℕ) : ℚ) - 1) * exampleSub.latInc ∧
    exampleSub.wLong = exampleSub.eLong + (((4 : ℕ) : ℚ) - 1) * exampleSub.longInc ∧
    (exampleSub.sLat ≤ -100 ∧ (-100 : ℚ) < exampleSub.nLat) ∧
    (exampleSub.eLong ≤ -535000 ∧ (-535000 : ℚ) < exampleSub.wLong) := by
  simp only [exampleSub]; norm_num

/-- hypotheses of `finest_subgrid`: the point is in the sub-grid, increments are non-zero -/
example : containing qops [exampleSub] (-100) (-535000) ≠ [] ∧ ∀ x ∈ [exampleSub], x.latInc ≠ 0 := by
  constructor
  · intro h
    have : exampleSub ∈ containing qops [exampleSub] (-100) (-535000) :=
      mem_containing.mpr ⟨by simp, by simp only [exampleSub]; norm_num⟩
    rw [h] at this; simp at this
  · intro x hx; simp only [List.mem_singleton] at hx; rw [hx]; simp [exampleSub]

/-- hypotheses of `bicubic_reads_in_subgrid` / `bilinear_reads_in_subgrid`: the single interior
cell of a 4 × 4 sub-grid, every cell of a 3 × 3 one -/
example : stencilFits 4 4 1 1 = true := by decide
example : (0 : Int) ≤ 1 ∧ (1 : Int) ≤ 3 - 2 := by decide

end GeodeVerif.C17
