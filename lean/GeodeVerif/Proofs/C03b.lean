import GeodeVerif.Proofs.C03
import Mathlib.Analysis.SpecialFunctions.Trigonometric.ArctanDeriv
import Mathlib.Analysis.SpecialFunctions.Sqrt
import Mathlib.Analysis.Calculus.MeanValue
import Mathlib.Topology.MetricSpace.Contracting
import Mathlib.Tactic.GCongr
/-!
# C03 (stretch) — the latitude iteration of `xyz2llh` is a contraction

Everything is about `latStep x y z ell`, the map iterated by the `while` loop of the generated
`GenR.Convert.xyz2llh` (see `xyz2llh_fixed_point` in `Proofs/C03.lean`, which identifies the loop
state with iterates of `latStep`).

Notation: `a = ell.semimaj`, `e² = ell.ecc1sq`, `W(φ) = 1 − e² sin²φ`, `ν(φ) = a/√W`,
`p = √(x²+y²)`, `Q(φ) = p² + (z + ν(φ) e² sin φ)²`.
-/
set_option linter.unusedVariables false
namespace GeodeVerif.C03
open PyR GenR.Convert GenR.Constants

/-! ## 1. The derivative of the iteration map -/

/-- `W(φ) = 1 − e² sin²φ ≥ 1 − e² > 0` -/
theorem W_ge (e φ : ℝ) (h0 : 0 ≤ e) : 1 - e ≤ 1 - e * Real.sin φ ^ 2 := by
  have hs : Real.sin φ ^ 2 ≤ 1 := Real.sin_sq_le_one φ
  nlinarith

theorem W_pos (e φ : ℝ) (h0 : 0 ≤ e) (h1 : e < 1) : 0 < 1 - e * Real.sin φ ^ 2 := by
  have := W_ge e φ h0
  linarith

/-- `d/dφ [ν(φ) sin φ] = a cos φ / W^{3/2}` (written `W·√W`) -/
noncomputable abbrev nuSinDeriv (ell : Ellipsoid) (φ : ℝ) : ℝ :=
  ell.semimaj * Real.cos φ /
    ((1 - ell.ecc1sq * Real.sin φ ^ 2) * Real.sqrt (1 - ell.ecc1sq * Real.sin φ ^ 2))

/-- the explicit derivative of `latStep`:
`D(φ) = p · e² · (a cos φ / W^{3/2}) / (p² + (z + ν e² sin φ)²)` -/
noncomputable abbrev latStepDeriv (x y z : ℝ) (ell : Ellipsoid) (φ : ℝ) : ℝ :=
  Real.sqrt (x ^ 2 + y ^ 2) * ell.ecc1sq * nuSinDeriv ell φ /
    (Real.sqrt (x ^ 2 + y ^ 2) ^ 2 + (z + nu ell φ * ell.ecc1sq * Real.sin φ) ^ 2)

theorem nu_sin_hasDerivAt (ell : Ellipsoid) (h0 : 0 ≤ ell.ecc1sq) (h1 : ell.ecc1sq < 1) (φ : ℝ) :
    HasDerivAt (fun t => nu ell t * Real.sin t) (nuSinDeriv ell φ) φ := by
  have hWpos := W_pos ell.ecc1sq φ h0 h1
  have hs := Real.hasDerivAt_sin φ
  have hW : HasDerivAt (fun t => 1 - ell.ecc1sq * Real.sin t ^ 2)
      (-(ell.ecc1sq * (2 * Real.sin φ * Real.cos φ))) φ := by
    have h2 : HasDerivAt (fun t => Real.sin t ^ 2) (2 * Real.sin φ * Real.cos φ) φ := by
      have := hs.mul hs
      have h3 : HasDerivAt (fun t => Real.sin t * Real.sin t)
          (Real.cos φ * Real.sin φ + Real.sin φ * Real.cos φ) φ := this
      have hfe : (fun t => Real.sin t ^ 2) = fun t => Real.sin t * Real.sin t := by
        funext t; ring
      rw [hfe]
      exact h3.congr_deriv (by ring)
    exact (h2.const_mul ell.ecc1sq).const_sub 1
  have hsq := hW.sqrt hWpos.ne'
  have hr0 : Real.sqrt (1 - ell.ecc1sq * Real.sin φ ^ 2) ≠ 0 := (Real.sqrt_pos.mpr hWpos).ne'
  have hnu : HasDerivAt (fun t => nu ell t) _ φ :=
    (hasDerivAt_const φ ell.semimaj).fun_div hsq hr0
  have hmul : HasDerivAt (fun t => nu ell t * Real.sin t) _ φ := hnu.mul hs
  refine hmul.congr_deriv ?_
  have hr2 : Real.sqrt (1 - ell.ecc1sq * Real.sin φ ^ 2) ^ 2 = 1 - ell.ecc1sq * Real.sin φ ^ 2 :=
    Real.sq_sqrt hWpos.le
  simp only [nu, nuSinDeriv]
  have key : ell.ecc1sq * Real.sin φ ^ 2 = 1 - Real.sqrt (1 - ell.ecc1sq * Real.sin φ ^ 2) ^ 2 := by
    rw [hr2]; ring
  generalize Real.sqrt (1 - ell.ecc1sq * Real.sin φ ^ 2) = r at *
  field_simp
  rw [← hr2]
  linear_combination (r ^ 2 * ell.semimaj * Real.cos φ) * key

/-- **Derivative of the iteration map.** For `0 ≤ e² < 1` and a point off the axis (`p > 0`),
`latStep` is differentiable at every `φ` with the explicit derivative `latStepDeriv`. -/
theorem latStep_deriv (x y z : ℝ) (ell : Ellipsoid) (h0 : 0 ≤ ell.ecc1sq) (h1 : ell.ecc1sq < 1)
    (hp : 0 < Real.sqrt (x ^ 2 + y ^ 2)) (φ : ℝ) :
    HasDerivAt (latStep x y z ell) (latStepDeriv x y z ell φ) φ := by
  have hg := nu_sin_hasDerivAt ell h0 h1 φ
  have hfe : (fun t => (z + nu ell t * ell.ecc1sq * Real.sin t) / Real.sqrt (x ^ 2 + y ^ 2))
      = fun t => (z + ell.ecc1sq * (nu ell t * Real.sin t)) / Real.sqrt (x ^ 2 + y ^ 2) := by
    funext t; ring
  have hu : HasDerivAt
      (fun t => (z + nu ell t * ell.ecc1sq * Real.sin t) / Real.sqrt (x ^ 2 + y ^ 2))
      (ell.ecc1sq * nuSinDeriv ell φ / Real.sqrt (x ^ 2 + y ^ 2)) φ := by
    rw [hfe]
    exact ((hg.const_mul ell.ecc1sq).const_add z).div_const _
  have ha : HasDerivAt (latStep x y z ell) _ φ := hu.arctan
  refine ha.congr_deriv ?_
  simp only [latStepDeriv]
  generalize nuSinDeriv ell φ = g'
  generalize nu ell φ * ell.ecc1sq * Real.sin φ = T
  generalize Real.sqrt (x ^ 2 + y ^ 2) = p at hp
  have hp0 : p ≠ 0 := hp.ne'
  have hQ : p ^ 2 + (z + T) ^ 2 ≠ 0 := by positivity
  field_simp

/-! ## 2. The bound on the derivative -/

/-- the contraction factor `K = e² a / ((1 − e²)^{3/2} ρmin)` -/
noncomputable abbrev contractionK (ell : Ellipsoid) (ρmin : ℝ) : ℝ :=
  ell.ecc1sq * ell.semimaj / ((1 - ell.ecc1sq) * Real.sqrt (1 - ell.ecc1sq) * ρmin)

theorem contractionK_nonneg (ell : Ellipsoid) (ha : 0 < ell.semimaj) (h0 : 0 ≤ ell.ecc1sq)
    (h1 : ell.ecc1sq < 1) (ρmin : ℝ) (hρ : 0 < ρmin) : 0 ≤ contractionK ell ρmin := by
  have : 0 < 1 - ell.ecc1sq := by linarith
  unfold contractionK
  positivity

/-- **Bound on the derivative.** If `Q(φ) = p² + (z + ν e² sin φ)² ≥ ρmin²` with `ρmin > 0`, then
`|D(φ)| ≤ e² a / ((1 − e²)^{3/2} ρmin)`. -/
theorem latStep_deriv_bound (x y z : ℝ) (ell : Ellipsoid) (ha : 0 < ell.semimaj)
    (h0 : 0 ≤ ell.ecc1sq) (h1 : ell.ecc1sq < 1) (hp : 0 < Real.sqrt (x ^ 2 + y ^ 2))
    (ρmin : ℝ) (hρ : 0 < ρmin) (φ : ℝ)
    (hQ : ρmin ^ 2 ≤ Real.sqrt (x ^ 2 + y ^ 2) ^ 2 + (z + nu ell φ * ell.ecc1sq * Real.sin φ) ^ 2) :
    |latStepDeriv x y z ell φ| ≤ contractionK ell ρmin := by
  have hWge := W_ge ell.ecc1sq φ h0
  have h1e : 0 < 1 - ell.ecc1sq := by linarith
  have hWpos : 0 < 1 - ell.ecc1sq * Real.sin φ ^ 2 := by linarith
  have hsq : Real.sqrt (1 - ell.ecc1sq) ≤ Real.sqrt (1 - ell.ecc1sq * Real.sin φ ^ 2) :=
    Real.sqrt_le_sqrt hWge
  have hsq0 : 0 < Real.sqrt (1 - ell.ecc1sq) := Real.sqrt_pos.mpr h1e
  have hsqW : 0 < Real.sqrt (1 - ell.ecc1sq * Real.sin φ ^ 2) := Real.sqrt_pos.mpr hWpos
  simp only [latStepDeriv, nuSinDeriv, contractionK]
  generalize nu ell φ * ell.ecc1sq * Real.sin φ = T at hQ ⊢
  generalize Real.sqrt (x ^ 2 + y ^ 2) = p at hp hQ ⊢
  set Q := p ^ 2 + (z + T) ^ 2 with hQdef
  have hQpos : 0 < Q := lt_of_lt_of_le (by positivity) hQ
  have hQp : p ^ 2 ≤ Q := by rw [hQdef]; nlinarith [sq_nonneg (z + T)]
  have hpρ : p * ρmin ≤ Q := by nlinarith [sq_nonneg (p - ρmin)]
  have hcos : |Real.cos φ| ≤ 1 := Real.abs_cos_le_one φ
  -- |D| = e a · (|cos|/(W √W)) · (p/Q)
  have hrepr : |p * ell.ecc1sq * (ell.semimaj * Real.cos φ /
        ((1 - ell.ecc1sq * Real.sin φ ^ 2) * Real.sqrt (1 - ell.ecc1sq * Real.sin φ ^ 2))) / Q|
      = ell.ecc1sq * ell.semimaj * (|Real.cos φ| /
        ((1 - ell.ecc1sq * Real.sin φ ^ 2) * Real.sqrt (1 - ell.ecc1sq * Real.sin φ ^ 2)))
        * (p / Q) := by
    rw [abs_div, abs_mul, abs_mul, abs_div, abs_mul, abs_mul, abs_of_pos hp, abs_of_nonneg h0,
      abs_of_pos ha, abs_of_pos hWpos, abs_of_pos hsqW, abs_of_pos hQpos]
    ring
  rw [hrepr]
  have hA : |Real.cos φ| /
      ((1 - ell.ecc1sq * Real.sin φ ^ 2) * Real.sqrt (1 - ell.ecc1sq * Real.sin φ ^ 2))
      ≤ 1 / ((1 - ell.ecc1sq) * Real.sqrt (1 - ell.ecc1sq)) := by
    gcongr
  have hB : p / Q ≤ 1 / ρmin := by
    rw [div_le_div_iff₀ hQpos hρ]
    linarith
  have hA0 : 0 ≤ 1 / ((1 - ell.ecc1sq) * Real.sqrt (1 - ell.ecc1sq)) := by positivity
  have hB0 : 0 ≤ p / Q := by positivity
  have hea : 0 ≤ ell.ecc1sq * ell.semimaj := by positivity
  calc ell.ecc1sq * ell.semimaj * (|Real.cos φ| /
        ((1 - ell.ecc1sq * Real.sin φ ^ 2) * Real.sqrt (1 - ell.ecc1sq * Real.sin φ ^ 2)))
        * (p / Q)
      ≤ ell.ecc1sq * ell.semimaj * (1 / ((1 - ell.ecc1sq) * Real.sqrt (1 - ell.ecc1sq)))
        * (1 / ρmin) := by gcongr
    _ = ell.ecc1sq * ell.semimaj / ((1 - ell.ecc1sq) * Real.sqrt (1 - ell.ecc1sq) * ρmin) := by
        field_simp

/-- A hypothesis on the point alone that gives the lower bound on `Q(φ)` for EVERY `φ`:
the geocentric distance `r = √(x²+y²+z²)` exceeds `ρmin` by at least `a e²/√(1−e²)`
(`≥ |ν e² sin φ|`; about 43.5 km on the Earth). -/
theorem Q_lower_bound (x y z : ℝ) (ell : Ellipsoid) (ha : 0 < ell.semimaj)
    (h0 : 0 ≤ ell.ecc1sq) (h1 : ell.ecc1sq < 1) (ρmin : ℝ) (hρ : 0 ≤ ρmin)
    (hr : ρmin + ell.semimaj * ell.ecc1sq / Real.sqrt (1 - ell.ecc1sq)
      ≤ Real.sqrt (x ^ 2 + y ^ 2 + z ^ 2)) (φ : ℝ) :
    ρmin ^ 2 ≤ Real.sqrt (x ^ 2 + y ^ 2) ^ 2 + (z + nu ell φ * ell.ecc1sq * Real.sin φ) ^ 2 := by
  have hWge := W_ge ell.ecc1sq φ h0
  have h1e : 0 < 1 - ell.ecc1sq := by linarith
  have hWpos : 0 < 1 - ell.ecc1sq * Real.sin φ ^ 2 := by linarith
  have hsq : Real.sqrt (1 - ell.ecc1sq) ≤ Real.sqrt (1 - ell.ecc1sq * Real.sin φ ^ 2) :=
    Real.sqrt_le_sqrt hWge
  have hsq0 : 0 < Real.sqrt (1 - ell.ecc1sq) := Real.sqrt_pos.mpr h1e
  have hsqW : 0 < Real.sqrt (1 - ell.ecc1sq * Real.sin φ ^ 2) := Real.sqrt_pos.mpr hWpos
  have hsin : |Real.sin φ| ≤ 1 := Real.abs_sin_le_one φ
  -- |T| ≤ c
  have hT : |nu ell φ * ell.ecc1sq * Real.sin φ|
      ≤ ell.semimaj * ell.ecc1sq / Real.sqrt (1 - ell.ecc1sq) := by
    rw [abs_mul, abs_mul, abs_div, abs_of_pos ha, abs_of_pos hsqW, abs_of_nonneg h0]
    calc ell.semimaj / Real.sqrt (1 - ell.ecc1sq * Real.sin φ ^ 2) * ell.ecc1sq * |Real.sin φ|
        ≤ ell.semimaj / Real.sqrt (1 - ell.ecc1sq) * ell.ecc1sq * 1 := by gcongr
      _ = ell.semimaj * ell.ecc1sq / Real.sqrt (1 - ell.ecc1sq) := by ring
  generalize nu ell φ * ell.ecc1sq * Real.sin φ = T at hT ⊢
  generalize ell.semimaj * ell.ecc1sq / Real.sqrt (1 - ell.ecc1sq) = c at hT hr
  have hxy : 0 ≤ x ^ 2 + y ^ 2 := by positivity
  rw [Real.sq_sqrt hxy]
  have hr2 : Real.sqrt (x ^ 2 + y ^ 2 + z ^ 2) ^ 2 = x ^ 2 + y ^ 2 + z ^ 2 :=
    Real.sq_sqrt (by positivity)
  have hzr : |z| ≤ Real.sqrt (x ^ 2 + y ^ 2 + z ^ 2) := Real.abs_le_sqrt (by nlinarith)
  generalize Real.sqrt (x ^ 2 + y ^ 2 + z ^ 2) = r at hr hr2 hzr
  have hT0 : 0 ≤ |T| := abs_nonneg T
  have hd : ρmin ≤ r - |T| := by linarith
  have hd2 : ρmin ^ 2 ≤ (r - |T|) ^ 2 := by nlinarith
  have hzT : -(z * T) ≤ r * |T| := by
    have : |z * T| ≤ r * |T| := by
      rw [abs_mul]; exact mul_le_mul_of_nonneg_right hzr hT0
    have := neg_abs_le (z * T)
    linarith
  have hTT : |T| ^ 2 = T ^ 2 := sq_abs T
  nlinarith

/-! ## 3. Contraction -/

/-- **Contraction on a convex set.** If the lower bound `Q ≥ ρmin²` holds on a convex set `s` of
latitudes, `latStep` is `K`-Lipschitz on `s` with `K = e² a / ((1 − e²)^{3/2} ρmin)`. -/
theorem latStep_contraction_on (x y z : ℝ) (ell : Ellipsoid) (ha : 0 < ell.semimaj)
    (h0 : 0 ≤ ell.ecc1sq) (h1 : ell.ecc1sq < 1) (hp : 0 < Real.sqrt (x ^ 2 + y ^ 2))
    (ρmin : ℝ) (hρ : 0 < ρmin) (s : Set ℝ) (hs : Convex ℝ s)
    (hQ : ∀ φ ∈ s, ρmin ^ 2
      ≤ Real.sqrt (x ^ 2 + y ^ 2) ^ 2 + (z + nu ell φ * ell.ecc1sq * Real.sin φ) ^ 2)
    (φ₁ φ₂ : ℝ) (hφ₁ : φ₁ ∈ s) (hφ₂ : φ₂ ∈ s) :
    |latStep x y z ell φ₁ - latStep x y z ell φ₂| ≤ contractionK ell ρmin * |φ₁ - φ₂| := by
  have := hs.norm_image_sub_le_of_norm_hasDerivWithin_le (f := latStep x y z ell)
    (f' := latStepDeriv x y z ell) (C := contractionK ell ρmin)
    (fun φ _ => (latStep_deriv x y z ell h0 h1 hp φ).hasDerivWithinAt)
    (fun φ hφ => by
      rw [Real.norm_eq_abs]
      exact latStep_deriv_bound x y z ell ha h0 h1 hp ρmin hρ φ (hQ φ hφ)) hφ₂ hφ₁
  simpa only [Real.norm_eq_abs] using this

/-- **Contraction** (the statement of the task): the uniform hypothesis on the segment between
`φ₁` and `φ₂` gives `|latStep φ₁ − latStep φ₂| ≤ K |φ₁ − φ₂|`. -/
theorem latStep_contraction (x y z : ℝ) (ell : Ellipsoid) (ha : 0 < ell.semimaj)
    (h0 : 0 ≤ ell.ecc1sq) (h1 : ell.ecc1sq < 1) (hp : 0 < Real.sqrt (x ^ 2 + y ^ 2))
    (ρmin : ℝ) (hρ : 0 < ρmin) (φ₁ φ₂ : ℝ)
    (hQ : ∀ φ ∈ Set.uIcc φ₁ φ₂, ρmin ^ 2
      ≤ Real.sqrt (x ^ 2 + y ^ 2) ^ 2 + (z + nu ell φ * ell.ecc1sq * Real.sin φ) ^ 2) :
    |latStep x y z ell φ₁ - latStep x y z ell φ₂| ≤ contractionK ell ρmin * |φ₁ - φ₂| :=
  latStep_contraction_on x y z ell ha h0 h1 hp ρmin hρ _ (convex_uIcc φ₁ φ₂) hQ φ₁ φ₂
    Set.left_mem_uIcc Set.right_mem_uIcc

/-- **Global contraction** from a hypothesis on the point only (geocentric distance). -/
theorem latStep_contraction_global (x y z : ℝ) (ell : Ellipsoid) (ha : 0 < ell.semimaj)
    (h0 : 0 ≤ ell.ecc1sq) (h1 : ell.ecc1sq < 1) (hp : 0 < Real.sqrt (x ^ 2 + y ^ 2))
    (ρmin : ℝ) (hρ : 0 < ρmin)
    (hr : ρmin + ell.semimaj * ell.ecc1sq / Real.sqrt (1 - ell.ecc1sq)
      ≤ Real.sqrt (x ^ 2 + y ^ 2 + z ^ 2)) (φ₁ φ₂ : ℝ) :
    |latStep x y z ell φ₁ - latStep x y z ell φ₂| ≤ contractionK ell ρmin * |φ₁ - φ₂| :=
  latStep_contraction x y z ell ha h0 h1 hp ρmin hρ φ₁ φ₂
    (fun φ _ => Q_lower_bound x y z ell ha h0 h1 ρmin hρ.le hr φ)

/-! ## 4. A-posteriori estimate at the loop exit -/

/-- the standard a-posteriori estimate for a map that contracts towards its fixed point -/
theorem apost_estimate (T : ℝ → ℝ) (K δ φprev φs : ℝ) (hK0 : 0 ≤ K) (hK1 : K < 1)
    (hfix : T φs = φs) (hLip : |T φprev - T φs| ≤ K * |φprev - φs|)
    (hexit : |φprev - T φprev| ≤ δ) : |T φprev - φs| ≤ K * δ / (1 - K) := by
  have h1K : 0 < 1 - K := by linarith
  rw [le_div_iff₀ h1K]
  rw [hfix] at hLip
  have htri : |φprev - φs| ≤ |φprev - T φprev| + |T φprev - φs| := by
    have := abs_add_le (φprev - T φprev) (T φprev - φs)
    rwa [sub_add_sub_cancel] at this
  have : K * |φprev - φs| ≤ K * (δ + |T φprev - φs|) :=
    mul_le_mul_of_nonneg_left (by linarith) hK0
  nlinarith

/-- **Exit iterate is close to the fixed point.** If `φs` is a fixed point of `latStep`, the
contraction hypothesis holds on the segment between `φprev` and `φs` with factor `K < 1`, and the
loop's exit test `|φprev − latStep φprev| ≤ δ` holds, then the returned iterate `latStep φprev`
satisfies `|latStep φprev − φs| ≤ K δ / (1 − K)`. -/
theorem exit_close_to_fixed_point (x y z : ℝ) (ell : Ellipsoid) (ha : 0 < ell.semimaj)
    (h0 : 0 ≤ ell.ecc1sq) (h1 : ell.ecc1sq < 1) (hp : 0 < Real.sqrt (x ^ 2 + y ^ 2))
    (ρmin : ℝ) (hρ : 0 < ρmin) (φprev φs δ : ℝ)
    (hQ : ∀ φ ∈ Set.uIcc φprev φs, ρmin ^ 2
      ≤ Real.sqrt (x ^ 2 + y ^ 2) ^ 2 + (z + nu ell φ * ell.ecc1sq * Real.sin φ) ^ 2)
    (hK : contractionK ell ρmin < 1)
    (hfix : latStep x y z ell φs = φs)
    (hexit : |φprev - latStep x y z ell φprev| ≤ δ) :
    |latStep x y z ell φprev - φs|
      ≤ contractionK ell ρmin * δ / (1 - contractionK ell ρmin) :=
  apost_estimate (latStep x y z ell) _ δ φprev φs (contractionK_nonneg ell ha h0 h1 ρmin hρ) hK hfix
    (latStep_contraction x y z ell ha h0 h1 hp ρmin hρ φprev φs hQ) hexit

/-! ## 5. Earth-like numbers -/

/-- `√(1 − e²) ≥ 0.9965` for `e² ≤ 0.0068` -/
theorem sqrt_one_sub_e2_ge (e : ℝ) (heU : e ≤ 68 / 10000) : 9965 / 10000 ≤ Real.sqrt (1 - e) := by
  rw [Real.le_sqrt (by norm_num) (by linarith)]
  norm_num
  linarith

/-- For `0 < a ≤ 6.4·10⁶`, `0 ≤ e² ≤ 0.0068` and `ρmin = 6.3·10⁶` the contraction factor is
`≤ 0.007`. -/
theorem contractionK_earth (ell : Ellipsoid) (ha : 0 < ell.semimaj) (haU : ell.semimaj ≤ 6400000)
    (h0 : 0 ≤ ell.ecc1sq) (heU : ell.ecc1sq ≤ 68 / 10000) :
    contractionK ell 6300000 ≤ 7 / 1000 := by
  have hs := sqrt_one_sub_e2_ge ell.ecc1sq heU
  have h1e : 9932 / 10000 ≤ 1 - ell.ecc1sq := by linarith
  have hnum : ell.ecc1sq * ell.semimaj ≤ 43520 := by nlinarith
  have hden : (6235234 : ℝ) ≤ (1 - ell.ecc1sq) * Real.sqrt (1 - ell.ecc1sq) * 6300000 := by
    have : (9932 / 10000 : ℝ) * (9965 / 10000) ≤ (1 - ell.ecc1sq) * Real.sqrt (1 - ell.ecc1sq) :=
      mul_le_mul h1e hs (by norm_num) (by linarith)
    nlinarith
  unfold contractionK
  rw [div_le_iff₀ (by linarith)]
  nlinarith

/-- `a e²/√(1−e²) ≤ 43700` m for the same range -/
theorem offset_earth (ell : Ellipsoid) (ha : 0 < ell.semimaj) (haU : ell.semimaj ≤ 6400000)
    (h0 : 0 ≤ ell.ecc1sq) (heU : ell.ecc1sq ≤ 68 / 10000) :
    ell.semimaj * ell.ecc1sq / Real.sqrt (1 - ell.ecc1sq) ≤ 43700 := by
  have hs := sqrt_one_sub_e2_ge ell.ecc1sq heU
  have hnum : ell.semimaj * ell.ecc1sq ≤ 43520 := by nlinarith
  rw [div_le_iff₀ (by linarith)]
  nlinarith

/-- On an Earth-like ellipsoid, for a point at geocentric distance `≥ 6 343 700 m` (every point at
ellipsoidal height `≥ −10⁴ m`, see `radius_ge_of_height`), `latStep` is a global contraction with
factor `0.007`. -/
theorem latStep_contraction_earth (x y z : ℝ) (ell : Ellipsoid) (ha : 0 < ell.semimaj)
    (haU : ell.semimaj ≤ 6400000) (h0 : 0 ≤ ell.ecc1sq) (heU : ell.ecc1sq ≤ 68 / 10000)
    (hp : 0 < Real.sqrt (x ^ 2 + y ^ 2))
    (hr : 6343700 ≤ Real.sqrt (x ^ 2 + y ^ 2 + z ^ 2)) (φ₁ φ₂ : ℝ) :
    |latStep x y z ell φ₁ - latStep x y z ell φ₂| ≤ 7 / 1000 * |φ₁ - φ₂| := by
  have h1 : ell.ecc1sq < 1 := by linarith
  have hoff := offset_earth ell ha haU h0 heU
  have := latStep_contraction_global x y z ell ha h0 h1 hp 6300000 (by norm_num)
    (by linarith) φ₁ φ₂
  have hK := contractionK_earth ell ha haU h0 heU
  exact this.trans (mul_le_mul_of_nonneg_right hK (abs_nonneg _))

/-- **Numeric corollary.** Earth-like ellipsoid, point off the axis at geocentric distance
`≥ 6 343 700 m`, `φs` a fixed point, exit test with `δ = 10⁻¹⁰`: the returned latitude is within
`7.1·10⁻¹³` rad of the fixed point (about 4.5 µm on the ground). -/
theorem exit_error_bound (x y z : ℝ) (ell : Ellipsoid) (ha : 0 < ell.semimaj)
    (haU : ell.semimaj ≤ 6400000) (h0 : 0 ≤ ell.ecc1sq) (heU : ell.ecc1sq ≤ 68 / 10000)
    (hp : 0 < Real.sqrt (x ^ 2 + y ^ 2))
    (hr : 6343700 ≤ Real.sqrt (x ^ 2 + y ^ 2 + z ^ 2)) (φprev φs : ℝ)
    (hfix : latStep x y z ell φs = φs)
    (hexit : |φprev - latStep x y z ell φprev| ≤ 1 / 10 ^ 10) :
    |latStep x y z ell φprev - φs| ≤ 71 / 10 ^ 14 := by
  have := apost_estimate (latStep x y z ell) (7 / 1000) (1 / 10 ^ 10) φprev φs (by norm_num)
    (by norm_num) hfix (latStep_contraction_earth x y z ell ha haU h0 heU hp hr φprev φs) hexit
  refine this.trans ?_
  norm_num

/-- the hypotheses of `exit_error_bound` on the ellipsoid are those of GRS80 -/
example : (0 : ℝ) < 6378137 ∧ (6378137 : ℝ) ≤ 6400000 ∧
    (0 : ℝ) ≤ 1 / 298.257222101 * (2 - 1 / 298.257222101) ∧
    (1 : ℝ) / 298.257222101 * (2 - 1 / 298.257222101) ≤ 68 / 10000 := by norm_num

/-- **The same for the value returned by the generated `xyz2llh`.** If `xyz2llh x y z ell` returns
`(lat, lon, h)` then `radians lat` is within `7.1·10⁻¹³` rad of every (hence the) fixed point. -/
theorem xyz2llh_exit_error_bound (x y z : ℝ) (ell : Ellipsoid) (ha : 0 < ell.semimaj)
    (haU : ell.semimaj ≤ 6400000) (h0 : 0 ≤ ell.ecc1sq) (heU : ell.ecc1sq ≤ 68 / 10000)
    (hp : 0 < Real.sqrt (x ^ 2 + y ^ 2))
    (hr : 6343700 ≤ Real.sqrt (x ^ 2 + y ^ 2 + z ^ 2)) (lat lon h φs : ℝ)
    (hok : xyz2llh x y z ell = .ok (lat, lon, h))
    (hfix : latStep x y z ell φs = φs) :
    |PyR.radians lat - φs| ≤ 71 / 10 ^ 14 := by
  obtain ⟨j, _, hexit⟩ := xyz2llh_fixed_point x y z ell lat lon h hok
  simp only at hexit
  obtain ⟨hex, hlat, _, _⟩ := hexit
  have hrad : PyR.radians lat
      = latStep x y z ell ((latStep x y z ell)^[j] (latInit x y z ell)) := by
    rw [hlat]; exact radians_degrees _
  rw [hrad]
  exact exit_error_bound x y z ell ha haU h0 heU hp hr _ φs hfix hex

/-! ## 6. Existence and uniqueness of the fixed point (Banach) -/

/-- Under the global hypothesis with `K < 1` the iteration map has exactly one fixed point. -/
theorem fixed_point_exists (x y z : ℝ) (ell : Ellipsoid) (ha : 0 < ell.semimaj)
    (h0 : 0 ≤ ell.ecc1sq) (h1 : ell.ecc1sq < 1) (hp : 0 < Real.sqrt (x ^ 2 + y ^ 2))
    (ρmin : ℝ) (hρ : 0 < ρmin)
    (hr : ρmin + ell.semimaj * ell.ecc1sq / Real.sqrt (1 - ell.ecc1sq)
      ≤ Real.sqrt (x ^ 2 + y ^ 2 + z ^ 2))
    (hK : contractionK ell ρmin < 1) :
    ∃! φs : ℝ, latStep x y z ell φs = φs := by
  have hK0 := contractionK_nonneg ell ha h0 h1 ρmin hρ
  have hc : ContractingWith (Real.toNNReal (contractionK ell ρmin)) (latStep x y z ell) := by
    refine ⟨?_, LipschitzWith.of_dist_le_mul fun φ₁ φ₂ => ?_⟩
    · rw [← NNReal.coe_lt_coe, Real.coe_toNNReal _ hK0]; exact hK
    · rw [Real.dist_eq, Real.dist_eq, Real.coe_toNNReal _ hK0]
      exact latStep_contraction_global x y z ell ha h0 h1 hp ρmin hρ hr φ₁ φ₂
  exact ⟨ContractingWith.fixedPoint _ hc, hc.fixedPoint_isFixedPt,
    fun φ hφ => hc.fixedPoint_unique hφ⟩

/-- Earth-like instance of `fixed_point_exists`. -/
theorem fixed_point_exists_earth (x y z : ℝ) (ell : Ellipsoid) (ha : 0 < ell.semimaj)
    (haU : ell.semimaj ≤ 6400000) (h0 : 0 ≤ ell.ecc1sq) (heU : ell.ecc1sq ≤ 68 / 10000)
    (hp : 0 < Real.sqrt (x ^ 2 + y ^ 2))
    (hr : 6343700 ≤ Real.sqrt (x ^ 2 + y ^ 2 + z ^ 2)) :
    ∃! φs : ℝ, latStep x y z ell φs = φs := by
  have hoff := offset_earth ell ha haU h0 heU
  have hK := contractionK_earth ell ha haU h0 heU
  exact fixed_point_exists x y z ell ha h0 (by linarith) hp 6300000 (by norm_num) (by linarith)
    (by linarith)

/-! ## 7. Discharging the hypotheses for a point given by its geodetic coordinates -/

/-- Cauchy–Schwarz against a unit vector -/
theorem dot_le_norm (n1 n2 n3 x y z : ℝ) (hn : n1 ^ 2 + n2 ^ 2 + n3 ^ 2 = 1) :
    n1 * x + n2 * y + n3 * z ≤ Real.sqrt (x ^ 2 + y ^ 2 + z ^ 2) := by
  refine (le_abs_self _).trans (Real.abs_le_sqrt ?_)
  have : x ^ 2 + y ^ 2 + z ^ 2 - (n1 * x + n2 * y + n3 * z) ^ 2
      = (n1 * y - n2 * x) ^ 2 + (n1 * z - n3 * x) ^ 2 + (n2 * z - n3 * y) ^ 2 := by
    linear_combination (-(x ^ 2 + y ^ 2 + z ^ 2)) * hn
  nlinarith [sq_nonneg (n1 * y - n2 * x), sq_nonneg (n1 * z - n3 * x), sq_nonneg (n2 * z - n3 * y)]

/-- **Geocentric distance from height.** The point `llh2xyz(φ, λ, h)` is at geocentric distance
`≥ a√(1−e²) + h = b + h` (its component along the ellipsoid normal is `a√W + h`). -/
theorem radius_ge_of_height (ell : Ellipsoid) (ha : 0 < ell.semimaj) (h0 : 0 ≤ ell.ecc1sq)
    (h1 : ell.ecc1sq < 1) (hell : ell.semimin ^ 2 / ell.semimaj ^ 2 = 1 - ell.ecc1sq)
    (φ lam h x y z : ℝ)
    (hP : llh2xyz (PyR.degrees φ) (PyR.degrees lam) h ell = (x, y, z)) :
    ell.semimaj * Real.sqrt (1 - ell.ecc1sq) + h ≤ Real.sqrt (x ^ 2 + y ^ 2 + z ^ 2) := by
  rw [llh2xyz_degrees, hell, mul_comm (1 - ell.ecc1sq) (nu ell φ)] at hP
  simp only [Prod.mk.injEq] at hP
  obtain ⟨rfl, rfl, rfl⟩ := hP
  have hWge := W_ge ell.ecc1sq φ h0
  have hWpos : 0 < 1 - ell.ecc1sq * Real.sin φ ^ 2 := by linarith
  have hsq : Real.sqrt (1 - ell.ecc1sq) ≤ Real.sqrt (1 - ell.ecc1sq * Real.sin φ ^ 2) :=
    Real.sqrt_le_sqrt hWge
  have hsqW : 0 < Real.sqrt (1 - ell.ecc1sq * Real.sin φ ^ 2) := Real.sqrt_pos.mpr hWpos
  have hr2 : Real.sqrt (1 - ell.ecc1sq * Real.sin φ ^ 2) ^ 2 = 1 - ell.ecc1sq * Real.sin φ ^ 2 :=
    Real.sq_sqrt hWpos.le
  have h1' := Real.sin_sq_add_cos_sq φ
  have h2' := Real.sin_sq_add_cos_sq lam
  have hn : (Real.cos φ * Real.cos lam) ^ 2 + (Real.cos φ * Real.sin lam) ^ 2 + Real.sin φ ^ 2
      = 1 := by
    have : (Real.cos φ * Real.cos lam) ^ 2 + (Real.cos φ * Real.sin lam) ^ 2 + Real.sin φ ^ 2
        = Real.cos φ ^ 2 * (Real.sin lam ^ 2 + Real.cos lam ^ 2) + Real.sin φ ^ 2 := by ring
    rw [this, h2']; linarith
  refine le_trans ?_ (dot_le_norm _ _ _ _ _ _ hn)
  -- the normal component equals ν W + h = a √W + h
  have hνW : nu ell φ * (1 - ell.ecc1sq * Real.sin φ ^ 2)
      = ell.semimaj * Real.sqrt (1 - ell.ecc1sq * Real.sin φ ^ 2) := by
    have hne := hsqW.ne'
    calc nu ell φ * (1 - ell.ecc1sq * Real.sin φ ^ 2)
        = ell.semimaj / Real.sqrt (1 - ell.ecc1sq * Real.sin φ ^ 2)
          * Real.sqrt (1 - ell.ecc1sq * Real.sin φ ^ 2) ^ 2 := by rw [hr2]
      _ = ell.semimaj * Real.sqrt (1 - ell.ecc1sq * Real.sin φ ^ 2) := by field_simp
  have hdot : Real.cos φ * Real.cos lam * ((nu ell φ + h) * Real.cos φ * Real.cos lam)
      + Real.cos φ * Real.sin lam * ((nu ell φ + h) * Real.cos φ * Real.sin lam)
      + Real.sin φ * ((nu ell φ * (1 - ell.ecc1sq) + h) * Real.sin φ)
      = ell.semimaj * Real.sqrt (1 - ell.ecc1sq * Real.sin φ ^ 2) + h := by
    rw [← hνW]
    have hc2 : Real.cos φ ^ 2 = 1 - Real.sin φ ^ 2 := by linarith
    have hl2 : Real.cos lam ^ 2 = 1 - Real.sin lam ^ 2 := by linarith
    generalize nu ell φ = ν
    linear_combination ((ν + h) * (Real.sin lam ^ 2 + Real.cos lam ^ 2)) * hc2
      + ((ν + h) * (1 - Real.sin φ ^ 2)) * hl2
  rw [hdot]
  have := mul_le_mul_of_nonneg_left hsq ha.le
  linarith

/-- **The true latitude is a fixed point.** For `−π/2 < φ < π/2` and `ν(φ) + h > 0`, the point
`(x, y, z) = llh2xyz(φ, λ, h)` is off the axis and `φ` is a fixed point of its `latStep`. -/
theorem llh_is_fixed_point (ell : Ellipsoid)
    (hell : ell.semimin ^ 2 / ell.semimaj ^ 2 = 1 - ell.ecc1sq)
    (φ lam h x y z : ℝ) (hφ1 : -(Real.pi / 2) < φ) (hφ2 : φ < Real.pi / 2)
    (hνh : 0 < nu ell φ + h)
    (hP : llh2xyz (PyR.degrees φ) (PyR.degrees lam) h ell = (x, y, z)) :
    0 < Real.sqrt (x ^ 2 + y ^ 2) ∧ latStep x y z ell φ = φ := by
  rw [llh2xyz_degrees, hell, mul_comm (1 - ell.ecc1sq) (nu ell φ)] at hP
  simp only [Prod.mk.injEq] at hP
  obtain ⟨rfl, rfl, rfl⟩ := hP
  have hc : 0 < Real.cos φ := Real.cos_pos_of_mem_Ioo ⟨hφ1, hφ2⟩
  have hpc : 0 < (nu ell φ + h) * Real.cos φ := mul_pos hνh hc
  have h2' := Real.sin_sq_add_cos_sq lam
  have hp : Real.sqrt (((nu ell φ + h) * Real.cos φ * Real.cos lam) ^ 2
      + ((nu ell φ + h) * Real.cos φ * Real.sin lam) ^ 2) = (nu ell φ + h) * Real.cos φ := by
    rw [show ((nu ell φ + h) * Real.cos φ * Real.cos lam) ^ 2
        + ((nu ell φ + h) * Real.cos φ * Real.sin lam) ^ 2
        = ((nu ell φ + h) * Real.cos φ) ^ 2 * (Real.sin lam ^ 2 + Real.cos lam ^ 2) by ring,
      h2', mul_one]
    exact Real.sqrt_sq hpc.le
  refine ⟨by rw [hp]; exact hpc, ?_⟩
  show Real.arctan _ = φ
  rw [hp]
  have harg : ((nu ell φ * (1 - ell.ecc1sq) + h) * Real.sin φ
      + nu ell φ * ell.ecc1sq * Real.sin φ) / ((nu ell φ + h) * Real.cos φ) = Real.tan φ := by
    rw [Real.tan_eq_sin_div_cos]
    have := hνh.ne'
    have := hc.ne'
    field_simp
    ring
  rw [harg]
  exact Real.arctan_tan hφ1 hφ2

/-- **End-to-end latitude error of the round trip in exact arithmetic.** Earth-like ellipsoid
(`6 377 000 ≤ a ≤ 6 400 000`, `0 ≤ e² ≤ 0.0068`, `b²/a² = 1 − e²`), any latitude strictly between
the poles, any longitude, any height `h ≥ −10⁴ m`: if the generated `xyz2llh` returns on
`llh2xyz(φ, λ, h)`, the returned latitude is within `7.1·10⁻¹³` rad of `φ`. -/
theorem xyz2llh_llh2xyz_lat_error (ell : Ellipsoid) (haL : 6377000 ≤ ell.semimaj)
    (haU : ell.semimaj ≤ 6400000) (h0 : 0 ≤ ell.ecc1sq) (heU : ell.ecc1sq ≤ 68 / 10000)
    (hell : ell.semimin ^ 2 / ell.semimaj ^ 2 = 1 - ell.ecc1sq)
    (φ lam h x y z : ℝ) (hφ1 : -(Real.pi / 2) < φ) (hφ2 : φ < Real.pi / 2)
    (hh : -10000 ≤ h)
    (hP : llh2xyz (PyR.degrees φ) (PyR.degrees lam) h ell = (x, y, z))
    (lat lon h' : ℝ) (hok : xyz2llh x y z ell = .ok (lat, lon, h')) :
    |PyR.radians lat - φ| ≤ 71 / 10 ^ 14 := by
  have ha : 0 < ell.semimaj := by linarith
  have h1 : ell.ecc1sq < 1 := by linarith
  -- ν ≥ a
  have hWpos := W_pos ell.ecc1sq φ h0 h1
  have hWle : 1 - ell.ecc1sq * Real.sin φ ^ 2 ≤ 1 := by nlinarith [sq_nonneg (Real.sin φ)]
  have hsqW : 0 < Real.sqrt (1 - ell.ecc1sq * Real.sin φ ^ 2) := Real.sqrt_pos.mpr hWpos
  have hsqle : Real.sqrt (1 - ell.ecc1sq * Real.sin φ ^ 2) ≤ 1 := by
    have := Real.sqrt_le_sqrt hWle
    rwa [Real.sqrt_one] at this
  have hν : ell.semimaj ≤ nu ell φ := by
    simp only [nu]
    rw [le_div_iff₀ hsqW]
    nlinarith
  obtain ⟨hp, hfix⟩ := llh_is_fixed_point ell hell φ lam h x y z hφ1 hφ2 (by linarith) hP
  have hrad := radius_ge_of_height ell ha h0 h1 hell φ lam h x y z hP
  have hs := sqrt_one_sub_e2_ge ell.ecc1sq heU
  have hr : 6343700 ≤ Real.sqrt (x ^ 2 + y ^ 2 + z ^ 2) := by nlinarith
  exact xyz2llh_exit_error_bound x y z ell ha haU h0 heU hp hr lat lon h' φ hok hfix

/-- the ellipsoid hypotheses of `xyz2llh_llh2xyz_lat_error` hold for every constructed ellipsoid
with GRS80's parameters -/
example : let ell := Ellipsoid.init 6378137 298.257222101
    6377000 ≤ ell.semimaj ∧ ell.semimaj ≤ 6400000 ∧ 0 ≤ ell.ecc1sq ∧ ell.ecc1sq ≤ 68 / 10000 ∧
    ell.semimin ^ 2 / ell.semimaj ^ 2 = 1 - ell.ecc1sq := by
  intro ell
  refine ⟨?_, ?_, ?_, ?_, init_axis_ratio _ _ (by norm_num)⟩
  · show (6377000 : ℝ) ≤ 6378137; norm_num
  · show (6378137 : ℝ) ≤ 6400000; norm_num
  · show (0 : ℝ) ≤ 1 / 298.257222101 * (2 - 1 / 298.257222101); norm_num
  · show (1 : ℝ) / 298.257222101 * (2 - 1 / 298.257222101) ≤ 68 / 10000; norm_num

/-- the hypotheses `hP`, `hok` of `xyz2llh_llh2xyz_lat_error` are jointly satisfiable (with
`φ = λ = h = 0`) on every ellipsoid with `a > 0`: `xyz2llh` does return on `llh2xyz(0, 0, 0)` -/
example (ell : Ellipsoid) (ha : 0 < ell.semimaj) :
    ∃ x y z lat lon h' : ℝ, llh2xyz (PyR.degrees 0) (PyR.degrees 0) 0 ell = (x, y, z) ∧
      xyz2llh x y z ell = .ok (lat, lon, h') := by
  have hd : PyR.degrees 0 = 0 := by simp
  refine ⟨_, _, _, _, _, _, by rw [hd]; exact llh2xyz_equator ell 0 0,
    (xyz2llh_equatorial_plane _ _ ell ?_).1⟩
  simp only [add_zero, zero_mul, Real.cos_zero, Real.sin_zero, mul_one, mul_zero]
  rw [show ell.semimaj ^ 2 + (0 : ℝ) ^ 2 = ell.semimaj ^ 2 by ring, Real.sqrt_sq ha.le]
  exact ha.ne'

end GeodeVerif.C03

#print axioms GeodeVerif.C03.latStep_deriv
#print axioms GeodeVerif.C03.latStep_deriv_bound
#print axioms GeodeVerif.C03.Q_lower_bound
#print axioms GeodeVerif.C03.latStep_contraction
#print axioms GeodeVerif.C03.latStep_contraction_global
#print axioms GeodeVerif.C03.exit_close_to_fixed_point
#print axioms GeodeVerif.C03.exit_error_bound
#print axioms GeodeVerif.C03.xyz2llh_exit_error_bound
#print axioms GeodeVerif.C03.fixed_point_exists
#print axioms GeodeVerif.C03.fixed_point_exists_earth
#print axioms GeodeVerif.C03.radius_ge_of_height
#print axioms GeodeVerif.C03.llh_is_fixed_point
#print axioms GeodeVerif.C03.xyz2llh_llh2xyz_lat_error
