import GeodeVerif.Proofs.C06
/-!
# C07 — 14-parameter transformation: theorems about the regenerated `GenR.Transform.conform14`,
`GenR.Constants.Transformation.add` and the ATRF2014 ↔ GDA2020 wrappers
-/
namespace GeodeVerif.C07
open Py PyR GenR.Transform GenR.Constants
open GeodeVerif.C06

noncomputable section

/-! ## `roundHalfEven` facts -/

theorem rhe_nonneg {x : ℝ} (hx : 0 ≤ x) : 0 ≤ roundHalfEven x := by
  have h := roundHalfEven_close x
  rw [abs_le] at h
  have : (-1 : ℝ) < (roundHalfEven x : ℝ) := by linarith [h.1]
  have : (-1 : ℤ) < roundHalfEven x := by exact_mod_cast this
  omega

theorem rhe_lt_of_lt {x : ℝ} {n : ℤ} (hx : x < (n : ℝ) - 1 / 2) : roundHalfEven x < n := by
  have h := roundHalfEven_close x
  rw [abs_le] at h
  have : (roundHalfEven x : ℝ) < (n : ℝ) := by linarith [h.2]
  exact_mod_cast this

theorem rhe_ge_of_gt {x : ℝ} {n : ℤ} (hx : (n : ℝ) - 1 / 2 < x) : n ≤ roundHalfEven x := by
  have h := roundHalfEven_close x
  rw [abs_le] at h
  have : (n : ℝ) - 1 < (roundHalfEven x : ℝ) := by linarith [h.1]
  have : n - 1 < roundHalfEven x := by exact_mod_cast this
  omega

theorem rhe_zero : roundHalfEven 0 = 0 := by
  have h0 := rhe_nonneg (le_refl (0 : ℝ))
  have h1 : roundHalfEven 0 < (1 : ℤ) := rhe_lt_of_lt (by norm_num)
  omega

/-! ## `Transformation.add` (`__add__` with a date) -/

/-- elapsed time in Julian years since the reference epoch: days / 365.25 — no absolute value,
no clamp -/
def elapsed (p : Transformation) (d : Int × Int × Int) : ℝ :=
  dateDiffDays d p.ref_epoch / dec 36525 2

theorem julian_year : dec 36525 2 = 365.25 := by simp only [dec_def]; norm_num

/-- **C07.4** `Δ = (days(d) − days(ref)) / 365.25` — negative before the reference epoch -/
theorem before_epoch (p : Transformation) (d ref : Int × Int × Int) (h : p.ref_epoch = some ref) :
    elapsed p d = ((dateDays d - dateDays ref : ℤ) : ℝ) / 365.25 := by
  unfold elapsed; rw [h, julian_year]; rfl

theorem elapsed_neg_of_before (p : Transformation) (d ref : Int × Int × Int)
    (h : p.ref_epoch = some ref) (hd : dateDays d < dateDays ref) : elapsed p d < 0 := by
  rw [before_epoch p d ref h]
  apply div_neg_of_neg_of_pos _ (by norm_num)
  have : dateDays d - dateDays ref < 0 := by omega
  exact_mod_cast this

example : elapsed atrf2014_to_gda2020 (2018, 1, 1) < 0 :=
  elapsed_neg_of_before _ _ (2020, 1, 1) rfl (by decide)

/-- **C07.1** every parameter is advanced by rate × elapsed years and rounded to 8 decimals; rates
and labels unchanged; the epoch becomes `d` -/
theorem add_params (p : Transformation) (d : Int × Int × Int) :
    let q := Transformation.add p d
    (q.tx = pround 8 (p.tx + p.d_tx * elapsed p d) ∧ q.ty = pround 8 (p.ty + p.d_ty * elapsed p d) ∧
      q.tz = pround 8 (p.tz + p.d_tz * elapsed p d) ∧ q.sc = pround 8 (p.sc + p.d_sc * elapsed p d) ∧
      q.rx = pround 8 (p.rx + p.d_rx * elapsed p d) ∧ q.ry = pround 8 (p.ry + p.d_ry * elapsed p d) ∧
      q.rz = pround 8 (p.rz + p.d_rz * elapsed p d)) ∧
    (q.d_tx = p.d_tx ∧ q.d_ty = p.d_ty ∧ q.d_tz = p.d_tz ∧ q.d_sc = p.d_sc ∧ q.d_rx = p.d_rx ∧
      q.d_ry = p.d_ry ∧ q.d_rz = p.d_rz) ∧
    q.ref_epoch = some d ∧ q.from_datum = p.from_datum ∧ q.to_datum = p.to_datum :=
  ⟨⟨rfl, rfl, rfl, rfl, rfl, rfl, rfl⟩, ⟨rfl, rfl, rfl, rfl, rfl, rfl, rfl⟩, rfl, rfl, rfl⟩

theorem pround8_close (v : ℝ) : |pround 8 v - v| ≤ 5 / 10 ^ 9 := by
  have := pround_close 8 v
  norm_num at this ⊢
  exact this

/-! ## `conform14` is `conform7` after `add` -/

/-- **C07.2a** -/
theorem conform14_is_conform7_of_add (x y z : ℝ) (d : Int × Int × Int) (p : Transformation)
    (vcv : Option T9) : conform14 x y z d p vcv = conform7 x y z (Transformation.add p d) vcv := by
  unfold conform14
  show Except.bind (conform7 x y z (Transformation.add p d) vcv) _ = _
  generalize conform7 x y z (Transformation.add p d) vcv = r
  cases r with
  | error e => rfl
  | ok r => obtain ⟨a, b, c, w⟩ := r; rfl

/-- **C07.7** the two wrappers are `conform14` with the plate-motion set and its negation -/
theorem wrappers_use_plate_model (x y z : ℝ) (d : Int × Int × Int) (vcv : Option T9) :
    transform_atrf2014_to_gda2020 x y z d vcv = conform14 x y z d atrf2014_to_gda2020 vcv ∧
    transform_gda2020_to_atrf2014 x y z d vcv
      = conform14 x y z d (Transformation.neg atrf2014_to_gda2020) vcv :=
  ⟨rfl, rfl⟩

/-! ## Perturbation of the formula in all seven parameters -/

theorem comp_bound {dt ds x1 k w εt εs P M W : ℝ} (h1 : |dt| ≤ εt) (h2 : |ds| ≤ εs)
    (h3 : |x1| ≤ M) (h4 : |k| ≤ 2 * P * M) (h5 : |w| ≤ W) :
    |dt + ds * (x1 + k) + w| ≤ εt + εs * (M + 2 * P * M) + W := by
  have hεs : 0 ≤ εs := (abs_nonneg _).trans h2
  have hxk : |x1 + k| ≤ M + 2 * P * M := (abs_add_le _ _).trans (add_le_add h3 h4)
  have h6 : |ds * (x1 + k)| ≤ εs * (M + 2 * P * M) := by
    rw [abs_mul]; exact mul_le_mul h2 hxk (abs_nonneg _) hεs
  calc |dt + ds * (x1 + k) + w| ≤ |dt + ds * (x1 + k)| + |w| := abs_add_le _ _
    _ ≤ |dt| + |ds * (x1 + k)| + |w| := by linarith [abs_add_le dt (ds * (x1 + k))]
    _ ≤ εt + εs * (M + 2 * P * M) + W := by linarith

/-- **C07.2 (algebra)** changing translations by ≤ `εt`, scale by ≤ `εs`, rotations by ≤ `ερ` moves each
coordinate by at most `εt + εs·(M + 2PM) + 2·ερ·(1+|s'|)·M` (`|ρ_i| ≤ P`, `|x_i| ≤ M`) -/
theorem helmert_perturb (t t' : ℝ × ℝ × ℝ) (s s' : ℝ) (ρ ρ' x : ℝ × ℝ × ℝ) (εt εs ερ P M : ℝ)
    (ht : |t.1 - t'.1| ≤ εt ∧ |t.2.1 - t'.2.1| ≤ εt ∧ |t.2.2 - t'.2.2| ≤ εt) (hs : |s - s'| ≤ εs)
    (hρ : |ρ.1 - ρ'.1| ≤ ερ ∧ |ρ.2.1 - ρ'.2.1| ≤ ερ ∧ |ρ.2.2 - ρ'.2.2| ≤ ερ)
    (hP : |ρ.1| ≤ P ∧ |ρ.2.1| ≤ P ∧ |ρ.2.2| ≤ P) (hM : |x.1| ≤ M ∧ |x.2.1| ≤ M ∧ |x.2.2| ≤ M) :
    |(helmert t s ρ x).1 - (helmert t' s' ρ' x).1|
        ≤ εt + εs * (M + 2 * P * M) + 2 * ερ * (1 + |s'|) * M ∧
    |(helmert t s ρ x).2.1 - (helmert t' s' ρ' x).2.1|
        ≤ εt + εs * (M + 2 * P * M) + 2 * ερ * (1 + |s'|) * M ∧
    |(helmert t s ρ x).2.2 - (helmert t' s' ρ' x).2.2|
        ≤ εt + εs * (M + 2 * P * M) + 2 * ερ * (1 + |s'|) * M := by
  obtain ⟨r1, r2, r3⟩ := hρ
  obtain ⟨m1, m2, m3⟩ := hM
  have r1' : |-(ρ.1 - ρ'.1)| ≤ ερ := by rwa [abs_neg]
  have r2' : |-(ρ.2.1 - ρ'.2.1)| ≤ ερ := by rwa [abs_neg]
  have r3' : |-(ρ.2.2 - ρ'.2.2)| ≤ ερ := by rwa [abs_neg]
  have k := skew_bound ρ x P M hP ⟨m1, m2, m3⟩
  refine ⟨?_, ?_, ?_⟩
  · have e : (helmert t s ρ x).1 - (helmert t' s' ρ' x).1
        = (t.1 - t'.1) + (s - s') * (x.1 + (skew ρ x).1)
          + (1 + s') * ((ρ.2.2 - ρ'.2.2) * x.2.1 + (-(ρ.2.1 - ρ'.2.1)) * x.2.2) := by
      simp only [helmert, skew]; ring
    rw [e]
    exact comp_bound ht.1 hs m1 k.1 (abs_scaled_two_terms r3 r2' m2 m3)
  · have e : (helmert t s ρ x).2.1 - (helmert t' s' ρ' x).2.1
        = (t.2.1 - t'.2.1) + (s - s') * (x.2.1 + (skew ρ x).2.1)
          + (1 + s') * ((-(ρ.2.2 - ρ'.2.2)) * x.1 + (ρ.1 - ρ'.1) * x.2.2) := by
      simp only [helmert, skew]; ring
    rw [e]
    exact comp_bound ht.2.1 hs m2 k.2.1 (abs_scaled_two_terms r3' r1 m1 m3)
  · have e : (helmert t s ρ x).2.2 - (helmert t' s' ρ' x).2.2
        = (t.2.2 - t'.2.2) + (s - s') * (x.2.2 + (skew ρ x).2.2)
          + (1 + s') * ((ρ.2.1 - ρ'.2.1) * x.1 + (-(ρ.1 - ρ'.1)) * x.2.1) := by
      simp only [helmert, skew]; ring
    rw [e]
    exact comp_bound ht.2.2 hs m3 k.2.2 (abs_scaled_two_terms r2 r1' m1 m2)

/-! ## Distance of `conform14` from the formula with exactly advanced parameters -/

/-- the exactly advanced parameters `par + rate·Δ` in the units of the formula -/
def advT (p : Transformation) (d : Int × Int × Int) : ℝ × ℝ × ℝ :=
  (p.tx + p.d_tx * elapsed p d, p.ty + p.d_ty * elapsed p d, p.tz + p.d_tz * elapsed p d)
def advS (p : Transformation) (d : Int × Int × Int) : ℝ := (p.sc + p.d_sc * elapsed p d) / 1000000
def advR (p : Transformation) (d : Int × Int × Int) : ℝ × ℝ × ℝ :=
  (arcsec (p.rx + p.d_rx * elapsed p d), arcsec (p.ry + p.d_ry * elapsed p d),
    arcsec (p.rz + p.d_rz * elapsed p d))
/-- the 7-parameter formula evaluated with each parameter advanced by rate × elapsed years -/
def apply14Exact (p : Transformation) (d : Int × Int × Int) (x : ℝ × ℝ × ℝ) : ℝ × ℝ × ℝ :=
  helmert (advT p d) (advS p d) (advR p d) x

theorem abs_pround8_le {v A : ℝ} (h : |v| ≤ A) : |pround 8 v| ≤ A + 5 / 10 ^ 9 := by
  have := pround8_close v
  calc |pround 8 v| = |(pround 8 v - v) + v| := by ring_nf
    _ ≤ |pround 8 v - v| + |v| := abs_add_le _ _
    _ ≤ A + 5 / 10 ^ 9 := by linarith

theorem arcsec_pround_close (v : ℝ) :
    |arcsec (pround 8 v) - arcsec v| ≤ 3.15 / 648000 * (5 / 10 ^ 9) := by
  have h3 := pround8_close v
  rw [arcsec_eq, arcsec_eq, ← sub_mul, abs_mul, abs_of_pos (by positivity : 0 < Real.pi / 648000),
    mul_comm]
  have hpi := Real.pi_lt_d2
  apply mul_le_mul _ h3 (abs_nonneg _) (by norm_num)
  apply div_le_div_of_nonneg_right hpi.le (by norm_num)

/-- **C07.2b** for `max(|x|,|y|,|z|) ≤ 10⁷` m, advanced rotations ≤ 60″ and advanced scale ≤ 100 ppm,
`conform14` is within 2 µm (in fact 0.6 µm) of the formula evaluated with the exactly advanced
parameters; the distance is entirely the 8-decimal rounding of the seven advanced parameters -/
theorem conform14_close (x y z : ℝ) (d : Int × Int × Int) (p : Transformation) (vcv : Option T9)
    (hr : |p.rx + p.d_rx * elapsed p d| ≤ 60 ∧ |p.ry + p.d_ry * elapsed p d| ≤ 60 ∧
      |p.rz + p.d_rz * elapsed p d| ≤ 60)
    (hsc : |p.sc + p.d_sc * elapsed p d| ≤ 100)
    (hM : |x| ≤ 10 ^ 7 ∧ |y| ≤ 10 ^ 7 ∧ |z| ≤ 10 ^ 7) :
    ∃ X Y Z v, conform14 x y z d p vcv = .ok (X, Y, Z, v) ∧
      |X - (apply14Exact p d (x, y, z)).1| ≤ 2 / 10 ^ 6 ∧
      |Y - (apply14Exact p d (x, y, z)).2.1| ≤ 2 / 10 ^ 6 ∧
      |Z - (apply14Exact p d (x, y, z)).2.2| ≤ 2 / 10 ^ 6 := by
  rw [conform14_is_conform7_of_add]
  set q := Transformation.add p d with hq
  have hqr : |q.rx| ≤ 60 + 5 / 10 ^ 9 ∧ |q.ry| ≤ 60 + 5 / 10 ^ 9 ∧ |q.rz| ≤ 60 + 5 / 10 ^ 9 :=
    ⟨abs_pround8_le hr.1, abs_pround8_le hr.2.1, abs_pround8_le hr.2.2⟩
  obtain ⟨v, hv⟩ := conform7_formula x y z q vcv
  refine ⟨_, _, _, v, hv, ?_⟩
  have hP : 3.15 / 648000 * (60 + 5 / 10 ^ 9) ≤ (2.92 / 10 ^ 4 : ℝ) := by norm_num
  have hs' : |advS p d| ≤ 1 / 10 ^ 4 := by
    unfold advS
    rw [abs_div, abs_of_pos (by norm_num : (0 : ℝ) < 1000000), div_le_iff₀ (by norm_num)]
    linarith
  have hsd : |q.sc / 1000000 - advS p d| ≤ 5 / 10 ^ 15 := by
    have := pround8_close (p.sc + p.d_sc * elapsed p d)
    have e : q.sc / 1000000 - advS p d
        = (pround 8 (p.sc + p.d_sc * elapsed p d) - (p.sc + p.d_sc * elapsed p d)) / 1000000 := by
      unfold advS; rw [← sub_div]; rfl
    rw [e, abs_div, abs_of_pos (by norm_num : (0 : ℝ) < 1000000), div_le_iff₀ (by norm_num)]
    linarith
  have key := helmert_perturb (transl q) (advT p d) (q.sc / 1000000) (advS p d) (rho q) (advR p d)
    (x, y, z) (5 / 10 ^ 9) (5 / 10 ^ 15) (3.15 / 648000 * (5 / 10 ^ 9))
    (2.92 / 10 ^ 4) (10 ^ 7)
    ⟨pround8_close _, pround8_close _, pround8_close _⟩ hsd
    ⟨arcsec_pround_close _, arcsec_pround_close _, arcsec_pround_close _⟩
    ⟨abs_arcsec_le _ _ _ hqr.1 hP, abs_arcsec_le _ _ _ hqr.2.1 hP, abs_arcsec_le _ _ _ hqr.2.2 hP⟩ hM
  have hb : (5 / 10 ^ 9 : ℝ) + 5 / 10 ^ 15 * (10 ^ 7 + 2 * (2.92 / 10 ^ 4) * 10 ^ 7)
      + 2 * (3.15 / 648000 * (5 / 10 ^ 9)) * (1 + |advS p d|) * 10 ^ 7
      ≤ 2 / 10 ^ 6 := by
    have : (0 : ℝ) ≤ |advS p d| := abs_nonneg _
    nlinarith
  exact ⟨key.1.trans hb, key.2.1.trans hb, key.2.2.trans hb⟩

/-! ## At the reference epoch -/

theorem rhe_intCast (z : ℤ) : roundHalfEven (z : ℝ) = z := by
  have h1 : z ≤ roundHalfEven (z : ℝ) := rhe_ge_of_gt (by linarith)
  have h2 : roundHalfEven (z : ℝ) < z + 1 := rhe_lt_of_lt (by push_cast; linarith)
  omega

/-- a value with at most `n` decimals is unchanged by `round(·, n)` -/
theorem pround_of_decimals (n : ℕ) (z : ℤ) : pround n ((z : ℝ) / 10 ^ n) = (z : ℝ) / 10 ^ n := by
  unfold pround
  rw [div_mul_cancel₀ _ (by positivity : (10 : ℝ) ^ n ≠ 0), rhe_intCast]

/-- "has at most 8 decimals" -/
def Dec8 (v : ℝ) : Prop := ∃ z : ℤ, v = (z : ℝ) / 10 ^ 8

theorem pround8_of_dec8 {v : ℝ} (h : Dec8 v) : pround 8 v = v := by
  obtain ⟨z, rfl⟩ := h; exact pround_of_decimals 8 z

theorem dec8_zero : Dec8 0 := ⟨0, by simp⟩
theorem dec8_neg {v : ℝ} (h : Dec8 v) : Dec8 (-v) := by
  obtain ⟨z, rfl⟩ := h; exact ⟨-z, by push_cast; ring⟩
theorem dec8_dec (m e : ℕ) (he : e ≤ 8) : Dec8 (dec m e) := by
  refine ⟨(m * 10 ^ (8 - e) : ℕ), ?_⟩
  simp only [dec_def]
  have : (10 : ℝ) ^ 8 = 10 ^ (8 - e) * 10 ^ e := by rw [← pow_add]; congr 1; omega
  rw [this]; push_cast; field_simp

theorem elapsed_at_ref (p : Transformation) (d : Int × Int × Int) (h : p.ref_epoch = some d) :
    elapsed p d = 0 := by
  unfold elapsed; rw [h]; simp [dateDiffDays]

/-- **C07.3a** at the reference epoch `Δ = 0` and the advanced parameters are `round₈(par)` -/
theorem at_reference_epoch (p : Transformation) (d : Int × Int × Int) (h : p.ref_epoch = some d) :
    elapsed p d = 0 ∧
    (let q := Transformation.add p d
     q.tx = pround 8 p.tx ∧ q.ty = pround 8 p.ty ∧ q.tz = pround 8 p.tz ∧ q.sc = pround 8 p.sc ∧
      q.rx = pround 8 p.rx ∧ q.ry = pround 8 p.ry ∧ q.rz = pround 8 p.rz) := by
  have h0 := elapsed_at_ref p d h
  refine ⟨h0, ?_⟩
  have := (add_params p d).1
  simp only [h0, mul_zero, add_zero] at this
  exact this

/-- the set of parameters all have at most 8 decimals -/
def Params8 (p : Transformation) : Prop :=
  Dec8 p.tx ∧ Dec8 p.ty ∧ Dec8 p.tz ∧ Dec8 p.sc ∧ Dec8 p.rx ∧ Dec8 p.ry ∧ Dec8 p.rz

theorem add_at_ref_params (p : Transformation) (d : Int × Int × Int) (h : p.ref_epoch = some d)
    (h8 : Params8 p) :
    let q := Transformation.add p d
    q.tx = p.tx ∧ q.ty = p.ty ∧ q.tz = p.tz ∧ q.sc = p.sc ∧ q.rx = p.rx ∧ q.ry = p.ry ∧ q.rz = p.rz := by
  obtain ⟨_, h1, h2, h3, h4, h5, h6, h7⟩ := at_reference_epoch p d h
  obtain ⟨a1, a2, a3, a4, a5, a6, a7⟩ := h8
  exact ⟨h1.trans (pround8_of_dec8 a1), h2.trans (pround8_of_dec8 a2), h3.trans (pround8_of_dec8 a3),
    h4.trans (pround8_of_dec8 a4), h5.trans (pround8_of_dec8 a5), h6.trans (pround8_of_dec8 a6),
    h7.trans (pround8_of_dec8 a7)⟩

/-- `conform7` only reads the seven parameters and `tf_sd` -/
theorem conform7_congr (x y z : ℝ) (p q : Transformation) (vcv : Option T9)
    (h : q.tx = p.tx ∧ q.ty = p.ty ∧ q.tz = p.tz ∧ q.sc = p.sc ∧ q.rx = p.rx ∧ q.ry = p.ry ∧
      q.rz = p.rz) (hsd : q.tf_sd = p.tf_sd) :
    conform7 x y z q vcv = conform7 x y z p vcv := by
  obtain ⟨h1, h2, h3, h4, h5, h6, h7⟩ := h
  unfold conform7
  simp only [h1, h2, h3, h4, h5, h6, h7, hsd]

/-- … and without an input covariance only the seven parameters -/
theorem conform7_none_congr (x y z : ℝ) (p q : Transformation)
    (h : q.tx = p.tx ∧ q.ty = p.ty ∧ q.tz = p.tz ∧ q.sc = p.sc ∧ q.rx = p.rx ∧ q.ry = p.ry ∧
      q.rz = p.rz) :
    conform7 x y z q none = conform7 x y z p none := by
  obtain ⟨h1, h2, h3, h4, h5, h6, h7⟩ := h
  unfold conform7
  simp only [h1, h2, h3, h4, h5, h6, h7]
  cases p.tf_sd <;> cases q.tf_sd <;> rfl

/-- **C07.3b** for a set whose parameters have at most 8 decimals, `conform14` at the reference epoch
is `conform7` -/
theorem conform14_at_ref (x y z : ℝ) (p : Transformation) (d : Int × Int × Int)
    (h : p.ref_epoch = some d) (h8 : Params8 p) :
    conform14 x y z d p none = conform7 x y z p none := by
  rw [conform14_is_conform7_of_add]
  exact conform7_none_congr x y z p _ (add_at_ref_params p d h h8)

theorem atrf_params8 : Params8 atrf2014_to_gda2020 :=
  ⟨dec8_zero, dec8_zero, dec8_zero, dec8_zero, dec8_zero, dec8_zero, dec8_zero⟩
theorem itrf_params8 : Params8 itrf2014_to_gda2020 :=
  ⟨dec8_zero, dec8_zero, dec8_zero, dec8_zero, dec8_zero, dec8_zero, dec8_zero⟩
theorem params8_neg {p : Transformation} (h : Params8 p) : Params8 (Transformation.neg p) :=
  ⟨dec8_neg h.1, dec8_neg h.2.1, dec8_neg h.2.2.1, dec8_neg h.2.2.2.1, dec8_neg h.2.2.2.2.1,
    dec8_neg h.2.2.2.2.2.1, dec8_neg h.2.2.2.2.2.2⟩

theorem atrf_at_2020 (x y z : ℝ) :
    conform14 x y z (2020, 1, 1) atrf2014_to_gda2020 none = conform7 x y z atrf2014_to_gda2020 none ∧
    conform14 x y z (2020, 1, 1) itrf2014_to_gda2020 none = conform7 x y z itrf2014_to_gda2020 none :=
  ⟨conform14_at_ref x y z _ _ rfl atrf_params8, conform14_at_ref x y z _ _ rfl itrf_params8⟩

/-! ## Identity at epoch 2020.0 -/

/-- all seven parameters zero ⇒ `conform7` is the identity, exactly -/
theorem conform7_zero_params (x y z : ℝ) (p : Transformation)
    (h : p.tx = 0 ∧ p.ty = 0 ∧ p.tz = 0 ∧ p.sc = 0 ∧ p.rx = 0 ∧ p.ry = 0 ∧ p.rz = 0) :
    conform7 x y z p none = .ok (x, y, z, none) := by
  obtain ⟨h1, h2, h3, h4, h5, h6, h7⟩ := h
  obtain ⟨v, hv⟩ := conform7_formula x y z p none
  have hnone : v = none := by
    have := (vcv_returned_iff x y z p none _ hv).not
    simp only [ne_eq, not_true_eq_false, false_and, not_false_eq_true, iff_true, not_not] at this
    exact this
  rw [hv, hnone]
  simp [apply7, helmert, transl, rho, h1, h2, h3, h4, h5, h6, h7, arcsec_eq]

/-- **C07.5** at epoch 2020-01-01 the two wrappers are exactly the identity -/
theorem atrf_identity_2020 (x y z : ℝ) :
    transform_atrf2014_to_gda2020 x y z (2020, 1, 1) none = .ok (x, y, z, none) ∧
    transform_gda2020_to_atrf2014 x y z (2020, 1, 1) none = .ok (x, y, z, none) := by
  constructor
  · show conform14 x y z (2020, 1, 1) atrf2014_to_gda2020 none = _
    rw [conform14_at_ref x y z _ _ rfl atrf_params8]
    exact conform7_zero_params x y z _ ⟨rfl, rfl, rfl, rfl, rfl, rfl, rfl⟩
  · show conform14 x y z (2020, 1, 1) (Transformation.neg atrf2014_to_gda2020) none = _
    rw [conform14_at_ref x y z _ _ rfl (params8_neg atrf_params8)]
    exact conform7_zero_params x y z _ ⟨neg_zero, neg_zero, neg_zero, neg_zero, neg_zero, neg_zero,
      neg_zero⟩

/-! ## A set and then its negation at the same epoch -/

theorem rhe_unique {x : ℝ} {z : ℤ} (h : |(z : ℝ) - x| < 1 / 2) : roundHalfEven x = z := by
  have h1 := roundHalfEven_close x
  rw [abs_le] at h1
  rw [abs_lt] at h
  have a : ((roundHalfEven x : ℤ) : ℝ) < (z : ℝ) + 1 := by linarith [h1.2, h.1]
  have b : (z : ℝ) - 1 < ((roundHalfEven x : ℤ) : ℝ) := by linarith [h1.1, h.2]
  have a' : roundHalfEven x < z + 1 := by exact_mod_cast a
  have b' : z - 1 < roundHalfEven x := by exact_mod_cast b
  omega

theorem rhe_strict {x : ℝ} (h : Int.fract x ≠ 1 / 2) : |((roundHalfEven x : ℤ) : ℝ) - x| < 1 / 2 := by
  unfold roundHalfEven
  rw [if_neg h, abs_sub_comm, abs_sub_round_eq_min]
  rcases lt_or_gt_of_ne h with h' | h'
  · exact lt_of_le_of_lt (min_le_left _ _) h'
  · exact lt_of_le_of_lt (min_le_right _ _) (by linarith)

/-- round-half-even is odd -/
theorem rhe_neg (x : ℝ) : roundHalfEven (-x) = -roundHalfEven x := by
  by_cases h : Int.fract x = 1 / 2
  · have hx : x = (⌊x⌋ : ℝ) + 1 / 2 := by
      have := Int.self_sub_floor x; rw [h] at this; linarith
    have hfl : ⌊-x⌋ = -⌊x⌋ - 1 := by
      rw [Int.floor_eq_iff]; push_cast; constructor <;> linarith
    have hfr : Int.fract (-x) = 1 / 2 := by
      have := Int.self_sub_floor (-x); rw [hfl] at this; push_cast at this; linarith
    unfold roundHalfEven
    rw [if_pos h, if_pos hfr, hfl]
    simp only [Int.even_iff]
    split_ifs <;> omega
  · apply rhe_unique
    have := rhe_strict h
    push_cast
    have e : -((roundHalfEven x : ℤ) : ℝ) - -x = -(((roundHalfEven x : ℤ) : ℝ) - x) := by ring
    rw [e, abs_neg]; exact this

theorem pround_neg (n : ℕ) (v : ℝ) : pround n (-v) = -pround n v := by
  unfold pround
  rw [neg_mul, rhe_neg]; push_cast; ring

/-- advancing `−p` gives the negated advanced parameters (and the same `tf_sd`) -/
theorem add_neg_params (p : Transformation) (d : Int × Int × Int) :
    let q := Transformation.add (Transformation.neg p) d
    let q' := Transformation.neg (Transformation.add p d)
    (q.tx = q'.tx ∧ q.ty = q'.ty ∧ q.tz = q'.tz ∧ q.sc = q'.sc ∧ q.rx = q'.rx ∧ q.ry = q'.ry ∧
      q.rz = q'.rz) ∧ q.tf_sd = q'.tf_sd := by
  have key : ∀ a b : ℝ, pround 8 (-a + -b * elapsed p d) = -pround 8 (a + b * elapsed p d) := by
    intro a b
    rw [← pround_neg]; congr 1; ring
  exact ⟨⟨key _ _, key _ _, key _ _, key _ _, key _ _, key _ _, key _ _⟩, rfl⟩

theorem conform14_neg (x y z : ℝ) (d : Int × Int × Int) (p : Transformation) (vcv : Option T9) :
    conform14 x y z d (Transformation.neg p) vcv
      = conform7 x y z (Transformation.neg (Transformation.add p d)) vcv := by
  rw [conform14_is_conform7_of_add]
  exact conform7_congr x y z _ _ vcv (add_neg_params p d).1 (add_neg_params p d).2

/-- `conform14` with `p` and then with `−p` at the same epoch: the result differs from the start
point by exactly the second-order `residual` of C06 at the advanced (rounded) parameters -/
theorem conform14_round_trip (x y z : ℝ) (d : Int × Int × Int) (p : Transformation)
    (vcv vcv' : Option T9) :
    ∃ X Y Z v x' y' z' v', conform14 x y z d p vcv = .ok (X, Y, Z, v) ∧
      conform14 X Y Z d (Transformation.neg p) vcv' = .ok (x', y', z', v') ∧
      (x' - x, y' - y, z' - z)
        = residual (transl (Transformation.add p d)) ((Transformation.add p d).sc / 1000000)
            (rho (Transformation.add p d)) (x, y, z) := by
  obtain ⟨X, Y, Z, v, x', y', z', v', h1, h2, h3⟩ :=
    conform7_round_trip x y z (Transformation.add p d) vcv vcv'
  refine ⟨X, Y, Z, v, x', y', z', v', ?_, ?_, h3⟩
  · rw [conform14_is_conform7_of_add]; exact h1
  · rw [conform14_neg]; exact h2

/-! ## The ATRF2014 ↔ GDA2020 wrappers are mutual inverses up to second order -/

theorem pround_zero (n : ℕ) : pround n 0 = 0 := by
  unfold pround; simp [rhe_zero]

/-- the plate-motion set advanced to epoch `d`: translations and scale 0, rotations
`round₈(rate·Δ)` -/
theorem atrf_advanced (d : Int × Int × Int) :
    let q := Transformation.add atrf2014_to_gda2020 d
    let Δ := elapsed atrf2014_to_gda2020 d
    q.tx = 0 ∧ q.ty = 0 ∧ q.tz = 0 ∧ q.sc = 0 ∧ q.rx = pround 8 (dec 150379 8 * Δ) ∧
      q.ry = pround 8 (dec 118346 8 * Δ) ∧ q.rz = pround 8 (dec 120716 8 * Δ) := by
  have h := (add_params atrf2014_to_gda2020 d).1
  have z : ∀ Δ : ℝ, pround 8 ((0 : ℝ) + (0 : ℝ) * Δ) = 0 := by
    intro Δ; rw [zero_mul, add_zero, pround_zero]
  refine ⟨h.1.trans (z _), h.2.1.trans (z _), h.2.2.1.trans (z _), h.2.2.2.1.trans (z _), ?_, ?_, ?_⟩
  · rw [h.2.2.2.2.1]; congr 1; exact zero_add _
  · rw [h.2.2.2.2.2.1]; congr 1; exact zero_add _
  · rw [h.2.2.2.2.2.2]; congr 1; exact zero_add _

theorem abs_rate_le {c Δ Yr : ℝ} (hc0 : 0 ≤ c) (hc : c ≤ 0.00150379) (hΔ : |Δ| ≤ Yr) :
    |c * Δ| ≤ 0.00150379 * Yr := by
  rw [abs_mul, abs_of_nonneg hc0]
  exact mul_le_mul hc hΔ (abs_nonneg _) (by norm_num)

/-- **C07.6** `transform_atrf2014_to_gda2020` then `transform_gda2020_to_atrf2014` at the same epoch,
`|Δ| ≤ Yr` years, point within 6.4·10⁶ m: every coordinate returns within `4·P²·6.4·10⁶` m, where
`P` (radians) bounds the advanced rotations `(0.00150379″/yr · Yr + rounding)` -/
theorem atrf_mutual_inverse_residual (x y z : ℝ) (d : Int × Int × Int) (vcv vcv' : Option T9)
    (Yr A P : ℝ) (hΔ : |elapsed atrf2014_to_gda2020 d| ≤ Yr)
    (hA : 0.00150379 * Yr + 5 / 10 ^ 9 ≤ A) (hP : 3.15 / 648000 * A ≤ P)
    (hx : |x| ≤ 6400000 ∧ |y| ≤ 6400000 ∧ |z| ≤ 6400000) :
    ∃ X Y Z v x' y' z' v', transform_atrf2014_to_gda2020 x y z d vcv = .ok (X, Y, Z, v) ∧
      transform_gda2020_to_atrf2014 X Y Z d vcv' = .ok (x', y', z', v') ∧
      |x' - x| ≤ 4 * P ^ 2 * 6400000 ∧ |y' - y| ≤ 4 * P ^ 2 * 6400000 ∧
      |z' - z| ≤ 4 * P ^ 2 * 6400000 := by
  obtain ⟨t1, t2, t3, t4, r1, r2, r3⟩ := atrf_advanced d
  set q := Transformation.add atrf2014_to_gda2020 d with hq
  have b1 : |q.rx| ≤ A := by
    rw [r1]
    exact (abs_pround8_le (abs_rate_le (by simp only [dec_def]; positivity)
      (by simp only [dec_def]; norm_num) hΔ)).trans hA
  have b2 : |q.ry| ≤ A := by
    rw [r2]
    exact (abs_pround8_le (abs_rate_le (by simp only [dec_def]; positivity)
      (by simp only [dec_def]; norm_num) hΔ)).trans hA
  have b3 : |q.rz| ≤ A := by
    rw [r3]
    exact (abs_pround8_le (abs_rate_le (by simp only [dec_def]; positivity)
      (by simp only [dec_def]; norm_num) hΔ)).trans hA
  obtain ⟨X, Y, Z, v, x', y', z', v', h1, h2, c1, c2, c3⟩ :=
    conform7_round_trip_bound x y z q vcv vcv' 0 0 A P 6400000
      ⟨by rw [t1, abs_zero], by rw [t2, abs_zero], by rw [t3, abs_zero]⟩
      (by rw [t4, abs_zero]; norm_num) ⟨b1, b2, b3⟩ hP hx
  have e : rtBound 0 0 P 6400000 = 4 * P ^ 2 * 6400000 := by unfold rtBound; ring
  rw [e] at c1 c2 c3
  refine ⟨X, Y, Z, v, x', y', z', v', ?_, ?_, c1, c2, c3⟩
  · show conform14 x y z d atrf2014_to_gda2020 vcv = _
    rw [conform14_is_conform7_of_add]; exact h1
  · show conform14 X Y Z d (Transformation.neg atrf2014_to_gda2020) vcv' = _
    rw [conform14_neg]; exact h2

/-- epochs 1980-01-01 … 2060-12-31 are within 41 Julian years of 2020-01-01 -/
theorem atrf_elapsed_range (d : Int × Int × Int) (h1 : dateDays (1980, 1, 1) ≤ dateDays d)
    (h2 : dateDays d ≤ dateDays (2060, 12, 31)) : |elapsed atrf2014_to_gda2020 d| ≤ 41 := by
  rw [before_epoch _ d (2020, 1, 1) rfl]
  have e1 : dateDays (1980, 1, 1) = 3652 := by decide
  have e2 : dateDays (2060, 12, 31) = 33237 := by decide
  have e3 : dateDays (2020, 1, 1) = 18262 := by decide
  rw [e1] at h1; rw [e2] at h2; rw [e3]
  rw [abs_div, abs_of_pos (by norm_num : (0 : ℝ) < 365.25), div_le_iff₀ (by norm_num), abs_le]
  have a : (-14610 : ℤ) ≤ dateDays d - 18262 := by omega
  have b : dateDays d - 18262 ≤ (14975 : ℤ) := by omega
  have a' : ((-14610 : ℤ) : ℝ) ≤ ((dateDays d - 18262 : ℤ) : ℝ) := by exact_mod_cast a
  have b' : ((dateDays d - 18262 : ℤ) : ℝ) ≤ ((14975 : ℤ) : ℝ) := by exact_mod_cast b
  constructor <;> norm_num at a' b' ⊢ <;> linarith

/-- the hypotheses of `conform14_close` hold for the plate-motion set at every epoch 1980 … 2060 -/
example (d : Int × Int × Int) (h1 : dateDays (1980, 1, 1) ≤ dateDays d)
    (h2 : dateDays d ≤ dateDays (2060, 12, 31)) :
    (|atrf2014_to_gda2020.rx + atrf2014_to_gda2020.d_rx * elapsed atrf2014_to_gda2020 d| ≤ 60 ∧
      |atrf2014_to_gda2020.ry + atrf2014_to_gda2020.d_ry * elapsed atrf2014_to_gda2020 d| ≤ 60 ∧
      |atrf2014_to_gda2020.rz + atrf2014_to_gda2020.d_rz * elapsed atrf2014_to_gda2020 d| ≤ 60) ∧
    |atrf2014_to_gda2020.sc + atrf2014_to_gda2020.d_sc * elapsed atrf2014_to_gda2020 d| ≤ 100 := by
  have hΔ := atrf_elapsed_range d h1 h2
  have key : ∀ c : ℝ, 0 ≤ c → c ≤ 0.00150379 →
      |(0 : ℝ) + c * elapsed atrf2014_to_gda2020 d| ≤ 60 := by
    intro c h0 hc
    rw [zero_add]
    have := abs_rate_le h0 hc hΔ
    linarith
  refine ⟨⟨?_, ?_, ?_⟩, ?_⟩
  · exact key (dec 150379 8) (by simp only [dec_def]; positivity) (by simp only [dec_def]; norm_num)
  · exact key (dec 118346 8) (by simp only [dec_def]; positivity) (by simp only [dec_def]; norm_num)
  · exact key (dec 120716 8) (by simp only [dec_def]; positivity) (by simp only [dec_def]; norm_num)
  · show |(0 : ℝ) + (0 : ℝ) * _| ≤ 100
    simp

/-- for every epoch 1980-01-01 … 2060-12-31 and every point within 6.4·10⁶ m the two wrappers are
mutual inverses within 2.4 µm (in particular within the 6 µm of the design) -/
theorem atrf_mutual_inverse_1980_2060 (x y z : ℝ) (d : Int × Int × Int) (vcv vcv' : Option T9)
    (h1 : dateDays (1980, 1, 1) ≤ dateDays d) (h2 : dateDays d ≤ dateDays (2060, 12, 31))
    (hx : |x| ≤ 6400000 ∧ |y| ≤ 6400000 ∧ |z| ≤ 6400000) :
    ∃ X Y Z v x' y' z' v', transform_atrf2014_to_gda2020 x y z d vcv = .ok (X, Y, Z, v) ∧
      transform_gda2020_to_atrf2014 X Y Z d vcv' = .ok (x', y', z', v') ∧
      |x' - x| ≤ 2.4 / 10 ^ 6 ∧ |y' - y| ≤ 2.4 / 10 ^ 6 ∧ |z' - z| ≤ 2.4 / 10 ^ 6 := by
  obtain ⟨X, Y, Z, v, x', y', z', v', a, b, c1, c2, c3⟩ :=
    atrf_mutual_inverse_residual x y z d vcv vcv' 41 0.0617 (3 / 10 ^ 7) (atrf_elapsed_range d h1 h2)
      (by norm_num) (by norm_num) hx
  have e : (4 : ℝ) * (3 / 10 ^ 7) ^ 2 * 6400000 ≤ 2.4 / 10 ^ 6 := by norm_num
  exact ⟨X, Y, Z, v, x', y', z', v', a, b, c1.trans e, c2.trans e, c3.trans e⟩

/-! ## Catalogue-wide: every shipped parameter has at most 8 decimals -/

theorem dec8_pround8 (v : ℝ) : Dec8 (pround 8 v) := ⟨roundHalfEven (v * 10 ^ 8), rfl⟩
theorem dec8_natCast (n : ℕ) : Dec8 (n : ℝ) :=
  ⟨(n * 10 ^ 8 : ℕ), by push_cast; norm_num⟩
theorem dec8_ofNat (n : ℕ) [n.AtLeastTwo] : Dec8 (OfNat.ofNat n : ℝ) := dec8_natCast n
theorem dec8_one : Dec8 (1 : ℝ) := by simpa using dec8_natCast 1

theorem params8_init (f t : String) (r : Option (Int × Int × Int))
    (tx ty tz sc rx ry rz d1 d2 d3 d4 d5 d6 d7 : ℝ) (sd : Option TransformationSD)
    (h : Dec8 tx ∧ Dec8 ty ∧ Dec8 tz ∧ Dec8 sc ∧ Dec8 rx ∧ Dec8 ry ∧ Dec8 rz) :
    Params8 (Transformation.init f t r tx ty tz sc rx ry rz d1 d2 d3 d4 d5 d6 d7 sd) := h

theorem params8_iers (f t : String) (r : Option (Int × Int × Int))
    (tx ty tz sc rx ry rz d1 d2 d3 d4 d5 d6 d7 : ℝ) :
    Params8 (iers2trans f t r tx ty tz sc rx ry rz d1 d2 d3 d4 d5 d6 d7) :=
  ⟨dec8_pround8 _, dec8_pround8 _, dec8_pround8 _, dec8_pround8 _, dec8_pround8 _, dec8_pround8 _,
    dec8_pround8 _⟩

/-- `Dec8` of a literal, syntactically -/
macro "dec8_leaf" : tactic =>
  `(tactic| with_reducible (repeat (first
      | exact dec8_pround8 _
      | exact dec8_dec _ _ (by norm_num)
      | apply dec8_neg
      | exact dec8_zero
      | exact dec8_one
      | exact dec8_ofNat _)))

/-- `Params8 c` for a catalogue constant `c`: unfold `c` one definition at a time until it is an
`iers2trans …`, a `Transformation.neg …` or a `Transformation.init …` -/
syntax "params8_tac" : tactic
macro_rules
  | `(tactic| params8_tac) => `(tactic| first
      | (with_reducible exact params8_iers _ _ _ _ _ _ _ _ _ _ _ _ _ _ _ _ _)
      | ((with_reducible apply params8_neg); params8_tac)
      | ((with_reducible apply params8_init); (refine ⟨?_, ?_, ?_, ?_, ?_, ?_, ?_⟩ <;> (dec8_leaf; done)))
      | (unfold_arg; params8_tac))

/-- **C07.3c** every one of the shipped parameter sets has parameters with at most 8 decimals, so
`conform14` at the set's own reference epoch is `conform7` with the set -/
theorem catalogue_params8 : ∀ e ∈ catalogue_Transformation, Params8 e.2 := by
  intro e he
  simp only [catalogue_Transformation, List.mem_cons, List.not_mem_nil, or_false] at he
  repeat (rcases he with rfl | he; · dsimp only; params8_tac)

theorem catalogue_at_reference_epoch (x y z : ℝ) :
    ∀ e ∈ catalogue_Transformation, ∀ d, e.2.ref_epoch = some d →
      conform14 x y z d e.2 none = conform7 x y z e.2 none :=
  fun e he d hd => conform14_at_ref x y z e.2 d hd (catalogue_params8 e he)

end

end GeodeVerif.C07
