import GeodeVerif.Proofs.C04
/-!
# C04 — on a sphere Vincenty's direct formulas ARE the exact geodesic solution

For `f = 0`, `a = b = R` (a sphere) the exact geodesic from `(φ₁, λ₁)` with azimuth `α₁` and length
`s` is the great-circle arc of central angle `σ = s/R`. About the regenerated `GenR.Geodesy.vincdir`:

* `sphere_loop` — the σ-iteration leaves after its first pass with `σ = s/R` (A = 1, B = 0, Δσ = 0);
* `vincdir_sphere` — the returned latitude, longitude and reverse azimuth are (rounded to 11, 11, 9
  decimals) `u₂`, `λ₁ + λ` and `α₂ + 180°` with `(u₂, λ)` the spherical coordinates of the end point
  `cos σ·P + sin σ·T` of that arc (`aux_sphere_point` of `Proofs/C04.lean`: `P` the start point, `T` the
  unit tangent of azimuth `α₁`) and `α₂ = atan2 (sin α) (−sin φ₁ sin σ + cos φ₁ cos σ cos α₁)`;
* `vincdir_sphere_end_point` — in coordinates: `sin φ₂ = sin φ₁ cos σ + cos φ₁ sin σ cos α₁`,
  `cos φ₂ cos λ = cos φ₁ cos σ − sin φ₁ sin σ cos α₁`, `cos φ₂ sin λ = sin σ sin α₁` — the spherical
  direct problem exactly.
-/
set_option linter.unusedVariables false
noncomputable section
namespace GeodeVerif.C04
open Py PyR GenR.Geodesy GenR.Constants

theorem u1_sphere (lat1 : ℝ) (ell : Ellipsoid) (hf : ell.f = 0) (h : |lat1| < 90) :
    u1 lat1 ell = radians lat1 := by
  unfold u1
  rw [hf]
  simp only [sub_zero, one_mul]
  have hp := Real.pi_pos
  obtain ⟨h1, h2⟩ := abs_lt.mp h
  apply Real.arctan_tan
  · show -(Real.pi / 2) < lat1 * (Real.pi / 180); nlinarith
  · show lat1 * (Real.pi / 180) < Real.pi / 2; nlinarith

theorem uSq_sphere (lat1 az R : ℝ) (ell : Ellipsoid) (ha : ell.semimaj = R) (hb : ell.semimin = R) :
    uSq lat1 az ell = 0 := by
  unfold uSq; rw [ha, hb]; simp

theorem seriesA_zero : seriesA 0 = 1 := by simp [seriesA]
theorem seriesB_zero : seriesB 0 = 0 := by simp [seriesB]
theorem deltaSigma_zero (tsm σ : ℝ) : deltaSigma 0 tsm σ = 0 := by simp [deltaSigma]

/-- with `B = 0` the loop leaves after its first pass at `σ = σ₀` -/
theorem sphere_loop (σ1 σ0 : ℝ) : loop σ1 0 σ0 = (twoSigmaM σ1 σ0, σ0) := by
  unfold loop
  have hexit : (body σ1 0 σ0 ((0 : ℝ), σ0)).2 = true := by
    simp only [body, sigmaStep, deltaSigma_zero, add_zero, sub_self, absf, abs_zero, decide_eq_true_eq]
    rw [dec_def]; positivity
  rw [show (1000 : ℕ) = 999 + 1 from rfl, forBreak, if_pos hexit]
  simp only [body, sigmaStep, deltaSigma_zero, add_zero]

theorem vincC_sphere (α : ℝ) : vincC 0 α = 0 := by simp [vincC]

/-- **C04 on the sphere** -/
theorem vincdir_sphere (lat1 lon1 az s R : ℝ) (ell : Ellipsoid)
    (hf : ell.f = 0) (ha : ell.semimaj = R) (hb : ell.semimin = R) (h1 : |lat1| < 90) :
    vincdir lat1 lon1 az s ell =
      (pround 11 (degrees (u2R (alpha lat1 az ell) (radians lat1) (radians az) (s / R))),
       pround 11 (pyfloat lon1 + degrees (lonAux (radians lat1) (radians az) (s / R))),
       pround 9 (degrees (revR (alpha lat1 az ell) (radians lat1) (radians az) (s / R)) + 180)) := by
  rw [vincdir_eq]
  have hl : vloop lat1 az s ell = (twoSigmaM (sigma1 lat1 az ell) (s / R), s / R) := by
    unfold vloop
    rw [uSq_sphere lat1 az R ell ha hb, seriesA_zero, seriesB_zero, sphere_loop]
    simp [sigma0, hb]
  rw [hl]
  simp only [outLat, outLon, outAz, lat2R, u2R, omega, hf, vincC_sphere, u1_sphere lat1 ell hf h1, azr,
    sub_zero, one_mul, mul_zero, zero_mul]

/-- the end point in coordinates: the spherical direct problem -/
theorem vincdir_sphere_end_point (lat1 az s R : ℝ) (ell : Ellipsoid) (hf : ell.f = 0) (h1 : |lat1| < 90) :
    let φ1 := radians lat1
    let α1 := radians az
    let σ := s / R
    let u2 := u2R (alpha lat1 az ell) φ1 α1 σ
    let lam := lonAux φ1 α1 σ
    Real.sin u2 = Real.sin φ1 * Real.cos σ + Real.cos φ1 * Real.sin σ * Real.cos α1 ∧
    Real.cos u2 * Real.cos lam = Real.cos φ1 * Real.cos σ - Real.sin φ1 * Real.sin σ * Real.cos α1 ∧
    Real.cos u2 * Real.sin lam = Real.sin σ * Real.sin α1 := by
  intro φ1 α1 σ u2 lam
  have hα : Real.sin (alpha lat1 az ell) = Real.cos φ1 * Real.sin α1 := by
    unfold alpha
    rw [u1_sphere lat1 ell hf h1]
    have hb := cos_mul_sin_bounds (radians lat1) (azr az)
    exact Real.sin_arcsin hb.1 hb.2
  obtain ⟨p1, p2, p3⟩ := aux_sphere_point (alpha lat1 az ell) φ1 α1 σ hα
  refine ⟨by rw [p3]; ring, by rw [p1]; ring, by rw [p2]; ring⟩

end GeodeVerif.C04
