import GeodeVerif.Proofs.C08
import GeodeVerif.Proofs.C12b
/-!
# C08 — the regenerated conversion methods of the angle classes are the hand model's

Bundle of the equalities proved in `Proofs/C12b.lean` for the nine conversion methods (`.dec()`,
`.rad()`, `.deca()`, `.hp()`, `.hpa()`, `.gon()`, `.gona()`, `.dms()`, `.ddm()`) of the five classes as
regenerated from `geodepy/angles.py`: the C08 theorems about conversions "by any object method" are
statements about the current text of those methods (the module-level leaf conversions they call stay
hand-modelled and tied by the exhaustive correspondence).
-/
namespace GeodeVerif.C08
open Ang Py

variable {α : Type} [Add α] [Sub α] [Mul α] [Div α] [Neg α] [AngArith α]

theorem gen_object_conversions (o : AngleObj α) :
    GenAng.dec o = o.dec ∧ GenAng.rad o = o.rad ∧ GenAng.deca o = o.deca ∧ GenAng.hp o = o.hp ∧
    GenAng.hpa o = o.hpa ∧ GenAng.gon o = o.gon ∧ GenAng.gona o = o.gona ∧ GenAng.dms o = o.dms ∧
    GenAng.ddm o = o.ddm :=
  ⟨C12.gen_dec o, C12.gen_rad o, C12.gen_deca o, C12.gen_hp o, C12.gen_hpa o, C12.gen_gon o, C12.gen_gona o,
   C12.gen_dms o, C12.gen_ddm o⟩

/-- a class without the method raises `AttributeError` (e.g. `DECAngle.deca`, `HPAngle.hpa`) -/
theorem gen_missing_conversions (x : α) (s : DMS α) (t : DDM α) :
    GenAng.deca (.decA x) = .error .AttributeError ∧ GenAng.hpa (.hpA x) = .error .AttributeError ∧
    GenAng.gona (.gonA x) = .error .AttributeError ∧ GenAng.dms (.dmsA s) = .error .AttributeError ∧
    GenAng.ddm (.ddmA t) = .error .AttributeError := ⟨rfl, rfl, rfl, rfl, rfl⟩

end GeodeVerif.C08
