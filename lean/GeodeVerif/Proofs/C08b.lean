import GeodeVerif.Proofs.C08
import GeodeVerif.Proofs.C12b
/-!
# C08 — the regenerated conversion methods of the angle classes are the hand model's

Bundle of the equalities proved in `Proofs/C12b.lean` for the nine conversion methods (`.dec()`,
`.rad()`, `.deca()`, `.hp()`, `.hpa()`, `.gon()`, `.gona()`, `.dms()`, `.ddm()`) of the five classes as
regenerated from `geodepy/angles.py`: the C08 theorems about conversions "by any object method" are
statements about the current text of those methods (the module-level leaf conversions they call stay
hand-modelled and tied by the exhaustive correspondence).
-/
namespace GeodeVerif.C08
open Ang Py

variable {α : Type} [Add α] [Sub α] [Mul α] [Div α] [Neg α] [AngArith α]

theorem gen_object_conversions (o : AngleObj α) :
    GenAng.dec o = o.dec ∧ GenAng.rad o = o.rad ∧ GenAng.deca o = o.deca ∧ GenAng.hp o = o.hp ∧
    GenAng.hpa o = o.hpa ∧ GenAng.gon o = o.gon ∧ GenAng.gona o = o.gona ∧ GenAng.dms o = o.dms ∧
    GenAng.ddm o = o.ddm :=
  ⟨C12.gen_dec o, C12.gen_rad o, C12.gen_deca o, C12.gen_hp o, C12.gen_hpa o, C12.gen_gon o, C12.gen_gona o,
   C12.gen_dms o, C12.gen_ddm o⟩

/-- a class without the method raises `AttributeError` (e.g. `DECAngle.deca`, `HPAngle.hpa`) -/
theorem gen_missing_conversions (x : α) (s : DMS α) (t : DDM α) :
    GenAng.deca (.decA x) = .error .AttributeError ∧ GenAng.hpa (.hpA x) = .error .AttributeError ∧
    GenAng.gona (.gonA x) = .error .AttributeError ∧ GenAng.dms (.dmsA s) = .error .AttributeError ∧
    GenAng.ddm (.ddmA t) = .error .AttributeError := ⟨rfl, rfl, rfl, rfl, rfl⟩

/-! ## module-level wiring functions regenerated from `angles.py` = the hand model's definitions

19 of the 25 module-level conversions are compositions of other conversions, a `divmod` split or a constructor call; they are
regenerated (`GenAng.leaf_*`) and equal the hand model's function of the same name for every argument. What remains
hand-modelled only (digit-level string work / numpy): `dec2hp`, `_hp_fields`, `hp2dec`, `dec2hp_v`, `hp2dec_v`. -/

theorem gen_leaf_dec2gon (x : α) : GenAng.leaf_dec2gon x = .ok (dec2gon x) := rfl
theorem gen_leaf_gon2dec (x : α) : GenAng.leaf_gon2dec x = .ok (gon2dec x) := rfl
theorem gen_leaf_dec2gona (x : α) : GenAng.leaf_dec2gona x = .ok (dec2gona x) := rfl
theorem gen_leaf_gon2deca (x : α) : GenAng.leaf_gon2deca x = .ok (gon2deca x) := rfl
theorem gen_leaf_gon2hp (x : α) : GenAng.leaf_gon2hp x = .ok (gon2hp x) := rfl
theorem gen_leaf_gon2rad (x : α) : GenAng.leaf_gon2rad x = .ok (gon2rad x) := rfl
theorem gen_leaf_gon2dms (x : α) : GenAng.leaf_gon2dms x = .ok (gon2dms x) := rfl
theorem gen_leaf_gon2ddm (x : α) : GenAng.leaf_gon2ddm x = .ok (gon2ddm x) := rfl

theorem gen_leaf_dec2hpa (x : α) : GenAng.leaf_dec2hpa x = dec2hpa x := by
  unfold GenAng.leaf_dec2hpa dec2hpa
  cases mkHP (dec2hp x) <;> rfl
theorem gen_leaf_gon2hpa (x : α) : GenAng.leaf_gon2hpa x = gon2hpa x := by
  unfold GenAng.leaf_gon2hpa gon2hpa
  cases mkHP (gon2hp x) <;> rfl
theorem gen_leaf_hp2deca (x : α) : GenAng.leaf_hp2deca x = hp2deca x := by
  unfold GenAng.leaf_hp2deca hp2deca
  cases hp2dec x <;> rfl
theorem gen_leaf_hp2rad (x : α) : GenAng.leaf_hp2rad x = hp2rad x := by
  unfold GenAng.leaf_hp2rad hp2rad
  cases hp2dec x <;> rfl
theorem gen_leaf_hp2gon (x : α) : GenAng.leaf_hp2gon x = hp2gon x := by
  unfold GenAng.leaf_hp2gon hp2gon
  cases hp2dec x <;> rfl
theorem gen_leaf_hp2gona (x : α) : GenAng.leaf_hp2gona x = hp2gona x := by
  unfold GenAng.leaf_hp2gona hp2gona
  cases hp2gon x <;> rfl

theorem gen_leaf_dec2dms (x : α) : GenAng.leaf_dec2dms x = .ok (dec2dms x) := by
  unfold GenAng.leaf_dec2dms dec2dms
  cases leb (ofNat 0) x <;> rfl
theorem gen_leaf_dec2ddm (x : α) : GenAng.leaf_dec2ddm x = .ok (dec2ddm x) := by
  unfold GenAng.leaf_dec2ddm dec2ddm
  cases leb (ofNat 0) x <;> rfl
theorem gen_leaf_hp2dms (x : α) : GenAng.leaf_hp2dms x = .ok (hp2dms x) := by
  unfold GenAng.leaf_hp2dms hp2dms
  cases leb (ofNat 0) x <;> rfl
theorem gen_leaf_hp2ddm (x : α) : GenAng.leaf_hp2ddm x = .ok (hp2ddm x) := by
  unfold GenAng.leaf_hp2ddm hp2ddm
  cases leb (ofNat 0) x <;> rfl
theorem gen_leaf_dd2sec (x : α) : GenAng.leaf_dd2sec x = .ok (dd2sec x) := by
  unfold GenAng.leaf_dd2sec dd2sec
  cases leb (ofNat 0) x <;> rfl

/-- the bundle: every regenerated module-level wiring function is the model's -/
theorem gen_leaf_functions (x : α) :
    GenAng.leaf_dec2hpa x = dec2hpa x ∧ GenAng.leaf_dec2gon x = .ok (dec2gon x) ∧ GenAng.leaf_dec2gona x = .ok (dec2gona x) ∧
    GenAng.leaf_dec2dms x = .ok (dec2dms x) ∧ GenAng.leaf_dec2ddm x = .ok (dec2ddm x) ∧ GenAng.leaf_hp2deca x = hp2deca x ∧
    GenAng.leaf_hp2rad x = hp2rad x ∧ GenAng.leaf_hp2gon x = hp2gon x ∧ GenAng.leaf_hp2gona x = hp2gona x ∧
    GenAng.leaf_hp2dms x = .ok (hp2dms x) ∧ GenAng.leaf_hp2ddm x = .ok (hp2ddm x) ∧ GenAng.leaf_gon2dec x = .ok (gon2dec x) ∧
    GenAng.leaf_gon2deca x = .ok (gon2deca x) ∧ GenAng.leaf_gon2hp x = .ok (gon2hp x) ∧ GenAng.leaf_gon2hpa x = gon2hpa x ∧
    GenAng.leaf_gon2rad x = .ok (gon2rad x) ∧ GenAng.leaf_gon2dms x = .ok (gon2dms x) ∧ GenAng.leaf_gon2ddm x = .ok (gon2ddm x) ∧
    GenAng.leaf_dd2sec x = .ok (dd2sec x) :=
  ⟨gen_leaf_dec2hpa x, gen_leaf_dec2gon x, gen_leaf_dec2gona x, gen_leaf_dec2dms x, gen_leaf_dec2ddm x, gen_leaf_hp2deca x,
   gen_leaf_hp2rad x, gen_leaf_hp2gon x, gen_leaf_hp2gona x, gen_leaf_hp2dms x, gen_leaf_hp2ddm x, gen_leaf_gon2dec x,
   gen_leaf_gon2deca x, gen_leaf_gon2hp x, gen_leaf_gon2hpa x, gen_leaf_gon2rad x, gen_leaf_gon2dms x, gen_leaf_gon2ddm x,
   gen_leaf_dd2sec x⟩

end GeodeVerif.C08
