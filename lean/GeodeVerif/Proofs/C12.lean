import GeodeVerif.Proofs.C08
/-!
# C12 — angle-object arithmetic and comparison: theorems about `Model/Angles.lean` at `ℚ`

Operators of the five classes (`AngleObj.add`, `sub`, `radd`, `rsub`, `mul`, `rmul`, `truediv`,
`neg`, `abs`, `eq`, `ne`, `lt`, `gt`, `round`, `mod`), Python's dispatch (`binop`, `cmpop`) and the
expression evaluator `eval`, all read in exact arithmetic. "Denotes" is as in C08: an object is well
formed (`WF`) and `.dec()` returns the angle.

1. `add_dec`, `sub_dec`, `radd_dec`, `rsub_dec`, `mul_dec`, `rmul_dec`, `truediv_dec` (**op_dec**):
   result = decimal-degree result up to `clsTol` (0 for DEC/GON/DMS/DDM, `hpTol` for HP), class of
   the left operand, well formed
2. `neg_dec`, `abs_dec`, `neg_involutive` (**neg_abs**): exact for all classes
3. `cmp_dec`, `evalCmp_sound`
4. `round_half_unit`
5. `mod_dec`, `pymod_range`
6. `eval_sound_gen`, `eval_sound`, `eval_sound_lt512`, `errB_le_nodes` — induction over expression
   trees; the bound `errB` adds one HP rounding per HP-class operator node and scales what lies
   below a multiplication (the flat `(#nodes)·ε` form holds when no scaling amplifies)
-/
namespace GeodeVerif.C12
open Ang Py GeodeVerif.C08

/-! ### 1. binary operators agree with decimal-degree arithmetic; class of the left operand -/

/-- the shape all seven arithmetic operator methods share -/
theorem fromDec_op (c : Cls) (v : ℚ) :
    ∃ r z, fromDec c v = .ok r ∧ r.cls = c ∧ WF r ∧ r.dec = .ok z ∧ |z - v| ≤ clsTol c v :=
  fromDec_sound c v

/-- **op_dec** (`+`): `(a + b).dec = a.dec + b.dec` up to the representation error of the class of
`a` (zero for DEC/GON/DMS/DDM, `hpTol` for HP), and the result has the class of `a`. -/
theorem add_dec (a b : AngleObj ℚ) (x y : ℚ) (ha : a.dec = .ok x) (hb : b.dec = .ok y) :
    ∃ r z, a.add b = .ok r ∧ r.cls = a.cls ∧ WF r ∧ r.dec = .ok z ∧ |z - (x + y)| ≤ clsTol a.cls (x + y) := by
  obtain ⟨r, z, h⟩ := fromDec_sound a.cls (x + y)
  refine ⟨r, z, ?_, h.2⟩
  unfold AngleObj.add; rw [ha, hb]; exact h.1

/-- **op_dec** (`-`) -/
theorem sub_dec (a b : AngleObj ℚ) (x y : ℚ) (ha : a.dec = .ok x) (hb : b.dec = .ok y) :
    ∃ r z, a.sub b = .ok r ∧ r.cls = a.cls ∧ WF r ∧ r.dec = .ok z ∧ |z - (x - y)| ≤ clsTol a.cls (x - y) := by
  obtain ⟨r, z, h⟩ := fromDec_sound a.cls (x - y)
  refine ⟨r, z, ?_, h.2⟩
  unfold AngleObj.sub; rw [ha, hb]; exact h.1

/-- `a.__radd__(b)`: `b.dec + a.dec`, class of `a` -/
theorem radd_dec (a b : AngleObj ℚ) (x y : ℚ) (ha : a.dec = .ok x) (hb : b.dec = .ok y) :
    ∃ r z, a.radd b = .ok r ∧ r.cls = a.cls ∧ WF r ∧ r.dec = .ok z ∧ |z - (y + x)| ≤ clsTol a.cls (y + x) := by
  obtain ⟨r, z, h⟩ := fromDec_sound a.cls (y + x)
  refine ⟨r, z, ?_, h.2⟩
  unfold AngleObj.radd; rw [ha, hb]; exact h.1

/-- `a.__rsub__(b)`: `b.dec - a.dec`, class of `a` -/
theorem rsub_dec (a b : AngleObj ℚ) (x y : ℚ) (ha : a.dec = .ok x) (hb : b.dec = .ok y) :
    ∃ r z, a.rsub b = .ok r ∧ r.cls = a.cls ∧ WF r ∧ r.dec = .ok z ∧ |z - (y - x)| ≤ clsTol a.cls (y - x) := by
  obtain ⟨r, z, h⟩ := fromDec_sound a.cls (y - x)
  refine ⟨r, z, ?_, h.2⟩
  unfold AngleObj.rsub; rw [ha, hb]; exact h.1

/-- **op_dec** (`a * k`) -/
theorem mul_dec (a : AngleObj ℚ) (x k : ℚ) (ha : a.dec = .ok x) :
    ∃ r z, a.mul k = .ok r ∧ r.cls = a.cls ∧ WF r ∧ r.dec = .ok z ∧ |z - x * k| ≤ clsTol a.cls (x * k) := by
  obtain ⟨r, z, h⟩ := fromDec_sound a.cls (x * k)
  refine ⟨r, z, ?_, h.2⟩
  unfold AngleObj.mul; rw [ha]; exact h.1

/-- **op_dec** (`k * a`) -/
theorem rmul_dec (a : AngleObj ℚ) (x k : ℚ) (ha : a.dec = .ok x) :
    ∃ r z, a.rmul k = .ok r ∧ r.cls = a.cls ∧ WF r ∧ r.dec = .ok z ∧ |z - k * x| ≤ clsTol a.cls (k * x) := by
  obtain ⟨r, z, h⟩ := fromDec_sound a.cls (k * x)
  refine ⟨r, z, ?_, h.2⟩
  unfold AngleObj.rmul; rw [ha]; exact h.1

/-- **op_dec** (`a / k`, `k ≠ 0`; `k = 0` raises `ZeroDivisionError`) -/
theorem truediv_dec (a : AngleObj ℚ) (x k : ℚ) (ha : a.dec = .ok x) :
    (k = 0 → a.truediv k = .error .ZeroDivisionError) ∧
    (k ≠ 0 → ∃ r z, a.truediv k = .ok r ∧ r.cls = a.cls ∧ WF r ∧ r.dec = .ok z ∧
      |z - x / k| ≤ clsTol a.cls (x / k)) := by
  constructor
  · intro hk; unfold AngleObj.truediv; rw [ha]; simp [hk]; rfl
  · intro hk
    obtain ⟨r, z, h⟩ := fromDec_sound a.cls (x / k)
    refine ⟨r, z, ?_, h.2⟩
    unfold AngleObj.truediv; rw [ha]
    show (if AngArith.eqb k (AngArith.ofNat 0) = true then _ else _) = _
    simp only [q_eqb, q_ofNat, Nat.cast_zero, hk, decide_false, Bool.false_eq_true, if_false]
    exact h.1

/-! ### 2. negation and absolute value are exact -/

theorem hpN_neg (x : ℚ) : hpN (-x) = hpN x := by unfold hpN; rw [abs_neg]
theorem hpN_abs (x : ℚ) : hpN |x| = hpN x := by unfold hpN; rw [abs_abs]
theorem hpN_zero : hpN 0 = 0 := by unfold hpN; simp [rhe_natCast 0 |> fun h => by simpa using h]

theorem hp2dec_neg (x a : ℚ) (h : hp2dec x = .ok a) : hp2dec (-x) = .ok (-a) := by
  obtain ⟨hv, ha⟩ := hp_valid_of_ok h
  rw [hp2dec_spec, hpN_neg, if_pos hv, ha]
  rcases lt_trichotomy x 0 with hx | hx | hx
  · have h1 : 0 ≤ -x := by linarith
    have h2 : ¬ (0 ≤ x) := not_le.mpr hx
    rw [if_pos h1, if_neg h2, neg_neg]
  · subst hx; simp [hpN_zero, hpAngle_zero]
  · have h1 : ¬ (0 ≤ -x) := by linarith
    have h2 : 0 ≤ x := le_of_lt hx
    rw [if_neg h1, if_pos h2]

theorem hp2dec_abs (x a : ℚ) (h : hp2dec x = .ok a) : hp2dec |x| = .ok |a| := by
  obtain ⟨hv, ha⟩ := hp_valid_of_ok h
  have hA := hpAngle_nonneg (hpN x)
  rw [hp2dec_spec, hpN_abs, if_pos hv, if_pos (abs_nonneg x), ha]
  by_cases hx : 0 ≤ x
  · rw [if_pos hx, abs_of_nonneg hA]
  · rw [if_neg hx, abs_neg, abs_of_nonneg hA]

/-- **neg_abs** (`-a`): exact for every class, including zero-degree negatives and zero; the class
is kept and the result is well formed -/
theorem neg_dec (a : AngleObj ℚ) (x : ℚ) (hw : WF a) (ha : a.dec = .ok x) :
    ∃ r, a.neg = .ok r ∧ r.cls = a.cls ∧ WF r ∧ r.dec = .ok (-x) := by
  cases a with
  | decA v => have e : v = x := ok_inj ha
              subst e; exact ⟨.decA (-v), rfl, rfl, trivial, rfl⟩
  | hpA v =>
    have hv : HpValid (hpN (-v)) := by rw [hpN_neg]; exact hw
    refine ⟨.hpA (-v), ?_, rfl, hv, hp2dec_neg v x ha⟩
    show mkHP (-v) = _
    rw [hpangle_accepts_iff_valid, if_pos hv]
  | gonA v =>
    have e : gon2dec v = x := ok_inj ha
    refine ⟨.gonA (-v), rfl, rfl, trivial, ?_⟩
    rw [dec_gonA, ← e]; simp only [gon2dec, q_natDiv]; congr 1; ring
  | dmsA s =>
    have e : s.dec = x := ok_inj ha
    obtain ⟨h1, h2⟩ := dms_neg s hw
    exact ⟨.dmsA s.neg, rfl, rfl, h2, by rw [dec_dmsA, h1, e]⟩
  | ddmA s =>
    have e : s.dec = x := ok_inj ha
    obtain ⟨h1, h2⟩ := ddm_neg s hw
    exact ⟨.ddmA s.neg, rfl, rfl, h2, by rw [dec_ddmA, h1, e]⟩

/-- **neg_abs** (`abs(a)`) -/
theorem abs_dec (a : AngleObj ℚ) (x : ℚ) (hw : WF a) (ha : a.dec = .ok x) :
    ∃ r, a.abs = .ok r ∧ r.cls = a.cls ∧ WF r ∧ r.dec = .ok |x| := by
  cases a with
  | decA v => have e : v = x := ok_inj ha
              subst e; exact ⟨.decA |v|, rfl, rfl, trivial, rfl⟩
  | hpA v =>
    have hv : HpValid (hpN |v|) := by rw [hpN_abs]; exact hw
    refine ⟨.hpA |v|, ?_, rfl, hv, hp2dec_abs v x ha⟩
    show mkHP |v| = _
    rw [hpangle_accepts_iff_valid, if_pos hv]
  | gonA v =>
    have e : gon2dec v = x := ok_inj ha
    refine ⟨.gonA |v|, rfl, rfl, trivial, ?_⟩
    rw [dec_gonA, ← e]; simp only [gon2dec, q_natDiv]; congr 1
    rw [abs_mul, abs_of_nonneg (by norm_num : (0 : ℚ) ≤ ((9 : ℕ) : ℚ) / ((10 : ℕ) : ℚ))]
  | dmsA s =>
    have e : s.dec = x := ok_inj ha
    obtain ⟨h1, h2⟩ := dms_abs s hw
    exact ⟨.dmsA s.abs, rfl, rfl, h2, by rw [dec_dmsA, h1, e]⟩
  | ddmA s =>
    have e : s.dec = x := ok_inj ha
    obtain ⟨h1, h2⟩ := ddm_abs s hw
    exact ⟨.ddmA s.abs, rfl, rfl, h2, by rw [dec_ddmA, h1, e]⟩

/-- `-(-a)` denotes `a` -/
theorem neg_involutive (a : AngleObj ℚ) (x : ℚ) (hw : WF a) (ha : a.dec = .ok x) :
    ∃ r r', a.neg = .ok r ∧ r.neg = .ok r' ∧ r'.cls = a.cls ∧ r'.dec = .ok x := by
  obtain ⟨r, h1, h2, h3, h4⟩ := neg_dec a x hw ha
  obtain ⟨r', g1, g2, -, g4⟩ := neg_dec r (-x) h3 h4
  exact ⟨r, r', h1, g1, by rw [g2, h2], by rw [g4, neg_neg]⟩

/-! ### 3. comparisons are comparisons of the decimal-degree values (any mix of classes) -/

/-- **cmp_dec** -/
theorem cmp_dec (a b : AngleObj ℚ) (x y : ℚ) (ha : a.dec = .ok x) (hb : b.dec = .ok y) :
    a.eq b = .ok (decide (x = y)) ∧ a.ne b = .ok (decide (x ≠ y)) ∧
    a.lt b = .ok (decide (x < y)) ∧ a.gt b = .ok (decide (x > y)) := by
  unfold AngleObj.eq AngleObj.ne AngleObj.lt AngleObj.gt
  rw [ha, hb]
  refine ⟨rfl, ?_, rfl, rfl⟩
  show Except.ok (!decide (x = y)) = _
  simp

/-! ### 4. rounding changes an object by at most half a unit of the rounded place -/

/-- Python `round(x, n)` in exact arithmetic (`n = None`: to an integer) -/
def rnd (n : Option ℕ) (x : ℚ) : ℚ :=
  match n with
  | none => (rhe x : ℚ)
  | some k => (rhe (x * 10 ^ k) : ℚ) / 10 ^ k

theorem q_ofInt (i : ℤ) : (ofInt i : ℚ) = (i : ℚ) := by
  unfold ofInt
  simp only [q_ofNat]
  split
  · rename_i h
    have : ((i.natAbs : ℕ) : ℚ) = -(i : ℚ) := by
      rw [Nat.cast_natAbs, abs_of_neg h]; push_cast; ring
    rw [this, neg_neg]
  · rename_i h
    rw [Nat.cast_natAbs, abs_of_nonneg (not_lt.mp h)]

theorem roundNum_toF (n : Option ℕ) (x : ℚ) : (AngleObj.roundNum n x).toF = rnd n x := by
  cases n with
  | none => simp only [AngleObj.roundNum, PyNum.toF, q_ofInt, q_roundInt, rnd]
  | some k => simp only [AngleObj.roundNum, PyNum.toF, q_roundDec, rnd]

theorem rnd_close (n : Option ℕ) (x : ℚ) : |rnd n x - x| ≤ 1 / 2 / 10 ^ (n.getD 0) := by
  cases n with
  | none => simpa [rnd] using rhe_close x
  | some k =>
    simp only [rnd, Option.getD_some]
    have h := rhe_close (x * 10 ^ k)
    have hp : (0 : ℚ) < 10 ^ k := by positivity
    have e : (rhe (x * 10 ^ k) : ℚ) / 10 ^ k - x = ((rhe (x * 10 ^ k) : ℚ) - x * 10 ^ k) / 10 ^ k := by
      field_simp
    rw [e, abs_div, abs_of_pos hp]
    exact div_le_div_of_nonneg_right h (le_of_lt hp)

theorem rnd_nonneg (n : Option ℕ) {x : ℚ} (h : 0 ≤ x) : 0 ≤ rnd n x := by
  cases n with
  | none => simp only [rnd]; exact_mod_cast rhe_nonneg h
  | some k =>
    simp only [rnd]
    have : 0 ≤ rhe (x * 10 ^ k) := rhe_nonneg (by positivity)
    have : (0 : ℚ) ≤ (rhe (x * 10 ^ k) : ℚ) := by exact_mod_cast this
    positivity

/-- a rounded non-negative field as a constructor argument -/
theorem roundNum_arg (n : Option ℕ) {x : ℚ} (h : 0 ≤ x) :
    (AngleObj.roundNum n x).lt0 = false ∧ (AngleObj.roundNum n x).absF = rnd n x ∧
    (AngleObj.roundNum n x).neg.absF = rnd n x ∧
    (AngleObj.roundNum n x).neg.lt0 = decide (0 < rnd n x) := by
  have hr := rnd_nonneg n h
  cases n with
  | none =>
    have h0 : 0 ≤ rhe x := rhe_nonneg h
    simp only [AngleObj.roundNum, PyNum.lt0, PyNum.absF, PyNum.neg, q_roundInt, q_ofNat, rnd,
      Int.natAbs_neg]
    have e : ((rhe x).natAbs : ℚ) = (rhe x : ℚ) := by
      rw [Nat.cast_natAbs, abs_of_nonneg h0]
    refine ⟨by simp; omega, e, e, ?_⟩
    by_cases hz : 0 < rhe x
    · have : (0 : ℚ) < (rhe x : ℚ) := by exact_mod_cast hz
      simp [this]; omega
    · have : ¬ (0 : ℚ) < (rhe x : ℚ) := by intro h'; apply hz; exact_mod_cast h'
      simp [this]; omega
  | some k =>
    simp only [AngleObj.roundNum, PyNum.lt0, PyNum.absF, PyNum.neg, q_roundDec, q_ofNat, q_ltb, q_absv,
      Nat.cast_zero, rnd] at hr ⊢
    refine ⟨by simp [not_lt.mpr hr], abs_of_nonneg hr, by rw [abs_neg, abs_of_nonneg hr], ?_⟩
    congr 1
    exact propext neg_lt_zero

theorem lt0_natInt (m : ℕ) : (PyNum.int (m : ℤ) : PyNum ℚ).lt0 = false := by simp [PyNum.lt0]

theorem mkDMS_posN (d m : ℕ) (s : PyNum ℚ) (hs : s.lt0 = false) :
    mkDMS (.int (d : ℤ)) (.int (m : ℤ)) s none = ⟨true, d, m, s.absF⟩ := by
  simp [mkDMS, PyNum.strNeg, PyNum.isZero, lt0_natInt, PyNum.toInt, hs]

theorem mkDDM_posN (d : ℕ) (m : PyNum ℚ) (hm : m.lt0 = false) :
    mkDDM (.int (d : ℤ)) m none = ⟨true, d, m.absF⟩ := by
  simp [mkDDM, PyNum.strNeg, PyNum.isZero, PyNum.toInt, hm]

theorem mkDDM_negN (d : ℕ) (m : PyNum ℚ) (v : ℚ) (habs : m.absF = v) (hlt : m.lt0 = decide (0 < v))
    (hv : 0 ≤ v) :
    mkDDM (.int (-(d : ℤ))) m none = ⟨decide (d = 0 ∧ v = 0), d, v⟩ := by
  simp only [mkDDM, PyNum.strNeg, PyNum.isZero, PyNum.toInt, habs, hlt, Int.natAbs_neg, Int.natAbs_natCast]
  congr 1
  by_cases hd : d = 0
  · by_cases hv0 : v = 0
    · subst hd hv0; simp
    · have : 0 < v := lt_of_le_of_ne hv (Ne.symm hv0)
      subst hd; simp [hv0, this]
  · have : 0 < d := Nat.pos_of_ne_zero hd
    simp [hd, this]

/-- the unit of the rounded place, in degrees: 1° (DEC), 1 gon = 0.9° (GON), 1″ (DMS), 1′ (DDM) -/
def roundUnit : Cls → ℚ
  | .DEC => 1 | .GON => 9 / 10 | .DMS => 1 / 3600 | .DDM => 1 / 60 | .HP => 0

/-- **round_half_unit**: `round(a, n)` (DEC, GON, DMS, DDM; `n = None` or `n ≥ 0`) keeps the class
and changes the angle by at most half a unit of the rounded place. The rounded DMS/DDM object may
hold seconds/minutes equal to 60 (59.9996″ → 60.0″); it still denotes the right angle. -/
theorem round_half_unit (a : AngleObj ℚ) (n : Option ℕ) (x : ℚ) (hw : WF a) (ha : a.dec = .ok x)
    (hc : a.cls ≠ .HP) :
    ∃ r z, a.round n = .ok r ∧ r.cls = a.cls ∧ WF r ∧ r.dec = .ok z ∧
      |z - x| ≤ 1 / 2 / 10 ^ (n.getD 0) * roundUnit a.cls := by
  cases a with
  | hpA v => exact absurd rfl hc
  | decA v =>
    have e : v = x := ok_inj ha
    subst e
    refine ⟨.decA (rnd n v), rnd n v, ?_, rfl, trivial, rfl, ?_⟩
    · show Except.ok (AngleObj.decA (AngleObj.roundNum n v).toF) = _
      rw [roundNum_toF]
    · simpa [roundUnit, AngleObj.cls] using rnd_close n v
  | gonA v =>
    have e : gon2dec v = x := ok_inj ha
    refine ⟨.gonA (rnd n v), gon2dec (rnd n v), ?_, rfl, trivial, rfl, ?_⟩
    · show Except.ok (AngleObj.gonA (AngleObj.roundNum n v).toF) = _
      rw [roundNum_toF]
    · rw [← e]
      simp only [gon2dec, q_natDiv, roundUnit, AngleObj.cls]
      have h := rnd_close n v
      have e2 : ((9 : ℕ) : ℚ) / ((10 : ℕ) : ℚ) * rnd n v - ((9 : ℕ) : ℚ) / ((10 : ℕ) : ℚ) * v
          = 9 / 10 * (rnd n v - v) := by push_cast; ring
      rw [e2, abs_mul, abs_of_pos (by norm_num : (0 : ℚ) < 9 / 10)]
      nlinarith [abs_nonneg (rnd n v - v)]
  | dmsA s =>
    have e : s.dec = x := ok_inj ha
    have hs : 0 ≤ s.second := hw
    obtain ⟨l1, l2, -, -⟩ := roundNum_arg n hs
    have hr := rnd_nonneg n hs
    have hmk := mkDMS_posN s.degree s.minute (AngleObj.roundNum n s.second) l1
    rw [l2] at hmk
    have hcl := rnd_close n s.second
    have key : |dmsMag ⟨true, s.degree, s.minute, rnd n s.second⟩ - dmsMag s|
        ≤ 1 / 2 / 10 ^ (n.getD 0) * (1 / 3600) := by
      have e3 : dmsMag ⟨true, s.degree, s.minute, rnd n s.second⟩ - dmsMag s = (rnd n s.second - s.second) / 3600 := by
        simp only [dmsMag]; ring
      rw [e3, abs_div, abs_of_pos (by norm_num : (0 : ℚ) < 3600)]
      rw [mul_one_div]
      exact div_le_div_of_nonneg_right hcl (by norm_num)
    by_cases hp : s.positive
    · refine ⟨.dmsA ⟨true, s.degree, s.minute, rnd n s.second⟩, _, ?_, rfl, hr, rfl, ?_⟩
      · show Except.ok (AngleObj.dmsA (if s.positive then _ else _)) = _
        rw [if_pos hp, hmk]
      · rw [← e, dms_dec, dms_dec, if_pos hp]; simpa [roundUnit, AngleObj.cls] using key
    · obtain ⟨g1, g2⟩ := dms_neg ⟨true, s.degree, s.minute, rnd n s.second⟩ hr
      refine ⟨.dmsA (DMS.neg ⟨true, s.degree, s.minute, rnd n s.second⟩), _, ?_, rfl, g2, rfl, ?_⟩
      · show Except.ok (AngleObj.dmsA (if s.positive then _ else _)) = _
        rw [if_neg hp, hmk]
      · rw [← e, g1, dms_dec, dms_dec, if_neg hp]
        simp only [if_true, roundUnit, AngleObj.cls]
        have : -dmsMag ⟨true, s.degree, s.minute, rnd n s.second⟩ - -dmsMag s
            = -(dmsMag ⟨true, s.degree, s.minute, rnd n s.second⟩ - dmsMag s) := by ring
        rw [this, abs_neg]; exact key
  | ddmA s =>
    have e : s.dec = x := ok_inj ha
    have hs : 0 ≤ s.minute := hw
    obtain ⟨l1, l2, l3, l4⟩ := roundNum_arg n hs
    have hr := rnd_nonneg n hs
    have hcl := rnd_close n s.minute
    have key : |ddmMag ⟨true, s.degree, rnd n s.minute⟩ - ddmMag s| ≤ 1 / 2 / 10 ^ (n.getD 0) * (1 / 60) := by
      have e3 : ddmMag ⟨true, s.degree, rnd n s.minute⟩ - ddmMag s = (rnd n s.minute - s.minute) / 60 := by
        simp only [ddmMag]; ring
      rw [e3, abs_div, abs_of_pos (by norm_num : (0 : ℚ) < 60), mul_one_div]
      exact div_le_div_of_nonneg_right hcl (by norm_num)
    by_cases hp : s.positive
    · have hmk := mkDDM_posN s.degree (AngleObj.roundNum n s.minute) l1
      rw [l2] at hmk
      refine ⟨.ddmA ⟨true, s.degree, rnd n s.minute⟩, _, ?_, rfl, hr, rfl, ?_⟩
      · show (if s.positive then _ else _) = _
        rw [if_pos hp, hmk]
      · rw [← e, ddm_dec, ddm_dec, if_pos hp]; simpa [roundUnit, AngleObj.cls] using key
    · have hmk := mkDDM_negN s.degree (AngleObj.roundNum n s.minute).neg (rnd n s.minute) l3 l4 hr
      refine ⟨.ddmA ⟨decide (s.degree = 0 ∧ rnd n s.minute = 0), s.degree, rnd n s.minute⟩, _, ?_, rfl, hr, rfl, ?_⟩
      · show (if s.positive then _ else _) = _
        rw [if_neg hp, hmk]
      · rw [← e, ddm_dec, ddm_dec, if_neg hp]
        simp only [roundUnit, AngleObj.cls]
        have hm : ddmMag ⟨decide (s.degree = 0 ∧ rnd n s.minute = 0), s.degree, rnd n s.minute⟩
            = ddmMag ⟨true, s.degree, rnd n s.minute⟩ := rfl
        by_cases hz : s.degree = 0 ∧ rnd n s.minute = 0
        · have h0 : ddmMag ⟨true, s.degree, rnd n s.minute⟩ = 0 := ddmMag_eq_zero _ ⟨hz.1, hz.2⟩
          have e4 : (if (decide (s.degree = 0 ∧ rnd n s.minute = 0)) = true then ddmMag ⟨decide (s.degree = 0 ∧ rnd n s.minute = 0), s.degree, rnd n s.minute⟩
              else -ddmMag ⟨decide (s.degree = 0 ∧ rnd n s.minute = 0), s.degree, rnd n s.minute⟩) = -ddmMag ⟨true, s.degree, rnd n s.minute⟩ := by
            rw [hm, h0]; simp
          rw [e4]
          have : -ddmMag ⟨true, s.degree, rnd n s.minute⟩ - -ddmMag s
              = -(ddmMag ⟨true, s.degree, rnd n s.minute⟩ - ddmMag s) := by ring
          rw [this, abs_neg]; exact key
        · have e4 : (if (decide (s.degree = 0 ∧ rnd n s.minute = 0)) = true then ddmMag ⟨decide (s.degree = 0 ∧ rnd n s.minute = 0), s.degree, rnd n s.minute⟩
              else -ddmMag ⟨decide (s.degree = 0 ∧ rnd n s.minute = 0), s.degree, rnd n s.minute⟩) = -ddmMag ⟨true, s.degree, rnd n s.minute⟩ := by
            rw [hm]; simp [hz]
          rw [e4]
          have : -ddmMag ⟨true, s.degree, rnd n s.minute⟩ - -ddmMag s
              = -(ddmMag ⟨true, s.degree, rnd n s.minute⟩ - ddmMag s) := by ring
          rw [this, abs_neg]; exact key

/-! ### 5. modulo (DMS, DDM) is Python's float modulo of the decimal-degree value -/

/-- Python `x % k` in exact arithmetic: `x − k·⌊x/k⌋` (sign of the divisor) -/
def pymod (x k : ℚ) : ℚ := x - k * (⌊x / k⌋ : ℚ)

/-- **mod_dec**: `a % k` for DMS and DDM is the object of the same class denoting `a.dec % k`
exactly; `k = 0` raises `ZeroDivisionError`; HP and GON have no `%` (`TypeError`), and `%` on a
DECAngle is `float.__mod__` and returns a plain number. -/
theorem mod_dec (a : AngleObj ℚ) (k x : ℚ) (ha : a.dec = .ok x) :
    (a.cls = .DMS ∨ a.cls = .DDM →
      (k = 0 → a.mod k = .error .ZeroDivisionError) ∧
      (k ≠ 0 → ∃ r, a.mod k = .ok (.obj r) ∧ r.cls = a.cls ∧ WF r ∧ r.dec = .ok (pymod x k))) ∧
    (a.cls = .HP ∨ a.cls = .GON → a.mod k = .error .TypeError) ∧
    (a.cls = .DEC → k ≠ 0 → a.mod k = .ok (.num (pymod x k))) := by
  cases a with
  | decA v =>
    have e : v = x := ok_inj ha
    subst e
    refine ⟨fun h => by simp [AngleObj.cls] at h, fun h => by simp [AngleObj.cls] at h, fun _ hk => ?_⟩
    show (if AngArith.eqb k (AngArith.ofNat 0) = true then _ else _) = _
    simp only [q_eqb, q_ofNat, Nat.cast_zero, hk, decide_false, Bool.false_eq_true, if_false, q_pmod, pymod]
  | hpA v =>
    exact ⟨fun h => by simp [AngleObj.cls] at h, fun _ => rfl, fun h => by simp [AngleObj.cls] at h⟩
  | gonA v =>
    exact ⟨fun h => by simp [AngleObj.cls] at h, fun _ => rfl, fun h => by simp [AngleObj.cls] at h⟩
  | dmsA s =>
    have e : s.dec = x := ok_inj ha
    refine ⟨fun _ => ⟨fun hk => ?_, fun hk => ?_⟩, fun h => by simp [AngleObj.cls] at h,
      fun h => by simp [AngleObj.cls] at h⟩
    · show (if AngArith.eqb k (AngArith.ofNat 0) = true then _ else _) = _
      simp [hk]
    · refine ⟨.dmsA (dec2dms (pymod x k)), ?_, rfl, (dec2dms_dec _).2, by rw [dec_dmsA, (dec2dms_dec _).1]⟩
      show (if AngArith.eqb k (AngArith.ofNat 0) = true then _ else _) = _
      simp only [q_eqb, q_ofNat, Nat.cast_zero, hk, decide_false, Bool.false_eq_true, if_false, q_pmod, pymod, e]
  | ddmA s =>
    have e : s.dec = x := ok_inj ha
    refine ⟨fun _ => ⟨fun hk => ?_, fun hk => ?_⟩, fun h => by simp [AngleObj.cls] at h,
      fun h => by simp [AngleObj.cls] at h⟩
    · show (if AngArith.eqb k (AngArith.ofNat 0) = true then _ else _) = _
      simp [hk]
    · refine ⟨.ddmA (dec2ddm (pymod x k)), ?_, rfl, (dec2ddm_dec _).2, by rw [dec_ddmA, (dec2ddm_dec _).1]⟩
      show (if AngArith.eqb k (AngArith.ofNat 0) = true then _ else _) = _
      simp only [q_eqb, q_ofNat, Nat.cast_zero, hk, decide_false, Bool.false_eq_true, if_false, q_pmod, pymod, e]

/-- for a positive modulus the result lies in `[0, k)` -/
theorem pymod_range (x k : ℚ) (hk : 0 < k) : 0 ≤ pymod x k ∧ pymod x k < k := by
  unfold pymod
  have h1 := Int.floor_le (x / k)
  have h2 := Int.lt_floor_add_one (x / k)
  rw [le_div_iff₀ hk] at h1
  rw [div_lt_iff₀ hk] at h2
  constructor <;> nlinarith

/-! ### 6. expression trees: any program over the operators evaluates to the same angle
whichever notations its operands are held in -/

/-- the class an expression evaluates to: the class of its leftmost leaf -/
def leftCls : Expr ℚ → Cls
  | .leaf o => o.cls
  | .add a _ => leftCls a
  | .sub a _ => leftCls a
  | .neg a => leftCls a
  | .abs a => leftCls a
  | .mulK a _ => leftCls a
  | .rmulK _ a => leftCls a
  | .divK a _ => leftCls a
  | .modK a _ => leftCls a
  | .round _ a => leftCls a

/-- the same program on decimal degrees (plain numbers) -/
def ref : Expr ℚ → ℚ
  | .leaf o => (odec o).getD 0
  | .add a b => ref a + ref b
  | .sub a b => ref a - ref b
  | .neg a => -ref a
  | .abs a => |ref a|
  | .mulK a k => ref a * k
  | .rmulK k a => k * ref a
  | .divK a k => ref a / k
  | .modK a k => pymod (ref a) k
  | .round _ a => ref a

/-- representation error of a result of class `c` when one HP rounding costs `ε` -/
def T (ε : ℚ) (c : Cls) : ℚ := if c = .HP then ε else 0

/-- accumulated bound: every HP-class node adds one rounding; scalings scale what is below them -/
def errB (ε : ℚ) : Expr ℚ → ℚ
  | .leaf _ => 0
  | .add a b => errB ε a + errB ε b + T ε (leftCls a)
  | .sub a b => errB ε a + errB ε b + T ε (leftCls a)
  | .neg a => errB ε a
  | .abs a => errB ε a
  | .mulK a k => |k| * errB ε a + T ε (leftCls a)
  | .rmulK k a => |k| * errB ε a + T ε (leftCls a)
  | .divK a k => errB ε a / |k| + T ε (leftCls a)
  | .modK a _ => errB ε a
  | .round _ a => errB ε a

/-- admissible programs: leaves are well-formed objects, no division by zero, `%` only on a
DMS/DDM-class operand that is exact (it is discontinuous), no `round` nodes (rounding is
class-specific, see `round_half_unit`); `C` is the side condition under which one HP rounding
costs at most `ε` and has to hold for every value within the accumulated bound of the exact one. -/
def Adm (ε : ℚ) (C : ℚ → Prop) : Expr ℚ → Prop
  | .leaf o => WF o ∧ ∃ x, o.dec = .ok x
  | .add a b => Adm ε C a ∧ Adm ε C b ∧ ∀ v, |v - (ref a + ref b)| ≤ errB ε a + errB ε b → C v
  | .sub a b => Adm ε C a ∧ Adm ε C b ∧ ∀ v, |v - (ref a - ref b)| ≤ errB ε a + errB ε b → C v
  | .neg a => Adm ε C a
  | .abs a => Adm ε C a
  | .mulK a k => Adm ε C a ∧ ∀ v, |v - ref a * k| ≤ |k| * errB ε a → C v
  | .rmulK k a => Adm ε C a ∧ ∀ v, |v - k * ref a| ≤ |k| * errB ε a → C v
  | .divK a k => k ≠ 0 ∧ Adm ε C a ∧ ∀ v, |v - ref a / k| ≤ errB ε a / |k| → C v
  | .modK a k => k ≠ 0 ∧ (leftCls a = .DMS ∨ leftCls a = .DDM) ∧ errB ε a = 0 ∧ Adm ε C a
  | .round _ _ => False

theorem T_nonneg {ε : ℚ} (h : 0 ≤ ε) (c : Cls) : 0 ≤ T ε c := by unfold T; split <;> simp [h]

theorem clsTol_le_T {ε : ℚ} {C : ℚ → Prop} (hC : ∀ v, C v → hpTol v ≤ ε) (c : Cls) (v : ℚ)
    (hv : C v) : clsTol c v ≤ T ε c := by
  unfold clsTol T; split
  · exact hC v hv
  · exact le_refl 0

theorem errB_nonneg {ε : ℚ} (h : 0 ≤ ε) (e : Expr ℚ) : 0 ≤ errB ε e := by
  induction e with
  | leaf o => simp [errB]
  | add a b iha ihb => simp only [errB]; have := T_nonneg h (leftCls a); linarith
  | sub a b iha ihb => simp only [errB]; have := T_nonneg h (leftCls a); linarith
  | neg a ih => simpa [errB] using ih
  | abs a ih => simpa [errB] using ih
  | mulK a k ih => simp only [errB]; have := T_nonneg h (leftCls a); have := abs_nonneg k; nlinarith
  | rmulK k a ih => simp only [errB]; have := T_nonneg h (leftCls a); have := abs_nonneg k; nlinarith
  | divK a k ih => simp only [errB]; have := T_nonneg h (leftCls a)
                   have : 0 ≤ errB ε a / |k| := div_nonneg ih (abs_nonneg k); linarith
  | modK a k ih => simpa [errB] using ih
  | round n a ih => simpa [errB] using ih

theorem odec_ok {o : AngleObj ℚ} {x : ℚ} (h : o.dec = .ok x) : (odec o).getD 0 = x := by
  unfold odec; rw [h]; rfl

theorem eval_bind_ok {e : Expr ℚ} {o : AngleObj ℚ} (h : eval e = .ok (.obj o)) (f : Val ℚ → Except PyErr (Val ℚ)) :
    (eval e).bind f = f (.obj o) := by rw [h]; rfl

/-- **eval_sound** (generic form): if one HP rounding costs at most `ε` under the side condition
`C`, every admissible program evaluates — for ANY assignment of the five classes to its leaves — to
a well-formed object of the class of its leftmost leaf that denotes the decimal-degree value of
the same program within the accumulated bound `errB ε`. Induction over the tree. -/
theorem eval_sound_gen (ε : ℚ) (C : ℚ → Prop) (hC : ∀ v, C v → hpTol v ≤ ε)
    (e : Expr ℚ) (h : Adm ε C e) :
    ∃ o z, eval e = .ok (.obj o) ∧ o.cls = leftCls e ∧ WF o ∧ o.dec = .ok z ∧ |z - ref e| ≤ errB ε e := by
  induction e with
  | leaf o =>
    obtain ⟨hw, x, hx⟩ := h
    exact ⟨o, x, rfl, rfl, hw, hx, by simp [ref, errB, odec_ok hx]⟩
  | add a b iha ihb =>
    obtain ⟨h1, h2, h3⟩ := h
    obtain ⟨oa, za, ea, ca, wa, da, ba⟩ := iha h1
    obtain ⟨ob, zb, eb, cb, wb, db, bb⟩ := ihb h2
    obtain ⟨r, z, r1, r2, r3, r4, r5⟩ := add_dec oa ob za zb da db
    have hv : C (za + zb) := h3 _ (by
      have : za + zb - (ref a + ref b) = (za - ref a) + (zb - ref b) := by ring
      rw [this]; exact le_trans (abs_add_le _ _) (by linarith))
    have ht := clsTol_le_T hC oa.cls (za + zb) hv
    refine ⟨r, z, ?_, by rw [r2, ca]; rfl, r3, r4, ?_⟩
    · show (eval a).bind (fun x => (eval b).bind (fun y => binop .add x y)) = _
      rw [ea, bind_ok, eb, bind_ok]
      show (oa.add ob).map Val.obj = _
      rw [r1]; rfl
    · simp only [ref, errB]
      have e1 : z - (ref a + ref b) = (z - (za + zb)) + ((za - ref a) + (zb - ref b)) := by ring
      rw [e1]
      have := abs_add_le (z - (za + zb)) ((za - ref a) + (zb - ref b))
      have := abs_add_le (za - ref a) (zb - ref b)
      rw [ca] at ht r5
      linarith
  | sub a b iha ihb =>
    obtain ⟨h1, h2, h3⟩ := h
    obtain ⟨oa, za, ea, ca, wa, da, ba⟩ := iha h1
    obtain ⟨ob, zb, eb, cb, wb, db, bb⟩ := ihb h2
    obtain ⟨r, z, r1, r2, r3, r4, r5⟩ := sub_dec oa ob za zb da db
    have hab : |za - zb - (ref a - ref b)| ≤ errB ε a + errB ε b := by
      have : za - zb - (ref a - ref b) = (za - ref a) + -(zb - ref b) := by ring
      rw [this]
      have := abs_add_le (za - ref a) (-(zb - ref b))
      rw [abs_neg] at this
      linarith
    have hv : C (za - zb) := h3 _ hab
    have ht := clsTol_le_T hC oa.cls (za - zb) hv
    refine ⟨r, z, ?_, by rw [r2, ca]; rfl, r3, r4, ?_⟩
    · show (eval a).bind (fun x => (eval b).bind (fun y => binop .sub x y)) = _
      rw [ea, bind_ok, eb, bind_ok]
      show (oa.sub ob).map Val.obj = _
      rw [r1]; rfl
    · simp only [ref, errB]
      have e1 : z - (ref a - ref b) = (z - (za - zb)) + (za - zb - (ref a - ref b)) := by ring
      rw [e1]
      have := abs_add_le (z - (za - zb)) (za - zb - (ref a - ref b))
      rw [ca] at ht r5
      linarith
  | neg a ih =>
    obtain ⟨oa, za, ea, ca, wa, da, ba⟩ := ih h
    obtain ⟨r, r1, r2, r3, r4⟩ := neg_dec oa za wa da
    refine ⟨r, -za, ?_, by rw [r2, ca]; rfl, r3, r4, ?_⟩
    · show (eval a).bind unNeg = _
      rw [ea, bind_ok]
      show oa.neg.map Val.obj = _
      rw [r1]; rfl
    · simp only [ref, errB]
      have : -za - -ref a = -(za - ref a) := by ring
      rw [this, abs_neg]; exact ba
  | abs a ih =>
    obtain ⟨oa, za, ea, ca, wa, da, ba⟩ := ih h
    obtain ⟨r, r1, r2, r3, r4⟩ := abs_dec oa za wa da
    refine ⟨r, |za|, ?_, by rw [r2, ca]; rfl, r3, r4, ?_⟩
    · show (eval a).bind unAbs = _
      rw [ea, bind_ok]
      show oa.abs.map Val.obj = _
      rw [r1]; rfl
    · simp only [ref, errB]
      exact le_trans (abs_abs_sub_abs_le_abs_sub za (ref a)) ba
  | mulK a k ih =>
    obtain ⟨h1, h3⟩ := h
    obtain ⟨oa, za, ea, ca, wa, da, ba⟩ := ih h1
    obtain ⟨r, z, r1, r2, r3, r4, r5⟩ := mul_dec oa za k da
    have hab : |za * k - ref a * k| ≤ |k| * errB ε a := by
      have : za * k - ref a * k = k * (za - ref a) := by ring
      rw [this, abs_mul]
      exact mul_le_mul_of_nonneg_left ba (abs_nonneg k)
    have ht := clsTol_le_T hC oa.cls (za * k) (h3 _ hab)
    refine ⟨r, z, ?_, by rw [r2, ca]; rfl, r3, r4, ?_⟩
    · show (eval a).bind (fun x => binop .mul x (.num k)) = _
      rw [ea, bind_ok]
      show (oa.mul k).map Val.obj = _
      rw [r1]; rfl
    · simp only [ref, errB]
      have e1 : z - ref a * k = (z - za * k) + (za * k - ref a * k) := by ring
      rw [e1]
      have := abs_add_le (z - za * k) (za * k - ref a * k)
      rw [ca] at ht r5
      linarith
  | rmulK k a ih =>
    obtain ⟨h1, h3⟩ := h
    obtain ⟨oa, za, ea, ca, wa, da, ba⟩ := ih h1
    obtain ⟨r, z, r1, r2, r3, r4, r5⟩ := rmul_dec oa za k da
    have hab : |k * za - k * ref a| ≤ |k| * errB ε a := by
      have : k * za - k * ref a = k * (za - ref a) := by ring
      rw [this, abs_mul]
      exact mul_le_mul_of_nonneg_left ba (abs_nonneg k)
    have ht := clsTol_le_T hC oa.cls (k * za) (h3 _ hab)
    refine ⟨r, z, ?_, by rw [r2, ca]; rfl, r3, r4, ?_⟩
    · show (eval a).bind (fun x => binop .mul (.num k) x) = _
      rw [ea, bind_ok]
      show (oa.rmul k).map Val.obj = _
      rw [r1]; rfl
    · simp only [ref, errB]
      have e1 : z - k * ref a = (z - k * za) + (k * za - k * ref a) := by ring
      rw [e1]
      have := abs_add_le (z - k * za) (k * za - k * ref a)
      rw [ca] at ht r5
      linarith
  | divK a k ih =>
    obtain ⟨hk, h1, h3⟩ := h
    obtain ⟨oa, za, ea, ca, wa, da, ba⟩ := ih h1
    obtain ⟨r, z, r1, r2, r3, r4, r5⟩ := (truediv_dec oa za k da).2 hk
    have hk' : 0 < |k| := abs_pos.mpr hk
    have hab : |za / k - ref a / k| ≤ errB ε a / |k| := by
      have : za / k - ref a / k = (za - ref a) / k := by ring
      rw [this, abs_div]
      exact div_le_div_of_nonneg_right ba (le_of_lt hk')
    have ht := clsTol_le_T hC oa.cls (za / k) (h3 _ hab)
    refine ⟨r, z, ?_, by rw [r2, ca]; rfl, r3, r4, ?_⟩
    · show (eval a).bind (fun x => binop .div x (.num k)) = _
      rw [ea, bind_ok]
      show (oa.truediv k).map Val.obj = _
      rw [r1]; rfl
    · simp only [ref, errB]
      have e1 : z - ref a / k = (z - za / k) + (za / k - ref a / k) := by ring
      rw [e1]
      have := abs_add_le (z - za / k) (za / k - ref a / k)
      rw [ca] at ht r5
      linarith
  | modK a k ih =>
    obtain ⟨hk, hcls, h0, h1⟩ := h
    obtain ⟨oa, za, ea, ca, wa, da, ba⟩ := ih h1
    rw [h0] at ba
    have hz : za = ref a := by
      have := abs_nonpos_iff.mp ba; linarith
    obtain ⟨r, r1, r2, r3, r4⟩ := ((mod_dec oa k za da).1 (by rw [ca]; exact hcls)).2 hk
    refine ⟨r, pymod za k, ?_, by rw [r2, ca]; rfl, r3, r4, ?_⟩
    · show (eval a).bind (fun x => binop .mod x (.num k)) = _
      rw [ea, bind_ok]
      exact r1
    · simp only [ref, errB, hz, h0]; simp
  | round n a ih => exact absurd h (by simp [Adm])

/-- **eval_sound**: every admissible expression tree (any depth, any assignment of the five
classes to its leaves) evaluates to the angle its decimal-degree reading gives, within the
accumulated HP roundings of `0.5·10⁻⁸″` each (the resolution valid at every magnitude). -/
theorem eval_sound (e : Expr ℚ) (h : Adm eps8 (fun _ => True) e) :
    ∃ o z, eval e = .ok (.obj o) ∧ o.cls = leftCls e ∧ WF o ∧ o.dec = .ok z ∧ |z - ref e| ≤ errB eps8 e :=
  eval_sound_gen eps8 (fun _ => True) (fun v _ => hpTol_le_eps8 v) e h

/-- **eval_sound**, the `1e-9″` form: when every intermediate value stays below 512° (checked on
the exact values plus the accumulated bound), each HP rounding costs `0.5·10⁻⁹″`. -/
theorem eval_sound_lt512 (e : Expr ℚ) (h : Adm eps9 (fun v => |v| < 512) e) :
    ∃ o z, eval e = .ok (.obj o) ∧ o.cls = leftCls e ∧ WF o ∧ o.dec = .ok z ∧ |z - ref e| ≤ errB eps9 e :=
  eval_sound_gen eps9 (fun v => |v| < 512) (fun _ hv => le_of_eq (hpTol_eq_eps9 hv)) e h

/-- how the magnitude side condition of `eval_sound_lt512` is discharged -/
theorem guard_of_bound {r err v : ℚ} (h : |r| + err < 512) (hv : |v - r| ≤ err) : |v| < 512 := by
  have := abs_sub_abs_le_abs_sub v r
  linarith

/-- number of operator nodes -/
def nodes : Expr ℚ → ℕ
  | .leaf _ => 0
  | .add a b => nodes a + nodes b + 1
  | .sub a b => nodes a + nodes b + 1
  | .neg a => nodes a + 1
  | .abs a => nodes a + 1
  | .mulK a _ => nodes a + 1
  | .rmulK _ a => nodes a + 1
  | .divK a _ => nodes a + 1
  | .modK a _ => nodes a + 1
  | .round _ a => nodes a + 1

/-- no amplifying scalings: multipliers of magnitude ≤ 1, divisors of magnitude ≥ 1 -/
def NoAmp : Expr ℚ → Prop
  | .leaf _ => True
  | .add a b => NoAmp a ∧ NoAmp b
  | .sub a b => NoAmp a ∧ NoAmp b
  | .neg a => NoAmp a
  | .abs a => NoAmp a
  | .mulK a k => NoAmp a ∧ |k| ≤ 1
  | .rmulK k a => NoAmp a ∧ |k| ≤ 1
  | .divK a k => NoAmp a ∧ 1 ≤ |k|
  | .modK a _ => NoAmp a
  | .round _ a => NoAmp a

theorem T_le {ε : ℚ} (h : 0 ≤ ε) (c : Cls) : T ε c ≤ ε := by unfold T; split <;> simp [h]

/-- without amplifying scalings the accumulated bound is at most one rounding per operator node:
`(#nodes) · ε` -/
theorem errB_le_nodes {ε : ℚ} (hε : 0 ≤ ε) (e : Expr ℚ) (h : NoAmp e) : errB ε e ≤ (nodes e : ℚ) * ε := by
  induction e with
  | leaf o => simp [errB, nodes]
  | add a b iha ihb =>
    have := T_le hε (leftCls a); have := iha h.1; have := ihb h.2
    simp only [errB, nodes]; push_cast; linarith
  | sub a b iha ihb =>
    have := T_le hε (leftCls a); have := iha h.1; have := ihb h.2
    simp only [errB, nodes]; push_cast; linarith
  | neg a ih => have := ih h; simp only [errB, nodes]; push_cast; linarith
  | abs a ih => have := ih h; simp only [errB, nodes]; push_cast; linarith
  | mulK a k ih =>
    have := T_le hε (leftCls a); have := ih h.1; have h0 := errB_nonneg hε a
    have : |k| * errB ε a ≤ errB ε a := by have := h.2; nlinarith
    simp only [errB, nodes]; push_cast; linarith
  | rmulK k a ih =>
    have := T_le hε (leftCls a); have := ih h.1; have h0 := errB_nonneg hε a
    have : |k| * errB ε a ≤ errB ε a := by have := h.2; nlinarith
    simp only [errB, nodes]; push_cast; linarith
  | divK a k ih =>
    have := T_le hε (leftCls a); have := ih h.1; have h0 := errB_nonneg hε a
    have : errB ε a / |k| ≤ errB ε a := div_le_self h0 h.2
    simp only [errB, nodes]; push_cast; linarith
  | modK a k ih => have := ih h; simp only [errB, nodes]; push_cast; linarith
  | round n a ih => have := ih h; simp only [errB, nodes]; push_cast; linarith

/-- comparisons of two evaluated expressions are comparisons of what they denote -/
theorem evalCmp_sound (op : CmpOp) (a b : Expr ℚ) (oa ob : AngleObj ℚ) (x y : ℚ)
    (ea : eval a = .ok (.obj oa)) (eb : eval b = .ok (.obj ob)) (ha : oa.dec = .ok x) (hb : ob.dec = .ok y) :
    evalCmp op a b = .ok (match op with
      | .eq => decide (x = y) | .ne => decide (x ≠ y) | .lt => decide (x < y) | .gt => decide (x > y)) := by
  obtain ⟨c1, c2, c3, c4⟩ := cmp_dec oa ob x y ha hb
  show (eval a).bind (fun x => (eval b).bind (fun y => cmpop op x y)) = _
  rw [ea, bind_ok, eb, bind_ok]
  cases op
  · exact c1
  · exact c2
  · exact c3
  · exact c4

/-- the hypotheses are satisfiable: `DMS(12°34′56″) + DEC(0.3°) * 2` -/
example : Adm eps8 (fun _ => True)
    (.add (.leaf (.dmsA ⟨true, 12, 34, 56⟩)) (.mulK (.leaf (.decA (3 / 10))) 2)) := by
  refine ⟨⟨?_, _, rfl⟩, ⟨⟨trivial, _, rfl⟩, fun _ _ => trivial⟩, fun _ _ => trivial⟩
  show (0 : ℚ) ≤ 56
  norm_num

end GeodeVerif.C12
