import GeodeVerif.Proofs.C08
/-!
# C12 — angle-object arithmetic and comparison: theorems about `Model/Angles.lean` at `ℚ`

Operators of the five classes (`AngleObj.add`, `sub`, `radd`, `rsub`, `mul`, `rmul`, `truediv`,
`neg`, `abs`, `eq`, `ne`, `lt`, `gt`, `round`, `mod`), Python's dispatch (`binop`, `cmpop`) and the
expression evaluator `eval`, all read in exact arithmetic. "Denotes" is as in C08: an object is well
formed (`WF`) and `.dec()` returns the angle.
-/
namespace GeodeVerif.C12
open Ang Py GeodeVerif.C08

/-! ### 1. binary operators agree with decimal-degree arithmetic; class of the left operand -/

/-- the shape all seven arithmetic operator methods share -/
theorem fromDec_op (c : Cls) (v : ℚ) :
    ∃ r z, fromDec c v = .ok r ∧ r.cls = c ∧ WF r ∧ r.dec = .ok z ∧ |z - v| ≤ clsTol c v :=
  fromDec_sound c v

/-- **op_dec** (`+`): `(a + b).dec = a.dec + b.dec` up to the representation error of the class of
`a` (zero for DEC/GON/DMS/DDM, `hpTol` for HP), and the result has the class of `a`. -/
theorem add_dec (a b : AngleObj ℚ) (x y : ℚ) (ha : a.dec = .ok x) (hb : b.dec = .ok y) :
    ∃ r z, a.add b = .ok r ∧ r.cls = a.cls ∧ WF r ∧ r.dec = .ok z ∧ |z - (x + y)| ≤ clsTol a.cls (x + y) := by
  obtain ⟨r, z, h⟩ := fromDec_sound a.cls (x + y)
  refine ⟨r, z, ?_, h.2⟩
  unfold AngleObj.add; rw [ha, hb]; exact h.1

/-- **op_dec** (`-`) -/
theorem sub_dec (a b : AngleObj ℚ) (x y : ℚ) (ha : a.dec = .ok x) (hb : b.dec = .ok y) :
    ∃ r z, a.sub b = .ok r ∧ r.cls = a.cls ∧ WF r ∧ r.dec = .ok z ∧ |z - (x - y)| ≤ clsTol a.cls (x - y) := by
  obtain ⟨r, z, h⟩ := fromDec_sound a.cls (x - y)
  refine ⟨r, z, ?_, h.2⟩
  unfold AngleObj.sub; rw [ha, hb]; exact h.1

/-- `a.__radd__(b)`: `b.dec + a.dec`, class of `a` -/
theorem radd_dec (a b : AngleObj ℚ) (x y : ℚ) (ha : a.dec = .ok x) (hb : b.dec = .ok y) :
    ∃ r z, a.radd b = .ok r ∧ r.cls = a.cls ∧ WF r ∧ r.dec = .ok z ∧ |z - (y + x)| ≤ clsTol a.cls (y + x) := by
  obtain ⟨r, z, h⟩ := fromDec_sound a.cls (y + x)
  refine ⟨r, z, ?_, h.2⟩
  unfold AngleObj.radd; rw [ha, hb]; exact h.1

/-- `a.__rsub__(b)`: `b.dec - a.dec`, class of `a` -/
theorem rsub_dec (a b : AngleObj ℚ) (x y : ℚ) (ha : a.dec = .ok x) (hb : b.dec = .ok y) :
    ∃ r z, a.rsub b = .ok r ∧ r.cls = a.cls ∧ WF r ∧ r.dec = .ok z ∧ |z - (y - x)| ≤ clsTol a.cls (y - x) := by
  obtain ⟨r, z, h⟩ := fromDec_sound a.cls (y - x)
  refine ⟨r, z, ?_, h.2⟩
  unfold AngleObj.rsub; rw [ha, hb]; exact h.1

/-- **op_dec** (`a * k`) -/
theorem mul_dec (a : AngleObj ℚ) (x k : ℚ) (ha : a.dec = .ok x) :
    ∃ r z, a.mul k = .ok r ∧ r.cls = a.cls ∧ WF r ∧ r.dec = .ok z ∧ |z - x * k| ≤ clsTol a.cls (x * k) := by
  obtain ⟨r, z, h⟩ := fromDec_sound a.cls (x * k)
  refine ⟨r, z, ?_, h.2⟩
  unfold AngleObj.mul; rw [ha]; exact h.1

/-- **op_dec** (`k * a`) -/
theorem rmul_dec (a : AngleObj ℚ) (x k : ℚ) (ha : a.dec = .ok x) :
    ∃ r z, a.rmul k = .ok r ∧ r.cls = a.cls ∧ WF r ∧ r.dec = .ok z ∧ |z - k * x| ≤ clsTol a.cls (k * x) := by
  obtain ⟨r, z, h⟩ := fromDec_sound a.cls (k * x)
  refine ⟨r, z, ?_, h.2⟩
  unfold AngleObj.rmul; rw [ha]; exact h.1

/-- **op_dec** (`a / k`, `k ≠ 0`; `k = 0` raises `ZeroDivisionError`) -/
theorem truediv_dec (a : AngleObj ℚ) (x k : ℚ) (ha : a.dec = .ok x) :
    (k = 0 → a.truediv k = .error .ZeroDivisionError) ∧
    (k ≠ 0 → ∃ r z, a.truediv k = .ok r ∧ r.cls = a.cls ∧ WF r ∧ r.dec = .ok z ∧
      |z - x / k| ≤ clsTol a.cls (x / k)) := by
  constructor
  · intro hk; unfold AngleObj.truediv; rw [ha]; simp [hk]; rfl
  · intro hk
    obtain ⟨r, z, h⟩ := fromDec_sound a.cls (x / k)
    refine ⟨r, z, ?_, h.2⟩
    unfold AngleObj.truediv; rw [ha]
    show (if AngArith.eqb k (AngArith.ofNat 0) = true then _ else _) = _
    simp only [q_eqb, q_ofNat, Nat.cast_zero, hk, decide_false, Bool.false_eq_true, if_false]
    exact h.1

/-! ### 2. negation and absolute value are exact -/

theorem hpN_neg (x : ℚ) : hpN (-x) = hpN x := by unfold hpN; rw [abs_neg]
theorem hpN_abs (x : ℚ) : hpN |x| = hpN x := by unfold hpN; rw [abs_abs]
theorem hpN_zero : hpN 0 = 0 := by unfold hpN; simp [rhe_natCast 0 |> fun h => by simpa using h]

theorem hp2dec_neg (x a : ℚ) (h : hp2dec x = .ok a) : hp2dec (-x) = .ok (-a) := by
  obtain ⟨hv, ha⟩ := hp_valid_of_ok h
  rw [hp2dec_spec, hpN_neg, if_pos hv, ha]
  rcases lt_trichotomy x 0 with hx | hx | hx
  · have h1 : 0 ≤ -x := by linarith
    have h2 : ¬ (0 ≤ x) := not_le.mpr hx
    rw [if_pos h1, if_neg h2, neg_neg]
  · subst hx; simp [hpN_zero, hpAngle_zero]
  · have h1 : ¬ (0 ≤ -x) := by linarith
    have h2 : 0 ≤ x := le_of_lt hx
    rw [if_neg h1, if_pos h2]

theorem hp2dec_abs (x a : ℚ) (h : hp2dec x = .ok a) : hp2dec |x| = .ok |a| := by
  obtain ⟨hv, ha⟩ := hp_valid_of_ok h
  have hA := hpAngle_nonneg (hpN x)
  rw [hp2dec_spec, hpN_abs, if_pos hv, if_pos (abs_nonneg x), ha]
  by_cases hx : 0 ≤ x
  · rw [if_pos hx, abs_of_nonneg hA]
  · rw [if_neg hx, abs_neg, abs_of_nonneg hA]

/-- **neg_abs** (`-a`): exact for every class, including zero-degree negatives and zero; the class
is kept and the result is well formed -/
theorem neg_dec (a : AngleObj ℚ) (x : ℚ) (hw : WF a) (ha : a.dec = .ok x) :
    ∃ r, a.neg = .ok r ∧ r.cls = a.cls ∧ WF r ∧ r.dec = .ok (-x) := by
  cases a with
  | decA v => have e : v = x := ok_inj ha
              subst e; exact ⟨.decA (-v), rfl, rfl, trivial, rfl⟩
  | hpA v =>
    have hv : HpValid (hpN (-v)) := by rw [hpN_neg]; exact hw
    refine ⟨.hpA (-v), ?_, rfl, hv, hp2dec_neg v x ha⟩
    show mkHP (-v) = _
    rw [hpangle_accepts_iff_valid, if_pos hv]
  | gonA v =>
    have e : gon2dec v = x := ok_inj ha
    refine ⟨.gonA (-v), rfl, rfl, trivial, ?_⟩
    rw [dec_gonA, ← e]; simp only [gon2dec, q_natDiv]; congr 1; ring
  | dmsA s =>
    have e : s.dec = x := ok_inj ha
    obtain ⟨h1, h2⟩ := dms_neg s hw
    exact ⟨.dmsA s.neg, rfl, rfl, h2, by rw [dec_dmsA, h1, e]⟩
  | ddmA s =>
    have e : s.dec = x := ok_inj ha
    obtain ⟨h1, h2⟩ := ddm_neg s hw
    exact ⟨.ddmA s.neg, rfl, rfl, h2, by rw [dec_ddmA, h1, e]⟩

/-- **neg_abs** (`abs(a)`) -/
theorem abs_dec (a : AngleObj ℚ) (x : ℚ) (hw : WF a) (ha : a.dec = .ok x) :
    ∃ r, a.abs = .ok r ∧ r.cls = a.cls ∧ WF r ∧ r.dec = .ok |x| := by
  cases a with
  | decA v => have e : v = x := ok_inj ha
              subst e; exact ⟨.decA |v|, rfl, rfl, trivial, rfl⟩
  | hpA v =>
    have hv : HpValid (hpN |v|) := by rw [hpN_abs]; exact hw
    refine ⟨.hpA |v|, ?_, rfl, hv, hp2dec_abs v x ha⟩
    show mkHP |v| = _
    rw [hpangle_accepts_iff_valid, if_pos hv]
  | gonA v =>
    have e : gon2dec v = x := ok_inj ha
    refine ⟨.gonA |v|, rfl, rfl, trivial, ?_⟩
    rw [dec_gonA, ← e]; simp only [gon2dec, q_natDiv]; congr 1
    rw [abs_mul, abs_of_nonneg (by norm_num : (0 : ℚ) ≤ ((9 : ℕ) : ℚ) / ((10 : ℕ) : ℚ))]
  | dmsA s =>
    have e : s.dec = x := ok_inj ha
    obtain ⟨h1, h2⟩ := dms_abs s hw
    exact ⟨.dmsA s.abs, rfl, rfl, h2, by rw [dec_dmsA, h1, e]⟩
  | ddmA s =>
    have e : s.dec = x := ok_inj ha
    obtain ⟨h1, h2⟩ := ddm_abs s hw
    exact ⟨.ddmA s.abs, rfl, rfl, h2, by rw [dec_ddmA, h1, e]⟩

/-- `-(-a)` denotes `a` -/
theorem neg_involutive (a : AngleObj ℚ) (x : ℚ) (hw : WF a) (ha : a.dec = .ok x) :
    ∃ r r', a.neg = .ok r ∧ r.neg = .ok r' ∧ r'.cls = a.cls ∧ r'.dec = .ok x := by
  obtain ⟨r, h1, h2, h3, h4⟩ := neg_dec a x hw ha
  obtain ⟨r', g1, g2, -, g4⟩ := neg_dec r (-x) h3 h4
  exact ⟨r, r', h1, g1, by rw [g2, h2], by rw [g4, neg_neg]⟩

/-! ### 3. comparisons are comparisons of the decimal-degree values (any mix of classes) -/

/-- **cmp_dec** -/
theorem cmp_dec (a b : AngleObj ℚ) (x y : ℚ) (ha : a.dec = .ok x) (hb : b.dec = .ok y) :
    a.eq b = .ok (decide (x = y)) ∧ a.ne b = .ok (decide (x ≠ y)) ∧
    a.lt b = .ok (decide (x < y)) ∧ a.gt b = .ok (decide (x > y)) := by
  unfold AngleObj.eq AngleObj.ne AngleObj.lt AngleObj.gt
  rw [ha, hb]
  refine ⟨rfl, ?_, rfl, rfl⟩
  show Except.ok (!decide (x = y)) = _
  simp

end GeodeVerif.C12
