import GeodeVerif.GenR.Convert
import GeodeVerif.Lemmas.PyRSimp
import Mathlib.Tactic.FieldSimp
import Mathlib.Tactic.Ring
import Mathlib.Tactic.Linarith
import Mathlib.Algebra.BigOperators.Group.Finset.Basic
import Mathlib.Analysis.SpecialFunctions.Trigonometric.Deriv
import Mathlib.Analysis.Calculus.Deriv.Add
import Mathlib.Analysis.Calculus.Deriv.Mul
import Mathlib.Data.Complex.BigOperators
import Mathlib.Analysis.Complex.Norm
import Mathlib.Analysis.Complex.Trigonometric
import Mathlib.Algebra.Order.Floor.Semiring
import Mathlib.Tactic.NormNum
/-!
# C10 — point scale factor and grid convergence belong to the projection actually used

Theorems about the regenerated `GenR.Convert.psfandgridconv` and its two call sites in
`GenR.Convert.geo2grid` / `GenR.Convert.grid2geo`.
-/
noncomputable section
namespace GeodeVerif.C10
open PyR GenR.Convert GenR.Constants

/-- an 8-tuple of reals (the return type of `alpha_coeff`) -/
abbrev Coef8 := ℝ × ℝ × ℝ × ℝ × ℝ × ℝ × ℝ × ℝ

/-- `a_r` for `r = 1..8` (0 elsewhere) -/
def coef (a : Coef8) : ℕ → ℝ
  | 1 => a.1
  | 2 => a.2.1
  | 3 => a.2.2.1
  | 4 => a.2.2.2.1
  | 5 => a.2.2.2.2.1
  | 6 => a.2.2.2.2.2.1
  | 7 => a.2.2.2.2.2.2.1
  | 8 => a.2.2.2.2.2.2.2
  | _ => 0

/-- `p = 1 + Σ_{r=1..8} 2r a_r cos(2rξ′) cosh(2rη′)` -/
def pS (a : Coef8) (ξ η : ℝ) : ℝ :=
  1 + ∑ r ∈ Finset.range 8, 2 * ((r + 1 : ℕ) : ℝ) * coef a (r + 1) *
    Real.cos (2 * ((r + 1 : ℕ) : ℝ) * ξ) * Real.cosh (2 * ((r + 1 : ℕ) : ℝ) * η)

/-- `q = −Σ_{r=1..8} 2r a_r sin(2rξ′) sinh(2rη′)` (after the code's sign flip) -/
def qS (a : Coef8) (ξ η : ℝ) : ℝ :=
  -∑ r ∈ Finset.range 8, 2 * ((r + 1 : ℕ) : ℝ) * coef a (r + 1) *
    Real.sin (2 * ((r + 1 : ℕ) : ℝ) * ξ) * Real.sinh (2 * ((r + 1 : ℕ) : ℝ) * η)

/-- the point-scale-factor expression, from the call's ellipsoid and projection -/
def psfExpr (ξ η φ ω χ : ℝ) (ell : Ellipsoid) (prj : Projection) : ℝ :=
  prj.cmscale * (rect_radius ell / ell.semimaj)
    * Real.sqrt ((qS (alpha_coeff ell) ξ η) ^ 2 + (pS (alpha_coeff ell) ξ η) ^ 2)
    * ((Real.sqrt (1 + Real.tan φ ^ 2) * Real.sqrt (1 - ell.ecc1sq * Real.sin φ ^ 2))
        / Real.sqrt (Real.tan χ ^ 2 + Real.cos ω ^ 2))

/-- the unsigned grid convergence (degrees) -/
def convMag (ξ η ω χ : ℝ) (ell : Ellipsoid) : ℝ :=
  PyR.degrees (Real.arctan |qS (alpha_coeff ell) ξ η / pS (alpha_coeff ell) ξ η|
    + Real.arctan (|Real.tan χ * Real.tan ω| / Real.sqrt (1 + Real.tan χ ^ 2)))

/-- C10.0: the generated `psfandgridconv` is `(psfExpr, ±convMag)`; every ellipsoid/projection quantity is a field of the ARGUMENTS `ell`, `prj` (`rect_radius ell`, `alpha_coeff ell`, `ell.semimaj`, `ell.ecc1sq`, `prj.cmscale`) — no GRS80/UTM constant occurs. -/
theorem psf_unfold (ξ η lat lon cm χ : ℝ) (ell : Ellipsoid) (prj : Projection) :
    psfandgridconv ξ η lat lon cm χ ell prj =
      (psfExpr ξ η (PyR.radians lat) (PyR.radians (lon - cm)) χ ell prj,
       if (Real.sin (PyR.radians (lon - cm)) < 0 ∧ PyR.radians lat < 0) ∨
          (Real.sin (PyR.radians (lon - cm)) > 0 ∧ PyR.radians lat > 0)
       then -convMag ξ η (PyR.radians (lon - cm)) χ ell
       else convMag ξ η (PyR.radians (lon - cm)) χ ell) := by
  have hp : pS (alpha_coeff ell) ξ η = 1 + 2*1*(alpha_coeff ell).1 * Real.cos (2*1*ξ) * Real.cosh (2*1*η)
     + 2*2*(alpha_coeff ell).2.1 * Real.cos (2*2*ξ) * Real.cosh (2*2*η)
     + 2*3*(alpha_coeff ell).2.2.1 * Real.cos (2*3*ξ) * Real.cosh (2*3*η)
     + 2*4*(alpha_coeff ell).2.2.2.1 * Real.cos (2*4*ξ) * Real.cosh (2*4*η)
     + 2*5*(alpha_coeff ell).2.2.2.2.1 * Real.cos (2*5*ξ) * Real.cosh (2*5*η)
     + 2*6*(alpha_coeff ell).2.2.2.2.2.1 * Real.cos (2*6*ξ) * Real.cosh (2*6*η)
     + 2*7*(alpha_coeff ell).2.2.2.2.2.2.1 * Real.cos (2*7*ξ) * Real.cosh (2*7*η)
     + 2*8*(alpha_coeff ell).2.2.2.2.2.2.2 * Real.cos (2*8*ξ) * Real.cosh (2*8*η) := by
    unfold pS
    simp only [Finset.sum_range_succ, Finset.sum_range_zero, coef]
    push_cast
    ring_nf
  have hq : qS (alpha_coeff ell) ξ η = -(0 + 2*1*(alpha_coeff ell).1 * Real.sin (2*1*ξ) * Real.sinh (2*1*η)
     + 2*2*(alpha_coeff ell).2.1 * Real.sin (2*2*ξ) * Real.sinh (2*2*η)
     + 2*3*(alpha_coeff ell).2.2.1 * Real.sin (2*3*ξ) * Real.sinh (2*3*η)
     + 2*4*(alpha_coeff ell).2.2.2.1 * Real.sin (2*4*ξ) * Real.sinh (2*4*η)
     + 2*5*(alpha_coeff ell).2.2.2.2.1 * Real.sin (2*5*ξ) * Real.sinh (2*5*η)
     + 2*6*(alpha_coeff ell).2.2.2.2.2.1 * Real.sin (2*6*ξ) * Real.sinh (2*6*η)
     + 2*7*(alpha_coeff ell).2.2.2.2.2.2.1 * Real.sin (2*7*ξ) * Real.sinh (2*7*η)
     + 2*8*(alpha_coeff ell).2.2.2.2.2.2.2 * Real.sin (2*8*ξ) * Real.sinh (2*8*η)) := by
    unfold qS
    simp only [Finset.sum_range_succ, Finset.sum_range_zero, coef]
    push_cast
    ring_nf
  unfold psfandgridconv psfExpr convMag
  rw [hp, hq]
  refine Prod.ext ?_ ?_
  · rfl
  · dsimp only
    split_ifs with h1 h2 h3 h3 h4
    all_goals first | rfl | (exfalso; tauto)


/-- the result depends on the ellipsoid only through `semimaj, inversef, n, ecc1sq` and on the projection only through `cmscale` -/
theorem psf_uses_call_ellipsoid_projection (ξ η lat lon cm χ : ℝ) (ell₁ ell₂ : Ellipsoid)
    (prj₁ prj₂ : Projection)
    (ha : ell₁.semimaj = ell₂.semimaj) (hf : ell₁.inversef = ell₂.inversef)
    (hn : ell₁.n = ell₂.n) (he : ell₁.ecc1sq = ell₂.ecc1sq)
    (hk : prj₁.cmscale = prj₂.cmscale) :
    psfandgridconv ξ η lat lon cm χ ell₁ prj₁ = psfandgridconv ξ η lat lon cm χ ell₂ prj₂ := by
  unfold psfandgridconv rect_radius alpha_coeff
  simp only [ha, hf, hn, he, hk]

/-- the point scale factor is linear in the projection's central scale factor; the convergence does not depend on it -/
theorem psf_scales_with_cmscale (ξ η lat lon cm χ k : ℝ) (ell : Ellipsoid) (prj : Projection) :
    (psfandgridconv ξ η lat lon cm χ ell { prj with cmscale := k }).1
      = k * (psfandgridconv ξ η lat lon cm χ ell { prj with cmscale := 1 }).1 ∧
    (psfandgridconv ξ η lat lon cm χ ell { prj with cmscale := k }).2
      = (psfandgridconv ξ η lat lon cm χ ell prj).2 := by
  simp only [psf_unfold, psfExpr]
  constructor
  · ring
  · trivial

theorem psf_linear_in_cmscale (ξ η lat lon cm χ : ℝ) (ell : Ellipsoid) (prj : Projection) :
    (psfandgridconv ξ η lat lon cm χ ell prj).1
      = prj.cmscale * (psfandgridconv ξ η lat lon cm χ ell { prj with cmscale := 1 }).1 := by
  simp only [psf_unfold, psfExpr]
  ring



theorem bind_unit_ok {ε α : Type} {x : Except ε Unit} {f : Unit → Except ε α} {r : α}
    (h : x.bind f = .ok r) : f () = .ok r := by
  cases x with
  | error e => cases h
  | ok u => exact h

theorem ite_error_ok {ε α : Type} {c : Prop} [Decidable c] {e : ε} {X : Except ε α} {r : α}
    (h : (if c then Except.error e else X) = .ok r) : ¬ c ∧ X = .ok r := by
  split_ifs at h with hc
  exact ⟨hc, h⟩

/-- robust (shape-independent) form of the `geo2grid` call site: the last two outputs are `psfandgridconv … ell prj` of the call's own `ell`, `prj` -/
theorem geo2grid_ok_form (lat lon zone : ℝ) (ell : Ellipsoid) (prj : Projection)
    (r : String × ℝ × ℝ × ℝ × ℝ × ℝ) (h : geo2grid lat lon zone ell prj = .ok r) :
    ∃ ξ η cm χ φ, r.2.2.2.2 =
      (pround 8 (psfandgridconv ξ η (PyR.degrees φ) lon cm χ ell prj).1,
       (psfandgridconv ξ η (PyR.degrees φ) lon cm χ ell prj).2) := by
  unfold geo2grid at h
  have h1 := (ite_error_ok (bind_unit_ok h)).2
  have h2 := (ite_error_ok h1).2
  have h3 := Except.ok.inj h2
  rw [← h3]
  exact ⟨_, _, _, _, _, rfl⟩


/-- central meridian of a zone under a projection, as both conversions compute it -/
def centralMeridian (prj : Projection) (zone : ℝ) : ℝ :=
  if prj.pyid = GenR.Constants.isg.pyid then
    (((intStrPrefix2 zone - 1) * prj.zonewidth) * 3 + prj.initialcm)
      + (intStrDigit2 zone - 2) * prj.zonewidth
  else (zone * prj.zonewidth + prj.initialcm) - prj.zonewidth

/-- conformal latitude `χ(φ)` on ellipsoid `ell` as `geo2grid` computes it -/
def confLat (ell : Ellipsoid) (φ : ℝ) : ℝ :=
  let s := ell.ecc1 * Real.tan φ / Real.sqrt (1 + Real.tan φ ^ 2)
  let σ := Real.sinh (ell.ecc1 * (PyR.dec 5 1 * Real.log ((1 + s) / (1 - s))))
  Real.arctan (Real.tan φ * Real.sqrt (1 + σ ^ 2) - σ * Real.sqrt (1 + Real.tan φ ^ 2))

/-- Gauss–Schreiber `ξ′` -/
def gsXi (χ ω : ℝ) : ℝ := Real.arctan (Real.tan χ / Real.cos ω)

/-- Gauss–Schreiber `η′ = arsinh(sin ω / √(tan²χ + cos²ω))` -/
def gsEta (χ ω : ℝ) : ℝ :=
  let u := Real.sin ω / Real.sqrt (Real.tan χ ^ 2 + Real.cos ω ^ 2)
  Real.log (u + Real.sqrt (1 + u ^ 2))

/-- full-strength `geo2grid` call site: outputs 5, 6 are `(round₈ psf, conv)` of `psfandgridconv` at the Gauss–Schreiber `ξ′, η′`, central meridian of the returned zone, conformal latitude on `ell`, with the call's `ell`, `prj` -/
theorem geo2grid_call_site (lat lon zone : ℝ) (ell : Ellipsoid) (prj : Projection)
    (r : String × ℝ × ℝ × ℝ × ℝ × ℝ) (h : geo2grid lat lon zone ell prj = .ok r) :
    let cm := centralMeridian prj r.2.1
    let φ := PyR.radians lat
    let χ := confLat ell φ
    let ω := PyR.radians (lon - cm)
    r.2.2.2.2 =
      (pround 8 (psfandgridconv (gsXi χ ω) (gsEta χ ω) (PyR.degrees φ) lon cm χ ell prj).1,
       (psfandgridconv (gsXi χ ω) (gsEta χ ω) (PyR.degrees φ) lon cm χ ell prj).2) := by
  unfold geo2grid at h
  have h1 := (ite_error_ok (bind_unit_ok h)).2
  have h2 := (ite_error_ok h1).2
  have h3 := Except.ok.inj h2
  rw [← h3]
  rfl


/-- `grid2geo` call site: outputs 3, 4 are `(round₈ psf, s·conv)` of `psfandgridconv … ell prj` with the call's `ell`, `prj`, at the same `ξ′, η′, lat, long` that produce outputs 1, 2, and the same hemisphere sign `s` that multiplies the latitude -/
theorem grid2geo_ok_form (zone east north : ℝ) (hemi : String) (ell : Ellipsoid) (prj : Projection)
    (r : ℝ × ℝ × ℝ × ℝ) (h : grid2geo zone east north hemi ell prj = .ok r) :
    ∃ ξ η lat s, (s = if strLower hemi = "north" then -1 else 1) ∧
      let cm := centralMeridian prj (trunc zone)
      let χ := Real.arctan (Real.sin ξ / Real.sqrt (Real.sinh η ^ 2 + Real.cos ξ ^ 2))
      let long := cm + PyR.degrees (Real.arctan (Real.sinh η / Real.cos ξ))
      r.1 = s * pround 11 lat ∧ r.2.1 = pround 11 long ∧
      r.2.2 =
      (pround 8 (psfandgridconv ξ η lat long cm χ ell prj).1,
       s * (psfandgridconv ξ η lat long cm χ ell prj).2) := by
  unfold grid2geo at h
  have h1 := (ite_error_ok (bind_unit_ok h)).2
  have h2 := (ite_error_ok h1).2
  have h3 := (ite_error_ok h2).2
  clear h h1 h2
  by_cases hc : strLower hemi = "north"
  · simp only [if_pos hc] at h3
    generalize Py.whileLoop _ _ _ _ = o at h3
    rcases o with _ | ⟨ic, t, d⟩
    · cases h3
    · have h4 := Except.ok.inj h3
      rw [← h4]
      exact ⟨_, _, _, -1, (if_pos hc).symm, rfl, rfl, rfl⟩
  · simp only [if_neg hc] at h3
    generalize Py.whileLoop _ _ _ _ = o at h3
    rcases o with _ | ⟨ic, t, d⟩
    · cases h3
    · have h4 := Except.ok.inj h3
      rw [← h4]
      exact ⟨_, _, _, 1, (if_neg hc).symm, rfl, rfl, rfl⟩


/-- the Krüger series `ζ = g(ζ′) = ζ′ + Σ_{r=1..8} a_r sin(2rζ′)` on ℂ -/
def gK (a : Coef8) (ζ : ℂ) : ℂ :=
  ζ + ∑ r ∈ Finset.range 8, ((coef a (r + 1) : ℝ) : ℂ) * Complex.sin (2 * ((r + 1 : ℕ) : ℂ) * ζ)

/-- its derivative `g′(ζ′) = 1 + Σ 2r a_r cos(2rζ′)` -/
def gK' (a : Coef8) (ζ : ℂ) : ℂ :=
  1 + ∑ r ∈ Finset.range 8, 2 * ((r + 1 : ℕ) : ℂ) * ((coef a (r + 1) : ℝ) : ℂ)
    * Complex.cos (2 * ((r + 1 : ℕ) : ℂ) * ζ)

theorem gK_hasDerivAt (a : Coef8) (ζ : ℂ) : HasDerivAt (gK a) (gK' a ζ) ζ := by
  unfold gK gK'
  refine (hasDerivAt_id ζ).add (HasDerivAt.fun_sum fun r _ => ?_)
  have h := (((hasDerivAt_id ζ).const_mul (2 * ((r + 1 : ℕ) : ℂ))).csin).const_mul
    (((coef a (r + 1) : ℝ) : ℂ))
  refine h.congr_deriv ?_
  simp only [id, mul_one]
  ring

theorem cos_term_re_im (c k ξ η : ℝ) :
    ((c : ℂ) * Complex.cos ((k : ℂ) * ((ξ : ℂ) + (η : ℂ) * Complex.I))).re
      = c * Real.cos (k * ξ) * Real.cosh (k * η) ∧
    ((c : ℂ) * Complex.cos ((k : ℂ) * ((ξ : ℂ) + (η : ℂ) * Complex.I))).im
      = -(c * Real.sin (k * ξ) * Real.sinh (k * η)) := by
  have e : (k : ℂ) * ((ξ : ℂ) + (η : ℂ) * Complex.I)
      = ((k * ξ : ℝ) : ℂ) + ((k * η : ℝ) : ℂ) * Complex.I := by push_cast; ring
  rw [e, Complex.cos_add_mul_I, ← Complex.ofReal_cos, ← Complex.ofReal_sin, ← Complex.ofReal_cosh,
    ← Complex.ofReal_sinh]
  have e2 : (c : ℂ) * (((Real.cos (k * ξ) : ℝ) : ℂ) * ((Real.cosh (k * η) : ℝ) : ℂ)
        - ((Real.sin (k * ξ) : ℝ) : ℂ) * ((Real.sinh (k * η) : ℝ) : ℂ) * Complex.I)
      = ((c * Real.cos (k * ξ) * Real.cosh (k * η) : ℝ) : ℂ)
        + ((-(c * Real.sin (k * ξ) * Real.sinh (k * η)) : ℝ) : ℂ) * Complex.I := by
    push_cast; ring
  rw [e2]
  constructor <;>
    simp only [Complex.add_re, Complex.add_im, Complex.mul_re, Complex.mul_im, Complex.ofReal_re,
      Complex.ofReal_im, Complex.I_re, Complex.I_im] <;> ring


theorem gK'_re (a : Coef8) (ξ η : ℝ) :
    (gK' a ((ξ : ℂ) + (η : ℂ) * Complex.I)).re = pS a ξ η := by
  unfold gK' pS
  rw [Complex.add_re, Complex.one_re, Complex.re_sum]
  congr 1
  refine Finset.sum_congr rfl fun r _ => ?_
  have h := (cos_term_re_im (2 * ((r + 1 : ℕ) : ℝ) * coef a (r + 1)) (2 * ((r + 1 : ℕ) : ℝ)) ξ η).1
  push_cast at h ⊢
  exact h

theorem gK'_im (a : Coef8) (ξ η : ℝ) :
    (gK' a ((ξ : ℂ) + (η : ℂ) * Complex.I)).im = qS a ξ η := by
  unfold gK' qS
  rw [Complex.add_im, Complex.one_im, Complex.im_sum, zero_add, ← Finset.sum_neg_distrib]
  refine Finset.sum_congr rfl fun r _ => ?_
  have h := (cos_term_re_im (2 * ((r + 1 : ℕ) : ℝ) * coef a (r + 1)) (2 * ((r + 1 : ℕ) : ℝ)) ξ η).2
  push_cast at h ⊢
  exact h

/-- C10.2: `p + i q` (the code's two sums, `q` after its sign flip) is the complex derivative of
the Krüger series at `ζ′ = ξ′ + iη′`, and `√(q²+p²)` is its modulus. -/
theorem pq_is_derivative (a : Coef8) (ξ η : ℝ) :
    HasDerivAt (gK a) ((pS a ξ η : ℂ) + (qS a ξ η : ℂ) * Complex.I) ((ξ : ℂ) + (η : ℂ) * Complex.I) ∧
    Real.sqrt (qS a ξ η ^ 2 + pS a ξ η ^ 2) = ‖gK' a ((ξ : ℂ) + (η : ℂ) * Complex.I)‖ := by
  constructor
  · have h := gK_hasDerivAt a ((ξ : ℂ) + (η : ℂ) * Complex.I)
    rw [← Complex.re_add_im (gK' a _), gK'_re, gK'_im] at h
    exact h
  · rw [Complex.norm_eq_sqrt_sq_add_sq, gK'_re, gK'_im, add_comm]


/-! ## Convergence: the spherical term, sign rule, symmetries -/

theorem arctan_abs (x : ℝ) : Real.arctan |x| = |Real.arctan x| := by
  rcases le_total 0 x with h | h
  · rw [abs_of_nonneg h, abs_of_nonneg (Real.arctan_nonneg.mpr h)]
  · have h' : Real.arctan x ≤ 0 := by
      have := Real.arctan_nonneg.mpr (neg_nonneg.mpr h)
      rw [Real.arctan_neg] at this; linarith
    rw [abs_of_nonpos h, abs_of_nonpos h', Real.arctan_neg]

/-- C10.4: the second convergence term is the spherical transverse-Mercator convergence
`|atan(sin χ · tan ω)|`. -/
theorem conv_terms (χ ω : ℝ) (hχ : |χ| < Real.pi / 2) :
    Real.arctan (|Real.tan χ * Real.tan ω| / Real.sqrt (1 + Real.tan χ ^ 2))
      = |Real.arctan (Real.sin χ * Real.tan ω)| := by
  have hc : 0 < Real.cos χ := Real.cos_pos_of_mem_Ioo ⟨by linarith [(abs_lt.mp hχ).1], (abs_lt.mp hχ).2⟩
  rw [div_eq_mul_inv, Real.inv_sqrt_one_add_tan_sq hc, ← arctan_abs]
  congr 1
  calc |Real.tan χ * Real.tan ω| * Real.cos χ
      = |Real.tan χ * Real.tan ω| * |Real.cos χ| := by rw [abs_of_pos hc]
    _ = |Real.tan χ * Real.tan ω * Real.cos χ| := (abs_mul _ _).symm
    _ = |Real.sin χ * Real.tan ω| := by
        rw [← Real.tan_mul_cos hc.ne']; congr 1; ring

example : |Real.pi / 4| < Real.pi / 2 := by
  rw [abs_of_pos (by linarith [Real.pi_pos])]; linarith [Real.pi_pos]

theorem convMag_nonneg (ξ η ω χ : ℝ) (ell : Ellipsoid) : 0 ≤ convMag ξ η ω χ ell := by
  unfold convMag
  have h1 : 0 ≤ Real.arctan |qS (alpha_coeff ell) ξ η / pS (alpha_coeff ell) ξ η| :=
    Real.arctan_nonneg.mpr (abs_nonneg _)
  have h2 : 0 ≤ Real.arctan (|Real.tan χ * Real.tan ω| / Real.sqrt (1 + Real.tan χ ^ 2)) :=
    Real.arctan_nonneg.mpr (div_nonneg (abs_nonneg _) (Real.sqrt_nonneg _))
  have : 0 < 180 / Real.pi := div_pos (by norm_num) Real.pi_pos
  exact mul_nonneg (add_nonneg h1 h2) this.le

theorem radians_neg_iff (x : ℝ) : PyR.radians x < 0 ↔ x < 0 := by
  have : 0 < Real.pi / 180 := div_pos Real.pi_pos (by norm_num)
  simp only [radians_def]
  constructor
  · intro h; by_contra hx; rw [not_lt] at hx
    exact absurd h (not_lt.mpr (mul_nonneg hx this.le))
  · intro h; exact mul_neg_of_neg_of_pos h this

theorem radians_pos_iff (x : ℝ) : PyR.radians x > 0 ↔ x > 0 := by
  have : 0 < Real.pi / 180 := div_pos Real.pi_pos (by norm_num)
  simp only [radians_def, gt_iff_lt]
  constructor
  · intro h; by_contra hx; rw [not_lt] at hx
    exact absurd h (not_lt.mpr (mul_nonpos_of_nonpos_of_nonneg hx this.le))
  · intro h; exact mul_pos h this

/-- the side of the central meridian, as the code decides it: the sign of `sin (lon − cm)`, i.e. the
longitude difference taken the short way round -/
def westOfCM (lon cm : ℝ) : Prop := Real.sin (PyR.radians (lon - cm)) < 0
def eastOfCM (lon cm : ℝ) : Prop := Real.sin (PyR.radians (lon - cm)) > 0

/-- inside the strip `|lon − cm| < 180` "west" is `lon < cm` and "east" is `cm < lon` -/
theorem west_east_in_strip (lon cm : ℝ) (h : |lon - cm| < 180) :
    (westOfCM lon cm ↔ lon < cm) ∧ (eastOfCM lon cm ↔ cm < lon) := by
  have hp := Real.pi_pos
  obtain ⟨h1, h2⟩ := abs_lt.mp h
  have hr : PyR.radians (lon - cm) = (lon - cm) * (Real.pi / 180) := radians_def _
  unfold westOfCM eastOfCM
  rw [hr]
  constructor
  · constructor
    · intro hs
      by_contra hc
      rw [not_lt] at hc
      have h0 : 0 ≤ (lon - cm) * (Real.pi / 180) := mul_nonneg (by linarith) (by positivity)
      have hpi : (lon - cm) * (Real.pi / 180) ≤ Real.pi := by nlinarith
      exact absurd hs (not_lt.mpr (Real.sin_nonneg_of_nonneg_of_le_pi h0 hpi))
    · intro hl
      apply Real.sin_neg_of_neg_of_neg_pi_lt
      · exact mul_neg_of_neg_of_pos (by linarith) (by positivity)
      · nlinarith
  · constructor
    · intro hs
      by_contra hc
      rw [not_lt] at hc
      have h0 : (lon - cm) * (Real.pi / 180) ≤ 0 := mul_nonpos_of_nonpos_of_nonneg (by linarith) (by positivity)
      have hpi : -Real.pi ≤ (lon - cm) * (Real.pi / 180) := by nlinarith
      exact absurd hs (not_lt.mpr (Real.sin_nonpos_of_nonpos_of_neg_pi_le h0 hpi))
    · intro hl
      apply Real.sin_pos_of_pos_of_lt_pi
      · exact mul_pos (by linarith) (by positivity)
      · nlinarith

/-- across the antimeridian (after fix 89c4235): a longitude written 360° lower than the one the central
meridian is measured against (zone 60, `lon ∈ [−180, −150)` against `cm = 177`) is EAST of the central
meridian, and one written 360° higher is WEST — the side the point is on, not the order of the numbers -/
theorem side_across_antimeridian (lon cm : ℝ) :
    (-360 < lon - cm → lon - cm < -180 → eastOfCM lon cm) ∧
    (180 < lon - cm → lon - cm < 360 → westOfCM lon cm) := by
  have hp := Real.pi_pos
  have hr : PyR.radians (lon - cm) = (lon - cm) * (Real.pi / 180) := radians_def _
  unfold westOfCM eastOfCM
  rw [hr]
  constructor
  · intro h1 h2
    have e : (lon - cm) * (Real.pi / 180) = (lon - cm + 360) * (Real.pi / 180) - 2 * Real.pi := by ring
    rw [e, Real.sin_sub_two_pi]
    apply Real.sin_pos_of_pos_of_lt_pi
    · exact mul_pos (by linarith) (by positivity)
    · nlinarith
  · intro h1 h2
    have e : (lon - cm) * (Real.pi / 180) = (lon - cm - 360) * (Real.pi / 180) + 2 * Real.pi := by ring
    rw [e, Real.sin_add_two_pi]
    apply Real.sin_neg_of_neg_of_neg_pi_lt
    · exact mul_neg_of_neg_of_pos (by linarith) (by positivity)
    · nlinarith

/-- C10.5 the code's sign rule (with `lat` in degrees, as passed): the convergence is `−|γ|` exactly
in the quadrants (west of CM, south) and (east of CM, north), `+|γ|` otherwise, where
`|γ| = convMag ≥ 0` and the side of the central meridian is that of `sin (lon − cm)`. -/
theorem conv_sign (ξ η lat lon cm χ : ℝ) (ell : Ellipsoid) (prj : Projection) :
    (((westOfCM lon cm ∧ lat < 0) ∨ (eastOfCM lon cm ∧ lat > 0)) →
      (psfandgridconv ξ η lat lon cm χ ell prj).2 = -convMag ξ η (PyR.radians (lon - cm)) χ ell ∧
      (psfandgridconv ξ η lat lon cm χ ell prj).2 ≤ 0) ∧
    (¬ ((westOfCM lon cm ∧ lat < 0) ∨ (eastOfCM lon cm ∧ lat > 0)) →
      (psfandgridconv ξ η lat lon cm χ ell prj).2 = convMag ξ η (PyR.radians (lon - cm)) χ ell ∧
      0 ≤ (psfandgridconv ξ η lat lon cm χ ell prj).2) ∧
    |(psfandgridconv ξ η lat lon cm χ ell prj).2| = convMag ξ η (PyR.radians (lon - cm)) χ ell := by
  have hm := convMag_nonneg ξ η (PyR.radians (lon - cm)) χ ell
  rw [psf_unfold]
  simp only [radians_neg_iff, radians_pos_iff, westOfCM, eastOfCM]
  refine ⟨fun h => ?_, fun h => ?_, ?_⟩
  · rw [if_pos h]; exact ⟨rfl, by linarith⟩
  · rw [if_neg h]; exact ⟨rfl, hm⟩
  · split_ifs
    · rw [abs_neg, abs_of_nonneg hm]
    · rw [abs_of_nonneg hm]

/-- the rule in the familiar form inside the strip `|lon − cm| < 180` -/
theorem conv_sign_in_strip (ξ η lat lon cm χ : ℝ) (ell : Ellipsoid) (prj : Projection) (hs : |lon - cm| < 180) :
    (((cm > lon ∧ lat < 0) ∨ (cm < lon ∧ lat > 0)) →
      (psfandgridconv ξ η lat lon cm χ ell prj).2 = -convMag ξ η (PyR.radians (lon - cm)) χ ell) ∧
    (¬ ((cm > lon ∧ lat < 0) ∨ (cm < lon ∧ lat > 0)) →
      (psfandgridconv ξ η lat lon cm χ ell prj).2 = convMag ξ η (PyR.radians (lon - cm)) χ ell) := by
  obtain ⟨hw, he⟩ := west_east_in_strip lon cm hs
  obtain ⟨h1, h2, _⟩ := conv_sign ξ η lat lon cm χ ell prj
  rw [hw, he] at h1 h2
  exact ⟨fun h => (h1 h).1, fun h => (h2 h).1⟩

theorem conv_neg_iff (ξ η lat lon cm χ : ℝ) (ell : Ellipsoid) (prj : Projection) :
    (psfandgridconv ξ η lat lon cm χ ell prj).2 < 0 ↔
      ((westOfCM lon cm ∧ lat < 0) ∨ (eastOfCM lon cm ∧ lat > 0)) ∧
        0 < convMag ξ η (PyR.radians (lon - cm)) χ ell := by
  obtain ⟨h1, h2, _⟩ := conv_sign ξ η lat lon cm χ ell prj
  have hm := convMag_nonneg ξ η (PyR.radians (lon - cm)) χ ell
  by_cases hc : (westOfCM lon cm ∧ lat < 0) ∨ (eastOfCM lon cm ∧ lat > 0)
  · rw [(h1 hc).1]; constructor
    · intro h; exact ⟨hc, by linarith⟩
    · intro h; linarith [h.2]
  · constructor
    · intro h; linarith [(h2 hc).2]
    · intro h; exact absurd h.1 hc

theorem pS_neg_xi (a : Coef8) (ξ η : ℝ) : pS a (-ξ) η = pS a ξ η := by
  unfold pS; simp only [mul_neg, Real.cos_neg]
theorem pS_neg_eta (a : Coef8) (ξ η : ℝ) : pS a ξ (-η) = pS a ξ η := by
  unfold pS; simp only [mul_neg, Real.cosh_neg]
theorem qS_neg_xi (a : Coef8) (ξ η : ℝ) : qS a (-ξ) η = -qS a ξ η := by
  unfold qS; simp only [mul_neg, Real.sin_neg, neg_mul, Finset.sum_neg_distrib]
theorem qS_neg_eta (a : Coef8) (ξ η : ℝ) : qS a ξ (-η) = -qS a ξ η := by
  unfold qS; simp only [mul_neg, Real.sinh_neg, Finset.sum_neg_distrib]

theorem convMag_neg_lat (ξ η ω χ : ℝ) (ell : Ellipsoid) :
    convMag (-ξ) η ω (-χ) ell = convMag ξ η ω χ ell := by
  unfold convMag
  rw [pS_neg_xi, qS_neg_xi, Real.tan_neg, neg_div, abs_neg, neg_mul, abs_neg, neg_sq]

theorem convMag_neg_lon (ξ η ω χ : ℝ) (ell : Ellipsoid) :
    convMag ξ (-η) (-ω) χ ell = convMag ξ η ω χ ell := by
  unfold convMag
  rw [pS_neg_eta, qS_neg_eta, Real.tan_neg, neg_div, abs_neg, mul_neg, abs_neg]

/-- convergence is odd under reflection in the equator (`φ, χ, ξ′ ↦ −φ, −χ, −ξ′`) off the equator
and off the central meridian (and its antipodal meridian) -/
theorem conv_odd_in_lat (ξ η lat lon cm χ : ℝ) (ell : Ellipsoid) (prj : Projection)
    (hlat : lat ≠ 0) (hlon : Real.sin (PyR.radians (lon - cm)) ≠ 0) :
    (psfandgridconv (-ξ) η (-lat) lon cm (-χ) ell prj).2
      = -(psfandgridconv ξ η lat lon cm χ ell prj).2 := by
  simp only [psf_unfold, convMag_neg_lat, radians_neg_iff, radians_pos_iff]
  rcases lt_or_gt_of_ne hlat with h | h <;> rcases lt_or_gt_of_ne hlon with h' | h'
  all_goals
    split_ifs with c1 c2 c2
    all_goals first
      | rfl
      | (rw [neg_neg]; done)
      | (exfalso; rcases c1 with ⟨_, _⟩ | ⟨_, _⟩ <;> rcases c2 with ⟨_, _⟩ | ⟨_, _⟩ <;> linarith)
      | (exfalso; apply c1; first
          | exact Or.inl ⟨by linarith, by linarith⟩ | exact Or.inr ⟨by linarith, by linarith⟩)
      | (exfalso; apply c2; first
          | exact Or.inl ⟨by linarith, by linarith⟩ | exact Or.inr ⟨by linarith, by linarith⟩)

/-- convergence is odd under reflection in the central meridian (`ω, η′ ↦ −ω, −η′`) -/
theorem conv_odd_in_lon (ξ η lat lon cm χ : ℝ) (ell : Ellipsoid) (prj : Projection)
    (hlat : lat ≠ 0) (hlon : Real.sin (PyR.radians (lon - cm)) ≠ 0) :
    (psfandgridconv ξ (-η) lat (2 * cm - lon) cm χ ell prj).2
      = -(psfandgridconv ξ η lat lon cm χ ell prj).2 := by
  have e : PyR.radians (2 * cm - lon - cm) = -PyR.radians (lon - cm) := by
    simp only [radians_def]; ring
  simp only [psf_unfold, e, convMag_neg_lon, radians_neg_iff, radians_pos_iff, Real.sin_neg]
  rcases lt_or_gt_of_ne hlat with h | h <;> rcases lt_or_gt_of_ne hlon with h' | h'
  all_goals
    split_ifs with c1 c2 c2
    all_goals first
      | rfl
      | (rw [neg_neg]; done)
      | (exfalso; rcases c1 with ⟨_, _⟩ | ⟨_, _⟩ <;> rcases c2 with ⟨_, _⟩ | ⟨_, _⟩ <;> linarith)
      | (exfalso; apply c1; first
          | exact Or.inl ⟨by linarith, by linarith⟩ | exact Or.inr ⟨by linarith, by linarith⟩)
      | (exfalso; apply c2; first
          | exact Or.inl ⟨by linarith, by linarith⟩ | exact Or.inr ⟨by linarith, by linarith⟩)

theorem qS_eta_zero (a : Coef8) (ξ : ℝ) : qS a ξ 0 = 0 := by
  unfold qS; simp only [mul_zero, Real.sinh_zero, Finset.sum_const_zero, neg_zero]

theorem qS_xi_zero (a : Coef8) (η : ℝ) : qS a 0 η = 0 := by
  unfold qS; simp only [mul_zero, Real.sin_zero, zero_mul, Finset.sum_const_zero, neg_zero]

theorem pS_eta_zero (a : Coef8) (ξ : ℝ) :
    pS a ξ 0 = 1 + ∑ r ∈ Finset.range 8,
      2 * ((r + 1 : ℕ) : ℝ) * coef a (r + 1) * Real.cos (2 * ((r + 1 : ℕ) : ℝ) * ξ) := by
  unfold pS; simp only [mul_zero, Real.cosh_zero, mul_one]

/-- convergence vanishes on the central meridian (`lon = cm`, `η′ = 0`) -/
theorem conv_zero_cm (ξ lat cm χ : ℝ) (ell : Ellipsoid) (prj : Projection) :
    (psfandgridconv ξ 0 lat cm cm χ ell prj).2 = 0 := by
  have h : convMag ξ 0 (PyR.radians (cm - cm)) χ ell = 0 := by
    unfold convMag
    simp only [qS_eta_zero, zero_div, abs_zero, Real.arctan_zero, sub_self, zero_mul,
      Real.tan_zero, mul_zero, add_zero]
  rw [psf_unfold, h]; simp only [neg_zero, ite_self]

/-- convergence vanishes on the equator (`ξ′ = 0`, `χ = 0`) -/
theorem conv_zero_equator (η lat lon cm : ℝ) (ell : Ellipsoid) (prj : Projection) :
    (psfandgridconv 0 η lat lon cm 0 ell prj).2 = 0 := by
  have h : convMag 0 η (PyR.radians (lon - cm)) 0 ell = 0 := by
    unfold convMag
    simp only [qS_xi_zero, zero_div, abs_zero, Real.arctan_zero, Real.tan_zero, zero_mul,
      add_zero]
  rw [psf_unfold, h]; simp only [neg_zero, ite_self]

/-! ## Point scale factor on the central meridian, factorisation -/

/-- C10.6: on the central meridian (`lon = cm`, `η′ = 0`): `q = 0`,
`p = 1 + Σ 2r a_r cos 2rξ′` and `psf = k₀ (A/a) |p| √(1+tan²φ) √(1−e² sin²φ) / √(tan²χ+1)`. -/
theorem psf_on_cm (ξ lat cm χ : ℝ) (ell : Ellipsoid) (prj : Projection) :
    qS (alpha_coeff ell) ξ 0 = 0 ∧
    (psfandgridconv ξ 0 lat cm cm χ ell prj).1 =
      prj.cmscale * (rect_radius ell / ell.semimaj)
        * |1 + ∑ r ∈ Finset.range 8, 2 * ((r + 1 : ℕ) : ℝ) * coef (alpha_coeff ell) (r + 1)
              * Real.cos (2 * ((r + 1 : ℕ) : ℝ) * ξ)|
        * ((Real.sqrt (1 + Real.tan (PyR.radians lat) ^ 2)
            * Real.sqrt (1 - ell.ecc1sq * Real.sin (PyR.radians lat) ^ 2))
          / Real.sqrt (Real.tan χ ^ 2 + 1)) := by
  refine ⟨qS_eta_zero _ _, ?_⟩
  rw [psf_unfold]
  simp only [psfExpr, qS_eta_zero, pS_eta_zero, sub_self, radians_def, zero_mul, Real.cos_zero]
  rw [zero_pow (by norm_num), zero_add, Real.sqrt_sq_eq_abs, one_pow]

/-- the same with the conformal-sphere factor in geometric form `cos χ √(1−e² sin²φ) / cos φ`
(`= a cos χ / (ν cos φ)`), for `cos φ > 0`, `cos χ > 0`. -/
theorem psf_on_cm_geometric (ξ lat cm χ : ℝ) (ell : Ellipsoid) (prj : Projection)
    (hφ : 0 < Real.cos (PyR.radians lat)) (hχ : 0 < Real.cos χ) :
    (psfandgridconv ξ 0 lat cm cm χ ell prj).1 =
      prj.cmscale * (rect_radius ell / ell.semimaj) * |pS (alpha_coeff ell) ξ 0|
        * (Real.cos χ * Real.sqrt (1 - ell.ecc1sq * Real.sin (PyR.radians lat) ^ 2)
            / Real.cos (PyR.radians lat)) := by
  rw [(psf_on_cm ξ lat cm χ ell prj).2, ← pS_eta_zero]
  have h1 := Real.inv_sqrt_one_add_tan_sq hφ
  have h2 := Real.inv_sqrt_one_add_tan_sq hχ
  rw [show Real.tan χ ^ 2 + 1 = 1 + Real.tan χ ^ 2 by ring]
  have p1 : 0 < Real.sqrt (1 + Real.tan (PyR.radians lat) ^ 2) := Real.sqrt_pos.mpr (by positivity)
  have p2 : 0 < Real.sqrt (1 + Real.tan χ ^ 2) := Real.sqrt_pos.mpr (by positivity)
  rw [← h1, ← h2]
  field_simp

example : 0 < Real.cos (PyR.radians (-35)) := by
  apply Real.cos_pos_of_mem_Ioo
  simp only [radians_def]
  constructor <;> nlinarith [Real.pi_pos]

/-- C10.3: the point scale factor is (series scale `|g′(ζ′)|`) × (spherical transverse-Mercator
scale `1/√(1 − cos²χ sin²ω)`) × (conformal-sphere scale `cos χ √(1−e² sin²φ)/cos φ`) × `k₀ A/a`,
with every ellipsoid/projection quantity taken from the call's arguments. -/
theorem psf_factorisation (ξ η lat lon cm χ : ℝ) (ell : Ellipsoid) (prj : Projection)
    (hφ : 0 < Real.cos (PyR.radians lat)) (hχ : 0 < Real.cos χ)
    (_hω : Real.cos χ ^ 2 * Real.sin (PyR.radians (lon - cm)) ^ 2 < 1) :
    (psfandgridconv ξ η lat lon cm χ ell prj).1 =
      prj.cmscale * (rect_radius ell / ell.semimaj)
        * ‖gK' (alpha_coeff ell) ((ξ : ℂ) + (η : ℂ) * Complex.I)‖
        * (1 / Real.sqrt (1 - Real.cos χ ^ 2 * Real.sin (PyR.radians (lon - cm)) ^ 2))
        * (Real.cos χ * Real.sqrt (1 - ell.ecc1sq * Real.sin (PyR.radians lat) ^ 2)
            / Real.cos (PyR.radians lat)) := by
  rw [psf_unfold, ← (pq_is_derivative (alpha_coeff ell) ξ η).2]
  simp only [psfExpr]
  set ω := PyR.radians (lon - cm)
  set φ := PyR.radians lat
  have h1 := Real.inv_sqrt_one_add_tan_sq hφ
  have e : Real.tan χ ^ 2 + Real.cos ω ^ 2
      = (1 - Real.cos χ ^ 2 * Real.sin ω ^ 2) / Real.cos χ ^ 2 := by
    rw [Real.tan_eq_sin_div_cos]
    have := Real.sin_sq_add_cos_sq χ
    have := Real.sin_sq_add_cos_sq ω
    field_simp
    nlinarith
  rw [e, Real.sqrt_div' _ (by positivity), Real.sqrt_sq hχ.le, ← h1]
  field_simp

/-! ## `atan|q/p|` is the argument of the series derivative -/

/-- C10.2 (second half): for `p > 0`, `atan|q/p| = |arg g′(ζ′)|`. -/
theorem atan_q_div_p_eq_abs_arg (a : Coef8) (ξ η : ℝ) (hp : 0 < pS a ξ η) :
    Real.arctan |qS a ξ η / pS a ξ η|
      = |Complex.arg (gK' a ((ξ : ℂ) + (η : ℂ) * Complex.I))| := by
  set z := gK' a ((ξ : ℂ) + (η : ℂ) * Complex.I) with hz
  have hre : z.re = pS a ξ η := gK'_re a ξ η
  have him : z.im = qS a ξ η := gK'_im a ξ η
  have hlt : |Complex.arg z| < Real.pi / 2 :=
    Complex.abs_arg_lt_pi_div_two_iff.mpr (Or.inl (by rw [hre]; exact hp))
  have ht := Complex.tan_arg z
  rw [hre, him] at ht
  rw [arctan_abs, ← ht, Real.arctan_tan (by linarith [(abs_lt.mp hlt).1]) (abs_lt.mp hlt).2]

/-! ## Rounding of the returned point scale factor -/

/-- C10.7 -/
theorem round8_close (x : ℝ) : |pround 8 x - x| ≤ 5 / 10 ^ 9 := by
  have h := PyR.pround_close 8 x
  have e : (1 : ℝ) / 2 / 10 ^ 8 = 5 / 10 ^ 9 := by norm_num
  rw [e] at h; exact h

/-- the point scale factor returned by `geo2grid` is within `5·10⁻⁹` of the unrounded value computed
from the call's own ellipsoid and projection -/
theorem geo2grid_psf_close (lat lon zone : ℝ) (ell : Ellipsoid) (prj : Projection)
    (r : String × ℝ × ℝ × ℝ × ℝ × ℝ) (h : geo2grid lat lon zone ell prj = .ok r) :
    let cm := centralMeridian prj r.2.1
    let φ := PyR.radians lat
    let χ := confLat ell φ
    let ω := PyR.radians (lon - cm)
    |r.2.2.2.2.1 - psfExpr (gsXi χ ω) (gsEta χ ω) φ ω χ ell prj| ≤ 5 / 10 ^ 9 := by
  intro cm φ χ ω
  have h1 := geo2grid_call_site lat lon zone ell prj r h
  have h2 := congrArg Prod.fst h1
  simp only at h2
  rw [h2, psf_unfold]
  simp only [radians_degrees]
  exact round8_close _

/-- C10.1: both call sites evaluate `psfandgridconv` with the ellipsoid and projection of the call
(for **every** `ell`, `prj`), at the Gauss–Schreiber coordinates, central meridian and conformal
latitude the conversion itself computed; `grid2geo` applies its hemisphere sign to the convergence
exactly as it does to the latitude. -/
theorem call_sites_pass_arguments (ell : Ellipsoid) (prj : Projection) :
    (∀ lat lon zone r, geo2grid lat lon zone ell prj = .ok r →
      let cm := centralMeridian prj r.2.1
      let φ := PyR.radians lat
      let χ := confLat ell φ
      let ω := PyR.radians (lon - cm)
      r.2.2.2.2 =
        (pround 8 (psfandgridconv (gsXi χ ω) (gsEta χ ω) (PyR.degrees φ) lon cm χ ell prj).1,
         (psfandgridconv (gsXi χ ω) (gsEta χ ω) (PyR.degrees φ) lon cm χ ell prj).2)) ∧
    (∀ zone east north hemi r, grid2geo zone east north hemi ell prj = .ok r →
      ∃ ξ η lat s, (s = if strLower hemi = "north" then -1 else 1) ∧
        let cm := centralMeridian prj (trunc zone)
        let χ := Real.arctan (Real.sin ξ / Real.sqrt (Real.sinh η ^ 2 + Real.cos ξ ^ 2))
        let long := cm + PyR.degrees (Real.arctan (Real.sinh η / Real.cos ξ))
        r.1 = s * pround 11 lat ∧ r.2.1 = pround 11 long ∧
        r.2.2 =
        (pround 8 (psfandgridconv ξ η lat long cm χ ell prj).1,
         s * (psfandgridconv ξ η lat long cm χ ell prj).2)) :=
  ⟨fun lat lon zone r h => geo2grid_call_site lat lon zone ell prj r h,
   fun zone east north hemi r h => grid2geo_ok_form zone east north hemi ell prj r h⟩


/-! ## The hypotheses `… = .ok r` of the call-site theorems are satisfiable (any ellipsoid, any
non-ISG projection) -/

theorem trunc_natCast (n : ℕ) : trunc (n : ℝ) = n := by
  unfold trunc
  rw [if_neg (not_lt.mpr (Nat.cast_nonneg n))]
  simp

theorem whileLoop_terminates {σ : Type} (cond : σ → Bool) (body : σ → σ) (m : σ → ℕ)
    (hdec : ∀ s, cond s = true → m (body s) < m s) :
    ∀ (fuel : ℕ) (s : σ), m s ≤ fuel → ∃ s', Py.whileLoop fuel cond body s = some s' := by
  intro fuel
  induction fuel with
  | zero =>
    intro s hs
    simp only [Py.whileLoop]
    by_cases hc : cond s = true
    · have := hdec s hc; omega
    · rw [if_neg hc]; exact ⟨s, rfl⟩
  | succ n ih =>
    intro s hs
    simp only [Py.whileLoop]
    by_cases hc : cond s = true
    · rw [if_pos hc]; exact ih _ (by have := hdec s hc; omega)
    · rw [if_neg hc]; exact ⟨s, rfl⟩

theorem counter_loop_terminates (cond : ℝ × ℝ × ℝ → Bool) (body : ℝ × ℝ × ℝ → ℝ × ℝ × ℝ)
    (hc : ∀ s, cond s = true → s.1 < 100) (hb : ∀ s, (body s).1 = s.1 + 1) (a b : ℝ) :
    ∃ s', Py.whileLoop 200 cond body (0, a, b) = some s' := by
  refine whileLoop_terminates cond body (fun s => ⌈100 - s.1⌉₊) (fun s h => ?_) 200 _ ?_
  · have h1 := hc s h
    simp only [hb]
    have hpos : 0 < ⌈100 - s.1⌉₊ := Nat.ceil_pos.mpr (by linarith)
    have : ⌈100 - (s.1 + 1)⌉₊ ≤ ⌈100 - s.1⌉₊ - 1 := by
      rw [Nat.ceil_le]
      have := Nat.le_ceil (100 - s.1)
      rw [Nat.cast_sub hpos]; push_cast; linarith
    omega
  · simp only [sub_zero]
    have : ⌈(100 : ℝ)⌉₊ = 100 := by exact_mod_cast Nat.ceil_natCast (R := ℝ) 100
    omega

theorem strLower_south : strLower "south" = "south" := by unfold strLower; decide +kernel

example (ell : Ellipsoid) (prj : Projection) (hp : prj.pyid ≠ isg.pyid) :
    ∃ r, grid2geo 55 500000 6000000 "south" ell prj = .ok r := by
  have ht : trunc (55 : ℝ) = 55 := by exact_mod_cast trunc_natCast 55
  unfold grid2geo
  rw [ht]
  simp only [if_neg hp]
  rw [if_neg (by norm_num)]
  simp only [Except.bind]
  rw [if_neg (by norm_num), if_neg (by norm_num)]
  simp only [strLower_south]
  rw [if_neg (by simp)]
  generalize hw : Py.whileLoop 200 _ _ _ = o
  obtain ⟨s', hs'⟩ : ∃ s', o = some s' := by
    rw [← hw]
    exact counter_loop_terminates _ _ (fun s h => by simp only [decide_eq_true_eq] at h; exact h.2) (fun s => rfl) _ _
  subst hs'
  exact ⟨_, rfl⟩

example (ell : Ellipsoid) (prj : Projection) (hp : prj.pyid ≠ isg.pyid) :
    ∃ r, geo2grid (-35) 149 55 ell prj = .ok r := by
  have ht : trunc (55 : ℝ) = 55 := by exact_mod_cast trunc_natCast 55
  unfold geo2grid
  rw [ht]
  simp only [if_neg hp]
  rw [if_neg (by norm_num)]
  simp only [Except.bind]
  rw [if_neg (by norm_num), if_neg (by norm_num)]
  exact ⟨_, rfl⟩

/-- **Angle-class arguments.** Every angle parameter of `psfandgridconv` is read by the source only through
`angular_typecheck` (list regenerated by the translator from the current text), so passing an angle object of any of
the five classes is passing its decimal-degree value: the theorems of this file, stated for numbers, cover them. -/
theorem angle_arguments_reduced_psfandgridconv : GenR.Convert.psfandgridconv_angle_params = ["lat", "lon"] := rfl

/-- **Angle-class arguments.** Every angle parameter of `geo2grid` is read by the source only through
`angular_typecheck` (list regenerated by the translator from the current text), so passing an angle object of any of
the five classes is passing its decimal-degree value: the theorems of this file, stated for numbers, cover them. -/
theorem angle_arguments_reduced_geo2grid : GenR.Convert.geo2grid_angle_params = ["lat", "lon"] := rfl

end GeodeVerif.C10

#print axioms GeodeVerif.C10.psf_unfold
#print axioms GeodeVerif.C10.psf_uses_call_ellipsoid_projection
#print axioms GeodeVerif.C10.psf_scales_with_cmscale
#print axioms GeodeVerif.C10.call_sites_pass_arguments
#print axioms GeodeVerif.C10.geo2grid_ok_form
#print axioms GeodeVerif.C10.geo2grid_psf_close
#print axioms GeodeVerif.C10.pq_is_derivative
#print axioms GeodeVerif.C10.atan_q_div_p_eq_abs_arg
#print axioms GeodeVerif.C10.psf_factorisation
#print axioms GeodeVerif.C10.conv_terms
#print axioms GeodeVerif.C10.conv_sign
#print axioms GeodeVerif.C10.conv_neg_iff
#print axioms GeodeVerif.C10.conv_odd_in_lat
#print axioms GeodeVerif.C10.conv_odd_in_lon
#print axioms GeodeVerif.C10.conv_zero_cm
#print axioms GeodeVerif.C10.conv_zero_equator
#print axioms GeodeVerif.C10.psf_on_cm
#print axioms GeodeVerif.C10.psf_on_cm_geometric
#print axioms GeodeVerif.C10.round8_close
#print axioms GeodeVerif.C10.strLower_south
