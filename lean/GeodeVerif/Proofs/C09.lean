import GeodeVerif.GenF.Effects
import GeodeVerif.Model.Purity
/-!
# C09 — purity: library calls have no hidden state and mutate neither constants nor arguments

Three layers.

(a) **The generated effect table** `GenF.Effects.effects` / `GenF.Effects.functions` is produced on every check
    run by `translator/effects.py` from the Python AST of `geodepy/{constants,convert,geodesy,statistics,survey,
    transform}.py`: one row per syntactic write whose target is not a plain local name (attribute / subscript
    assignment, `del`, `global`/`nonlocal` binding, in-place method calls, `out=`, `x += …` on a non-fresh name),
    with the root of the written object classified `param k | self | global g | localFresh | localAlias r`.
    The theorems of part 1 are decided over THAT table, so a change of the Python changes what they say:

    * `no_global_writes`, `no_param_writes`, `no_alias_writes`  — no row is rooted at a module-level/imported
      name, at a parameter, or at a local alias of either; `global` also covers every other kind of persistent
      state the analysis knows: closure cells of an enclosing function (`closure:…`), default-argument objects
      (`default:…`), class objects (`class-of:…`), function/class attributes, and decorators
      (`decorator:…`, `no_decorator_rows`) — e.g. a memoising wrapper around `alpha_coeff`;
    * `self_writes_only_in_init` — rows rooted at `self` occur only in functions whose name ends in `.__init__`;
    * `roots_fresh_or_self`, `all_rows_harmless`, `all_functions_effect_free` — every row is a store into an object created by the call
      itself (or initialises the object under construction);
    * sanity: `functions_nonempty`, `functions_count`, `functions_nodup`, `anchors_analysed`,
      `rows_belong_to_functions`, `init_rows_present`, `fresh_rows_present` (the table is not vacuous: it does
      contain the `self.x = …` rows of the four constructors and the `q_mat[3, 3] = …` stores of `conform7`).

    On the tree before the fixes `17042f1` / `01da0f6` these fail: `Transformation.__add__` had seven rows
    `self.tf_sd.sd_* = …` with root `self` outside `__init__`, and `survey.precise_inst_ht` had the row
    `vert_list.sort(…)` with root `param 0`.

(b) **The abstract heap model** `GeodeVerif.Purity` (`Model/Purity.lean`, core Lean, proved once and for all):
    `frame`, `history_independent`, `schedule_independent`, and the negative example.

(c) **The bridge** (part 2): `LibModel` is any semantic model of the library with one `step` per analysed
    function in which *effect-free functions are pure steps*.  THAT implication — soundness of the syntactic
    effect analysis under aliasing and for writes performed inside external libraries — is the modelling
    assumption of C09; it is not proved in Lean, it is what `harness/corr_purity.py` checks dynamically (write
    barrier on the shipped constants via the `GEODEPY_VERIF` hook, deep snapshots of constants and arguments,
    repeated and multi-threaded call sequences).  Under it, the table discharges the premise for every function,
    and `library_history_independent` / `library_schedule_independent` give the statement of the property:
    any call sequence leaves the state unchanged, repeated calls return the same outputs whatever was called
    before, and any interleaving of 2–8 (or any number of) threads gives each thread its single-threaded outputs.
-/

namespace GeodeVerif.C09

open GenF.Effects GeodeVerif.Purity

/-! ## 1. The generated table -/

/-- `s` ends with `suf` (on the character lists). -/
def EndsWith (s suf : String) : Prop := suf.toList <:+ s.toList

instance (s suf : String) : Decidable (EndsWith s suf) := by unfold EndsWith; infer_instance

def isGlobal : Root → Bool
  | .global _ => true
  | _ => false

def isParam : Root → Bool
  | .param _ => true
  | _ => false

def isAlias : Root → Bool
  | .localAlias _ => true
  | _ => false

/-- no write is rooted at a module-level, imported or builtin name -/
theorem no_global_writes : ∀ r ∈ effects, ∀ g, r.root ≠ .global g := by
  have h : ∀ r ∈ effects, isGlobal r.root = false := by decide
  intro r hr g hg
  have := h r hr
  rw [hg] at this
  exact Bool.noConfusion this

/-- no function, method or class of the six modules is wrapped by a decorator other than
`staticmethod`/`classmethod`/`property` (a caching decorator is hidden state; such rows have root
`global "decorator:…"`, so this also follows from `no_global_writes`) -/
theorem no_decorator_rows : ∀ r ∈ effects, r.kind ≠ "decorator" := by decide +kernel

/-- no write is rooted at a parameter (a caller-owned list, array or object) -/
theorem no_param_writes : ∀ r ∈ effects, ∀ k, r.root ≠ .param k := by
  have h : ∀ r ∈ effects, isParam r.root = false := by decide
  intro r hr k hk
  have := h r hr
  rw [hk] at this
  exact Bool.noConfusion this

/-- no write goes through a local alias of a parameter, of `self` or of a global -/
theorem no_alias_writes : ∀ r ∈ effects, ∀ a, r.root ≠ .localAlias a := by
  have h : ∀ r ∈ effects, isAlias r.root = false := by decide
  intro r hr a ha
  have := h r hr
  rw [ha] at this
  exact Bool.noConfusion this

/-- the (distinct) names of the functions that have a row rooted at `self`, computed from the table -/
def selfWriters : List String :=
  ((effects.filter (fun r => decide (r.root = .self))).map (·.fn)).eraseDups

theorem self_rows_in_selfWriters : ∀ r ∈ effects, r.root = .self → r.fn ∈ selfWriters := by
  decide +kernel

theorem selfWriters_are_inits : ∀ f ∈ selfWriters, EndsWith f ".__init__" := by
  decide

/-- writes rooted at `self` occur only in constructors -/
theorem self_writes_only_in_init : ∀ r ∈ effects, r.root = .self → EndsWith r.fn ".__init__" :=
  fun r hr h => selfWriters_are_inits r.fn (self_rows_in_selfWriters r hr h)

/-- every row is rooted at an object created by the call, or at `self` -/
theorem roots_fresh_or_self : ∀ r ∈ effects, r.root = .localFresh ∨ r.root = .self := by
  decide

/-- every row is a store into an object created by the call itself, or initialises the object under
construction -/
theorem all_rows_harmless :
    ∀ r ∈ effects, r.root = .localFresh ∨ (r.root = .self ∧ EndsWith r.fn "__init__") := by
  intro r hr
  cases roots_fresh_or_self r hr with
  | inl h => exact Or.inl h
  | inr h =>
    have hsuf : "__init__".toList <:+ ".__init__".toList := by decide
    exact Or.inr ⟨h, List.IsSuffix.trans hsuf (self_writes_only_in_init r hr h)⟩

/-- The rows of `fn` write nothing that outlives the call. -/
def EffectFree (fn : String) : Prop :=
  ∀ r ∈ effects, r.fn = fn → r.root = .localFresh ∨ (r.root = .self ∧ EndsWith fn "__init__")

theorem effectFree_of_rows (fn : String) : EffectFree fn := by
  intro r hr hfn
  subst hfn
  exact all_rows_harmless r hr

/-- every analysed function and method is effect free -/
theorem all_functions_effect_free : ∀ f ∈ functions, EffectFree f :=
  fun f _ => effectFree_of_rows f

/-! ### the table is not vacuous -/

theorem functions_nonempty : functions ≠ [] := by decide

/-- at least the 50 functions and methods of the six modules known when this file was written -/
theorem functions_count : 50 ≤ functions.length := by decide

theorem functions_nodup : functions.Nodup := by decide +kernel

/-- the functions named in the property's anchors are in the analysed set -/
theorem anchors_analysed :
    "constants.Transformation.__add__" ∈ functions ∧ "constants.Transformation.__neg__" ∈ functions ∧
    "constants.Transformation.__init__" ∈ functions ∧ "constants.TransformationSD.__init__" ∈ functions ∧
    "constants.Ellipsoid.__init__" ∈ functions ∧ "constants.Projection.__init__" ∈ functions ∧
    "constants.iers2trans" ∈ functions ∧
    "survey.precise_inst_ht" ∈ functions ∧
    "statistics.vcv_cart2local" ∈ functions ∧ "statistics.vcv_local2cart" ∈ functions ∧
    "statistics.relative_error" ∈ functions ∧
    "transform.conform7" ∈ functions ∧ "transform.conform14" ∈ functions ∧
    "transform.transform_mga94_to_mga2020" ∈ functions ∧ "transform.transform_mga2020_to_mga94" ∈ functions ∧
    "transform.transform_atrf2014_to_gda2020" ∈ functions ∧ "transform.transform_gda2020_to_atrf2014" ∈ functions ∧
    "convert.geo2grid" ∈ functions ∧ "convert.grid2geo" ∈ functions ∧
    "convert.llh2xyz" ∈ functions ∧ "convert.xyz2llh" ∈ functions ∧
    "geodesy.vincinv" ∈ functions ∧ "geodesy.vincdir" ∈ functions := by
  decide

/-- every row belongs to an analysed function -/
theorem rows_belong_to_functions : ∀ r ∈ effects, r.fn ∈ functions := by decide +kernel

/-- the constructors' `self.x = …` rows are in the table (the analysis does see attribute writes) -/
theorem init_rows_present :
    (∃ r ∈ effects, r.fn = "constants.Transformation.__init__" ∧ r.target = "self.tf_sd" ∧ r.root = .self) ∧
    (∃ r ∈ effects, r.fn = "constants.TransformationSD.__init__" ∧ r.target = "self.sd_tx" ∧ r.root = .self) ∧
    (∃ r ∈ effects, r.fn = "constants.Ellipsoid.__init__" ∧ r.target = "self.semimaj" ∧ r.root = .self) ∧
    (∃ r ∈ effects, r.fn = "constants.Projection.__init__" ∧ r.target = "self.cmscale" ∧ r.root = .self) := by
  decide

/-- the stores into freshly allocated arrays are in the table (the analysis does see subscript writes) -/
theorem fresh_rows_present :
    (∃ r ∈ effects, r.fn = "transform.conform7" ∧ r.target = "q_mat[3, 3]" ∧ r.root = .localFresh) ∧
    (∃ r ∈ effects, r.fn = "statistics.relative_error" ∧ r.target = "rel_var[0, 0]" ∧ r.root = .localFresh) := by
  decide

/-! ## 2. From the table to the heap model -/

/-- A semantic model of the library: a heap `σ` and one step per function name. The field `sound` is the
modelling assumption of C09 (checked dynamically, not proved): a function whose rows are all effect free is a
pure step of the heap. -/
structure LibModel (σ Arg Out : Type) where
  step : String → σ → Arg → σ × Out
  sound : ∀ f ∈ functions, EffectFree f → Pure (step f)

/-- the assumption is satisfiable -/
example : LibModel Unit Nat Nat where
  step := fun _ s a => (s, a)
  sound := fun _ _ _ _ _ => ⟨rfl, fun _ => rfl⟩

variable {σ Arg Out ι : Type}

/-- every analysed function is a pure step of every sound model -/
theorem all_steps_pure (M : LibModel σ Arg Out) : ∀ f ∈ functions, Pure (M.step f) :=
  fun f hf => M.sound f hf (all_functions_effect_free f hf)

/-- **C09, histories.** Any sequence of calls of analysed functions leaves the heap (constants and
caller-owned arguments) as it was, and every call returns what the same call returns on the initial heap —
in particular a repeated identical call returns the identical result, whatever was called in between. -/
theorem library_history_independent (M : LibModel σ Arg Out) (cs : List (String × Arg))
    (hcs : ∀ c ∈ cs, c.1 ∈ functions) (init : σ) :
    (run M.step init cs).1 = init ∧ (run M.step init cs).2 = cs.map (outAt M.step init) :=
  history_independent M.step cs (fun c hc => all_steps_pure M c.1 (hcs c hc)) init

/-- **C09, schedules.** For any number of threads with programs `ts i` and ANY interleaving `m` of them, each
thread's results equal its single-threaded results, and the heap is unchanged at the end. -/
theorem library_schedule_independent [DecidableEq ι] (M : LibModel σ Arg Out)
    {ts : ι → List (String × Arg)} {m : List (ι × (String × Arg))} (hm : IsMerge ts m)
    (hcs : ∀ c ∈ m, c.2.1 ∈ functions) (init : σ) (i : ι) :
    proj i (runTagged M.step init m).2 = (run M.step init (ts i)).2 ∧ (runTagged M.step init m).1 = init :=
  schedule_independent M.step hm (fun c hc => all_steps_pure M c.2.1 (hcs c hc)) init i

/-- The same two statements for an arbitrary system all of whose operations are `Pure`. -/
theorem pure_system_history_independent {Op : Type} (step : Op → σ → Arg → σ × Out) (h : ∀ o, Pure (step o))
    (cs : List (Op × Arg)) (init : σ) :
    (run step init cs).1 = init ∧ (run step init cs).2 = cs.map (outAt step init) :=
  history_independent step cs (fun c _ => h c.1) init

theorem pure_system_schedule_independent {Op : Type} [DecidableEq ι] (step : Op → σ → Arg → σ × Out)
    (h : ∀ o, Pure (step o)) {ts : ι → List (Op × Arg)} {m : List (ι × (Op × Arg))} (hm : IsMerge ts m)
    (init : σ) (i : ι) :
    proj i (runTagged step init m).2 = (run step init (ts i)).2 ∧ (runTagged step init m).1 = init :=
  schedule_independent step hm (fun c _ => h c.2.1) init i

/-- What the assumption excludes: a model in which some analysed function writes (as `__add__` did) is not a
`LibModel` — the writing demo operation cannot be the step of any analysed function. -/
theorem writing_step_not_admissible (M : LibModel Nat Nat Nat) (f : String) (hf : f ∈ functions) :
    M.step f ≠ demoStep .reEpoch := by
  intro h
  exact impure_not_pure (h ▸ all_steps_pure M f hf)

end GeodeVerif.C09
