import GeodeVerif.Proofs.C18
import GeodeVerif.Lemmas.C18VelRows
import GeodeVerif.Lemmas.C18ReadMat
import GeodeVerif.Lemmas.C18Compose
import GeodeVerif.Lemmas.C18DemoR
/-!
# C18, second part — `remove_velocity_sinex` refinement, readers, composition of edits

Same conventions as `Proofs/C18.lean`: theorems about the hand model `GeodeVerif.Model.Sinex`
(tied to `geodepy/gnss.py` by `harness/corr_sinex.py`) and `GeodeVerif.Spec.Sinex`.
-/
namespace GeodeVerif.C18
open Sinex Sinex.Spec

/-! ## 6/9. `remove_velocity_sinex` -/

theorem epochBlock_removeVel (s : Sol) (c : Clock) : epochBlock (Spec.removeVel s c) = epochBlock s := by
  simp [epochBlock, Spec.removeVel, touch, List.map_map, Function.comp_def, epochLine]

/-- **Refinement (`remove_velocity_sinex`).**  For every well-formed solution with the velocity
flag (and at least one station — on a file without data lines the code raises
`UnboundLocalError`) and every clock value, the text written for the rendered solution is, byte
for byte, the rendering of `Spec.removeVel s` in the layout this editor writes (`renderVelStyle`:
upper-case exponents, blank-terminated values): new stamp, count halved and zero-padded, only the
flag ` V` removed, position estimates kept and renumbered, covariance = the position rows and
columns of the stored triangle (`L` and `U`), every line and block terminator on its own line. -/
theorem refinement_remove_velocity {s : Sol} (hwf : s.wf = true) (hv : s.vel = true) (hpos : 0 < s.n)
    {c : Clock} (hc : c.Valid) :
    removeVelocity (render s) c = .ok (unlines (renderVelStyle (Spec.removeVel s c))) := by
  have h := wf_spec hwf
  have hk : s.k = 6 := by simp [Sol.k, hv]
  have hdim : s.solns.length * 6 = s.n := by rw [n_eq h, hk, Nat.mul_comm]
  obtain ⟨q, hq, hmem⟩ := velMatLoop_matBlock h hpos
  have htri : triOf (matHead s.tri) = some s.tri := by cases s.tri <;> decide
  have hshape : matBlock s = matHead s.tri :: (matTitle :: (matLines s ++ ["-SOLUTION/MATRIX_ESTIMATE".toList])) := by
    simp [matBlock, matBlockOf]
  have hrows := velRows_render h c hmem
  unfold removeVelocity
  simp only [velHeader_render h hv hc, readBlock_epochs h, countSites_epochBlock, readBlock_est h,
    velEstLoop_render h c, readBlock_mat h, readComments_render h, readBlock_site h]
  rw [hshape]
  simp only []
  rw [← hshape, hdim, hq, velDelete_render, htri]
  simp only [hrows]
  have e1 : siteBlock (Spec.removeVel s c) = siteBlock s := rfl
  have e2 : commentBlock (Spec.removeVel s c) = commentBlock (touch s c) := rfl
  simp only [renderVelStyle, renderWith, matBlockOf, e1, e2, epochBlock_removeVel, unlines, unlines_append,
    List.append_assoc, List.cons_append, List.nil_append, List.append_nil]
  rfl

theorem plainHead_mem_matLinesVelStyle {s : Sol} {l : Str} (hl : l ∈ matLinesVelStyle s) : plainHead l := by
  simp only [matLinesVelStyle, List.mem_flatMap, List.mem_map, List.mem_range] at hl
  obtain ⟨i, _, c, hc, rfl⟩ := hl
  generalize hvals : (rowToks s.tri s.mat s.n i).map padTok = vals at hc ⊢
  have hne : (vals.drop (3 * c)).take 3 ≠ [] := by
    intro h0
    have := congrArg List.length h0
    simp only [List.length_take, List.length_drop, List.length_nil] at this
    omega
  match hch : (vals.drop (3 * c)).take 3, hne with
  | [a], _ => exact plainHead_space _
  | [a, b], _ => exact plainHead_space _
  | a :: b :: d :: _, _ => exact plainHead_space _

theorem shape_removeVel {s : Sol} (h : WF s) (hv : s.vel = true) {c : Clock} (hc : c.Valid) :
    Shape (Spec.removeVel s c) := by
  have ht := shape_of_wf_touch h hc
  refine ⟨ht.hdrA_len, ht.stamp_ok, ht.hdrB_len, ht.hdrC_len, ht.hdrA_head, ht.comments_star, ?_⟩
  rw [n_removeVel h hv]
  have h1 := n_eq h
  have hk : s.k = 6 := by simp [Sol.k, hv]
  have h2 := h.n_lt
  rw [hk] at h1
  omega

/-- **remove_velocity_exact.**  Removing velocities from any well-formed solution that has them
writes a well-formed text (`wellFormedText`: fixed-width header with a proper stamp and a
five-digit count, every block closed on its own line, `%ENDSNX` last) which is the rendering of a
solution with exactly the position parameters (in order, renumbered by `render`), whose
covariance is the original at the position rows and columns, whose count is half the original,
and whose header differs only in stamp, count and the removed flag. -/
theorem remove_velocity_exact {s : Sol} (hwf : s.wf = true) (hv : s.vel = true) (hpos : 0 < s.n)
    {c : Clock} (hc : c.Valid) :
    ∃ out : List Str, removeVelocity (render s) c = .ok (unlines out) ∧ wellFormedText out = true ∧
      out = renderVelStyle (Spec.removeVel s c) ∧
      (Spec.removeVel s c).params = s.params.filter (fun cp => !isVel cp.2) ∧
      2 * (Spec.removeVel s c).n = s.n ∧
      (∀ a b, (Spec.removeVel s c).mat a b = s.mat ((keepPos s).getD a 0) ((keepPos s).getD b 0)) ∧
      (Spec.removeVel s c).tri = s.tri ∧
      headerLine (Spec.removeVel s c)
        = s.hdrA ++ stamp c ++ s.hdrB ++ fmt0d 5 ((Spec.removeVel s c).n : Int) ++ s.hdrC := by
  have h := wf_spec hwf
  refine ⟨_, refinement_remove_velocity hwf hv hpos hc,
    wellFormedText_renderWith (shape_removeVel h hv hc) _ (fun _ hl => plainHead_mem_matLinesVelStyle hl),
    rfl, params_removeVel s c, ?_, fun _ _ => rfl, rfl, ?_⟩
  · rw [n_removeVel h hv, n_eq h]
    have hk : s.k = 6 := by simp [Sol.k, hv]
    rw [hk]; omega
  · simp [headerLine, Spec.removeVel, touch, List.append_assoc]

/-- the refinement applies to the demonstration solution -/
example : removeVelocity (render demoV) noon = .ok (unlines (renderVelStyle (Spec.removeVel demoV noon))) :=
  refinement_remove_velocity demoV_wf (by decide) (by decide) (by constructor <;> decide)

/-! ## 8. the readers

`Spec.RSol` (`Spec/SinexR.lean`) is the abstract solution with the columns the readers parse as
fields — each the exact text written in its fixed columns — and `RSol.toSol` forgets that
structure, so `render r.toSol` is the SINEX text.  `r.fieldsOk` (decidable) says the fields have
their column widths, the numeric ones are accepted by `float()` / `int()`, and every solution
carries `STAX STAY STAZ [VELX VELY VELZ]` in that order.  `fval t` is the binary64 value
`float(t)` of a written field. -/

/-- **readers_exact.**  Applied to the rendering of any well-formed solution, the three readers
return exactly the written values:
* `read_sinex_estimate`: per solution `(code, soln, refEpoch, x, y, z, σx, σy, σz [, vx, vy, vz, σvx,
  σvy, σvz])` with every number the value of its written field;
* `read_sinex_matrix` (needs at least one solution — the code indexes `data[0]`): per solution
  `(code, soln, xx, xy, xz, yy, yz, zz [, same for the velocity block])`, in this documented order
  for **both** `L` and `U` files, each the value of the token stored for that pair;
* `read_sinex_sites`: `(site, point, domes, technique, description, lon, lat, h)` with the angles
  built from the three written tokens (sign taken from the first character, so `-0` degrees is
  negative) and the whole height field. -/
theorem readers_exact (r : RSol) (hwf : r.toSol.wf = true) (hf : r.fieldsOk = true) :
    readEstimate (render r.toSol) = .ok r.expectedEstimate
      ∧ (r.solns ≠ [] → readMatrix (render r.toSol) = .ok r.expectedMatrix)
      ∧ readSites (render r.toSol) = .ok r.expectedSites :=
  ⟨readEstimate_render r hwf hf, fun hne => readMatrix_render r hwf hf hne, readSites_render r hwf hf⟩

/-- what `expectedMatrix` says for an `L` file: the covariance `xy` of the station whose first
parameter is `b` is the value of the token stored at row `b+1`, column `b` -/
example (r : RSol) (htri : r.tri = .L) (b : Nat) :
    r.block b = [fval (r.mat b b), fval (r.mat (b + 1) b), fval (r.mat (b + 2) b),
      fval (r.mat (b + 1) (b + 1)), fval (r.mat (b + 2) (b + 1)), fval (r.mat (b + 2) (b + 2))] := by
  simp [RSol.block, htri]

/-- the hypotheses of `readers_exact` are satisfiable (`rdemoV`: velocities, `U`, latitude
`-0 40 12.4`), so e.g. the latitude read back is negative with 0 degrees -/
example : readSites (render rdemoV.toSol) = .ok rdemoV.expectedSites :=
  (readers_exact rdemoV rdemoV_wf rdemoV_fieldsOk).2.2

example : (rdemoV.expectedSites.map (fun x => (x.lat.positive, x.lat.degree, x.lat.minute))) = [(false, 0, 40)] := by
  decide +kernel

/-! ## closure of well-formedness, composition of edits -/

/-- `Sol.wf` is closed under `removeStns` (every removal list, every valid clock) … -/
theorem wf_closed_removeStns {s : Sol} (hwf : s.wf = true) (sites : List Str) {c : Clock} (hc : c.Valid) :
    (Spec.removeStns s sites c).wf = true := wf_removeStns hwf sites hc

/-- … and under `removeVel` -/
theorem wf_closed_removeVel {s : Sol} (hwf : s.wf = true) (hv : s.vel = true) {c : Clock} (hc : c.Valid) :
    (Spec.removeVel s c).wf = true := wf_removeVel hwf hv hc

/-- so the output of `remove_stns_sinex` is again in the domain of all theorems: e.g. it can be
edited again, and the second edit is again exact -/
theorem remove_stns_twice {s : Sol} (hwf : s.wf = true) {c1 c2 : Clock} (hc1 : c1.Valid) (hc2 : c2.Valid)
    {A B : List Str} (hA : "SOLU".toList ∉ A ∧ "CODE".toList ∉ A) (hB : "SOLU".toList ∉ B ∧ "CODE".toList ∉ B) :
    Sinex.removeStns (render s) A c1 = .ok (unlines (render (Spec.removeStns s A c1))) ∧
    Sinex.removeStns (render (Spec.removeStns s A c1)) B c2
      = .ok (unlines (render (Spec.removeStns (Spec.removeStns s A c1) B c2))) :=
  ⟨refinement_remove_stns hwf hc1 hA.1 hA.2,
    refinement_remove_stns (wf_removeStns hwf A hc1) hc2 hB.1 hB.2⟩

/-- **edits_compose.**  Removing the stations `A` and then, from the file written, the stations
`B` yields the same text as removing `A ++ B` at once — header (stamp of the last edit, count),
SITE/ID, SOLUTION/EPOCHS, SOLUTION/ESTIMATE and SOLUTION/MATRIX_ESTIMATE blocks are identical —
except that the comment block of the two-step result also carries the `File created` line of the
first step. -/
theorem edits_compose {s : Sol} (hwf : s.wf = true) {c1 c2 : Clock} (hc1 : c1.Valid) (hc2 : c2.Valid)
    {A B : List Str} (hA : "SOLU".toList ∉ A ∧ "CODE".toList ∉ A) (hB : "SOLU".toList ∉ B ∧ "CODE".toList ∉ B) :
    ∃ t1 t2 t3 : Sol,
      Sinex.removeStns (render s) A c1 = .ok (unlines (render t1)) ∧
      Sinex.removeStns (render t1) B c2 = .ok (unlines (render t2)) ∧
      Sinex.removeStns (render s) (A ++ B) c2 = .ok (unlines (render t3)) ∧
      t2.wf = true ∧ t3.wf = true ∧
      headerLine t2 = headerLine t3 ∧ siteBlock t2 = siteBlock t3 ∧ epochBlock t2 = epochBlock t3 ∧
      estBlock t2 = estBlock t3 ∧ matBlock t2 = matBlock t3 ∧
      t2.comments = s.comments ++ [createdLine c1, createdLine c2] ∧
      t3.comments = s.comments ++ [createdLine c2] := by
  have hAB : "SOLU".toList ∉ A ++ B ∧ "CODE".toList ∉ A ++ B := by
    simp only [List.mem_append, not_or]
    exact ⟨⟨hA.1, hB.1⟩, ⟨hA.2, hB.2⟩⟩
  obtain ⟨h1, h2, h3, h4, h5, h6, h7, h8, h9, h10, h11⟩ := removeStns_compose s A B c1 c2
  have hw1 := wf_removeStns hwf A hc1
  have hparams : (Spec.removeStns (Spec.removeStns s A c1) B c2).params = (Spec.removeStns s (A ++ B) c2).params := by
    simp only [Sol.params, h2]
  have hn : (Spec.removeStns (Spec.removeStns s A c1) B c2).n = (Spec.removeStns s (A ++ B) c2).n := by
    simp only [Sol.n, hparams]
  refine ⟨_, _, _, refinement_remove_stns hwf hc1 hA.1 hA.2, refinement_remove_stns hw1 hc2 hB.1 hB.2,
    refinement_remove_stns hwf hc2 hAB.1 hAB.2, wf_removeStns hw1 B hc2, wf_removeStns hwf (A ++ B) hc2,
    ?_, ?_, ?_, ?_, ?_, h9, h10⟩
  · simp only [headerLine, h3, h4, h5, h6, h7, hn]
  · simp only [siteBlock, h1]
  · simp only [epochBlock, h2]
  · simp only [estBlock, hparams]
  · have hm := matLines_congr hn h8 (fun a b ha hb => h11 a b (hn ▸ ha) (hn ▸ hb))
    simp only [matBlock, matBlockOf, hm, h8]

end GeodeVerif.C18
