import GeodeVerif.Proofs.C10
import Mathlib.Analysis.SpecialFunctions.Trigonometric.Arctan
/-!
# C10 — on a sphere the reported scale factor and convergence ARE those of the exact projection

"…the scale factor equals the local length ratio of the exact projection … and the convergence equals the
angle between grid north and the projected meridian…": on an ellipsoid the exact values need elliptic
functions (decided by search).  On the degenerate family `e² = 0`, `n = 0`, `A = a` (a sphere) the exact
transverse Mercator has the elementary scale `k = k₀/√(1 − cos²φ sin²ω)` and convergence
`γ = arctan (sin φ · tan ω)`, and the clause is a theorem about the regenerated `psfandgridconv`:

* `pS_sphere`, `qS_sphere` — with all α = 0 the series factor is `p = 1`, `q = 0`;
* `psf_sphere` — the scale factor is exactly `k₀/√(1 − cos²φ sin²ω)`;
* `conv_sphere` — the convergence is `±|arctan (sin φ tan ω)|` in degrees, with the sign rule of `conv_sign`;
* `geo2grid_sphere_psf_conv` — what `geo2grid` returns in positions 5 and 6 on a sphere (it passes
  `χ = confLat φ = φ` there).
-/
set_option linter.unusedVariables false
noncomputable section
namespace GeodeVerif.C10
open PyR GenR.Convert GenR.Constants
open scoped Classical

theorem alpha_sphere (ell : Ellipsoid) (hn : ell.n = 0) : alpha_coeff ell = (0, 0, 0, 0, 0, 0, 0, 0) := by
  unfold alpha_coeff
  simp [hn, PyR.pown]

theorem rect_radius_sphere (ell : Ellipsoid) (hinv : 1 / ell.inversef = 0) : rect_radius ell = ell.semimaj := by
  unfold rect_radius
  simp only [PyR.pown, PyR.pyfloat, hinv]
  norm_num

theorem coef_zero (k : ℕ) : coef (0, 0, 0, 0, 0, 0, 0, 0) k = 0 := by
  unfold coef; split <;> rfl

theorem pS_sphere (ξ η : ℝ) : pS (0, 0, 0, 0, 0, 0, 0, 0) ξ η = 1 := by
  unfold pS; simp [coef_zero]

theorem qS_sphere (ξ η : ℝ) : qS (0, 0, 0, 0, 0, 0, 0, 0) ξ η = 0 := by
  unfold qS; simp [coef_zero]

theorem confLat_sphere (ell : Ellipsoid) (he : ell.ecc1 = 0) (φ : ℝ)
    (h1 : -(Real.pi / 2) < φ) (h2 : φ < Real.pi / 2) : confLat ell φ = φ := by
  unfold confLat
  simp only [he]
  simp
  exact Real.arctan_tan h1 h2

/-- **scale factor on the sphere**: exactly `k₀/√(1 − cos²φ sin²ω)` -/
theorem psf_sphere (ξ η lat lon cm : ℝ) (ell : Ellipsoid) (prj : Projection)
    (hn : ell.n = 0) (hinv : 1 / ell.inversef = 0) (hsq : ell.ecc1sq = 0) (ha : ell.semimaj ≠ 0)
    (hφ : 0 < Real.cos (radians lat)) :
    (psfandgridconv ξ η lat lon cm (radians lat) ell prj).1 =
      prj.cmscale / Real.sqrt (1 - Real.cos (radians lat) ^ 2 * Real.sin (radians (lon - cm)) ^ 2) := by
  rw [psf_unfold]
  simp only [psfExpr, alpha_sphere ell hn, pS_sphere, qS_sphere, rect_radius_sphere ell hinv, hsq]
  set φ := radians lat
  set ω := radians (lon - cm)
  have h1 := Real.inv_sqrt_one_add_tan_sq hφ
  have e : Real.tan φ ^ 2 + Real.cos ω ^ 2
      = (1 - Real.cos φ ^ 2 * Real.sin ω ^ 2) / Real.cos φ ^ 2 := by
    rw [Real.tan_eq_sin_div_cos]
    have := Real.sin_sq_add_cos_sq φ
    have := Real.sin_sq_add_cos_sq ω
    field_simp
    nlinarith
  have hs : Real.sqrt (1 + Real.tan φ ^ 2) = 1 / Real.cos φ := by
    rw [← h1, one_div, inv_inv]
  rw [e, Real.sqrt_div' _ (by positivity), Real.sqrt_sq hφ.le, hs]
  simp only [div_self ha, zero_mul, sub_zero, Real.sqrt_one, mul_one, zero_pow, ne_eq, OfNat.ofNat_ne_zero,
    not_false_eq_true, zero_add, one_pow]
  field_simp

/-- **convergence on the sphere**: `±|arctan (sin φ · tan ω)|` in degrees, negative exactly in the quadrants
(west, south) and (east, north) -/
theorem conv_sphere (ξ η lat lon cm : ℝ) (ell : Ellipsoid) (prj : Projection)
    (hn : ell.n = 0) (hφ : |radians lat| < Real.pi / 2) :
    (psfandgridconv ξ η lat lon cm (radians lat) ell prj).2 =
      (if (westOfCM lon cm ∧ lat < 0) ∨ (eastOfCM lon cm ∧ lat > 0) then -1 else 1) *
        degrees |Real.arctan (Real.sin (radians lat) * Real.tan (radians (lon - cm)))| := by
  have hm : convMag ξ η (radians (lon - cm)) (radians lat) ell
      = degrees |Real.arctan (Real.sin (radians lat) * Real.tan (radians (lon - cm)))| := by
    unfold convMag
    rw [alpha_sphere ell hn, qS_sphere, pS_sphere, conv_terms _ _ hφ]
    simp
  obtain ⟨h1, h2, _⟩ := conv_sign ξ η lat lon cm (radians lat) ell prj
  by_cases hc : (westOfCM lon cm ∧ lat < 0) ∨ (eastOfCM lon cm ∧ lat > 0)
  · rw [(h1 hc).1, if_pos hc, hm]; ring
  · rw [(h2 hc).1, if_neg hc, hm]; ring

/-- what `geo2grid` reports on a sphere: the exact spherical scale (rounded to 8 decimals) and convergence -/
theorem geo2grid_sphere_psf_conv (lat lon zone : ℝ) (ell : Ellipsoid) (prj : Projection)
    (r : String × ℝ × ℝ × ℝ × ℝ × ℝ) (h : geo2grid lat lon zone ell prj = .ok r)
    (he : ell.ecc1 = 0) (hsq : ell.ecc1sq = 0) (hn : ell.n = 0) (hinv : 1 / ell.inversef = 0)
    (ha : ell.semimaj ≠ 0) (hlat : |lat| < 90) :
    let cm := centralMeridian prj r.2.1
    r.2.2.2.2.1 = pround 8 (prj.cmscale /
        Real.sqrt (1 - Real.cos (radians lat) ^ 2 * Real.sin (radians (lon - cm)) ^ 2)) ∧
    r.2.2.2.2.2 =
      (if (westOfCM lon cm ∧ lat < 0) ∨ (eastOfCM lon cm ∧ lat > 0) then -1 else 1) *
        degrees |Real.arctan (Real.sin (radians lat) * Real.tan (radians (lon - cm)))| := by
  intro cm
  have hp := Real.pi_pos
  obtain ⟨l1, l2⟩ := abs_lt.mp hlat
  have hφ1 : -(Real.pi / 2) < radians lat := by
    show -(Real.pi / 2) < lat * (Real.pi / 180); nlinarith
  have hφ2 : radians lat < Real.pi / 2 := by
    show lat * (Real.pi / 180) < Real.pi / 2; nlinarith
  have hdeg : degrees (radians lat) = lat := by
    show lat * (Real.pi / 180) * (180 / Real.pi) = lat
    have := Real.pi_ne_zero
    field_simp
  have hcs := geo2grid_call_site lat lon zone ell prj r h
  simp only [confLat_sphere ell he _ hφ1 hφ2, hdeg] at hcs
  rw [hcs]
  refine ⟨?_, ?_⟩
  · show pround 8 _ = _
    rw [psf_sphere _ _ lat lon cm ell prj hn hinv hsq ha (Real.cos_pos_of_mem_Ioo ⟨hφ1, hφ2⟩)]
  · show (psfandgridconv _ _ lat lon cm (radians lat) ell prj).2 = _
    exact conv_sphere _ _ lat lon cm ell prj hn (abs_lt.mpr ⟨hφ1, hφ2⟩)

/-- the hypotheses are satisfiable: a sphere record, the equator -/
example : (0 : ℝ) < Real.cos (radians 0) ∧ |radians 0| < Real.pi / 2 ∧
    (({ semimaj := 6371000, inversef := 0, f := 0, semimin := 6371000, ecc1sq := 0, ecc2sq := 0, ecc1 := 0,
        n := 0, n2 := 0, meanradius := 6371000 } : Ellipsoid).semimaj ≠ 0) := by
  refine ⟨by simp [radians], by simp [radians, Real.pi_pos], by norm_num⟩

end GeodeVerif.C10
