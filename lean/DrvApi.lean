/-! Stub driver root for the Api hand model; replaced by the model's line-protocol driver. -/
def main : IO Unit := IO.println "stub"
