import GeodeVerif.Model.Api
import GeodeVerif.Num.Wire
/-!
# Line-protocol driver for the HTTP-API hand model (`apidrv`)

Runs `Api.libF` — the generic handlers of `Model/Api.lean` instantiated with the GENERATED
`GenF.Geodesy.vincinv/vincdir` (GRS80) and the `Float` angle model's `hp2dec`/`dec2hp`.
One request per line, one response per line; numbers as 16 hex digits of their binary64 pattern.

Requests
* `vincinv <from> <to> <lat1> <lon1> <lat2> <lon2>`
* `vincdir <from> <to> <lat1> <lon1> <azimuth1to2> <ell_dist>`
  with `<from>`, `<to>` = `-` (parameter absent) or `s:<text>`; numbers `<hex>` or `none` (absent)
* `routes`

Responses: `OK <key>=<hex> <key>=<hex> <key>=<hex>` (the dictionary given to `jsonify`, source order),
`ERR:<kind>`, or the routes separated by blanks.
-/
open Api Wire

def pTy (s : String) : Option String := if s == "-" then none else some (pStr s)

def wRes : Except Err (List (String × Float)) → String
  | .ok l => "OK " ++ " ".intercalate (l.map fun (k, v) => k ++ "=" ++ PyF.hex v)
  | .error e => "ERR:" ++ e.name

def handle (toks : List String) : String :=
  match toks with
  | [] => "empty"
  | ["vincinv", f, t, a, b, c, d] =>
    wRes (handleVincinv libF { from_angle_type := pTy f, to_angle_type := pTy t,
                               lat1 := pOpt a, lon1 := pOpt b, lat2 := pOpt c, lon2 := pOpt d })
  | ["vincdir", f, t, a, b, c, d] =>
    wRes (handleVincdir libF { from_angle_type := pTy f, to_angle_type := pTy t,
                               lat1 := pOpt a, lon1 := pOpt b, azimuth1to2 := pOpt c, ell_dist := pOpt d })
  | ["routes"] => " ".intercalate listRoutes
  | _ => "BAD request"

partial def loop (h : IO.FS.Stream) (out : IO.FS.Stream) : IO Unit := do
  let line ← h.getLine
  if line.isEmpty then return ()
  let toks := (line.trimAscii.toString.splitOn " ").filter (· ≠ "")
  out.putStrLn (handle toks)
  loop h out

def main : IO Unit := do
  let out ← IO.getStdout
  loop (← IO.getStdin) out
  out.flush
