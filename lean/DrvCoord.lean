import GeodeVerif.Model.Coord
import GeodeVerif.Num.Wire
/-!
# Line-protocol driver for the coordinate-object hand model (`crddrv`)

Runs `Crd.convF` — the generic model of `Model/Coord.lean` instantiated with the GENERATED
`GenF.Convert.*` functions and the `Float` angle model. One request per line, one response per line;
numbers travel as the 16 hex digits of their binary64 pattern; segments are separated by ` | `.

Objects (the `vars()` of the Python object, in field order)
* `CART <x> <y> <z> <n|none>`
* `GEO <latlon> <latlon> <ell|none> <orth|none>` with `<latlon>` = `FLT <hex>` | `DEC <hex>` |
  `HP <hex>` | `GON <hex>` | `DMS <0|1> <deg> <min> <hex>` | `DDM <0|1> <deg> <hex>`
* `TM <zone> <east> <north> <ell|none> <orth|none> <0|1 hemi_north> <projection>`; the projection is
  `utm`/`isg` (or `-` = argument omitted) in requests and the `pyid` (1 = utm, 2 = isg) in responses

Requests
* `chain <object> | <op> | <op> …` — construct the object (through the class constructor), then apply
  the calls left to right. Ops: `cart <e>`, `geo <e> <nt>`, `tm <e> <p>`, `notation <nt>`,
  `round <n|none>`; `<e>` = `-` (omitted) | `grs80` | `wgs84` | `ans` | `intl24`; `<p>` = `-` | `utm` |
  `isg`; `<nt>` = `-` | `float` | `DEC` | `HP` | `GON` | `DMS` | `DDM`.
  Response: the constructed object and every intermediate object, ` | `-separated; the first
  exception ends the list as `ERR:<kind>`.
* `eq <object> | <object>` — `a == b`: `BOOL 0|1` or `ERR:<kind>`.
-/
open Crd Ang Py Wire
open GenF.Constants (Ellipsoid Projection)

abbrev C := Coord Float Projection

def wOpt : Option Float → String
  | none => "none"
  | some x => PyF.hex x

def wObj : AngleObj Float → String
  | .decA x => "DEC " ++ PyF.hex x
  | .hpA x => "HP " ++ PyF.hex x
  | .gonA x => "GON " ++ PyF.hex x
  | .dmsA s => s!"DMS {if s.positive then 1 else 0} {s.degree} {s.minute} {PyF.hex s.second}"
  | .ddmA s => s!"DDM {if s.positive then 1 else 0} {s.degree} {PyF.hex s.minute}"

def wLatLon : LatLon Float → String
  | .flt x => "FLT " ++ PyF.hex x
  | .obj o => wObj o

def wCoord : C → String
  | .cart c => s!"CART {PyF.hex c.xaxis} {PyF.hex c.yaxis} {PyF.hex c.zaxis} {wOpt c.nval}"
  | .geo g => s!"GEO {wLatLon g.lat} {wLatLon g.lon} {wOpt g.ell_ht} {wOpt g.orth_ht}"
  | .tm t => s!"TM {t.zone} {PyF.hex t.east} {PyF.hex t.north} {wOpt t.ell_ht} {wOpt t.orth_ht} " ++
      s!"{if t.hemi_north then 1 else 0} {t.projection.pyid}"

def pLatLon : List String → Option (LatLon Float × List String)
  | "FLT" :: x :: t => some (.flt (pNum x), t)
  | "DEC" :: x :: t => some (.obj (.decA (pNum x)), t)
  | "HP" :: x :: t => some (.obj (.hpA (pNum x)), t)
  | "GON" :: x :: t => some (.obj (.gonA (pNum x)), t)
  | "DMS" :: p :: d :: m :: s :: t =>
    some (.obj (.dmsA { positive := p == "1", degree := pNat d, minute := pNat m, second := pNum s }), t)
  | "DDM" :: p :: d :: m :: t =>
    some (.obj (.ddmA { positive := p == "1", degree := pNat d, minute := pNum m }), t)
  | _ => none

def pEll : String → Option (Option Ellipsoid)
  | "-" => some none
  | "grs80" => some (some GenF.Constants.grs80)
  | "wgs84" => some (some GenF.Constants.wgs84)
  | "ans" => some (some GenF.Constants.ans)
  | "intl24" => some (some GenF.Constants.intl24)
  | _ => none

def pPrj : String → Option (Option Projection)
  | "-" => some none
  | "utm" => some (some GenF.Constants.utm)
  | "isg" => some (some GenF.Constants.isg)
  | _ => none

def pNt : String → Option (Option Notation)
  | "-" => some none
  | "float" => some (some .flt)
  | "DEC" => some (some (.cls .DEC))
  | "HP" => some (some (.cls .HP))
  | "GON" => some (some (.cls .GON))
  | "DMS" => some (some (.cls .DMS))
  | "DDM" => some (some (.cls .DDM))
  | _ => none

/-- construct an object through the class constructor -/
def pCoord : List String → Option (Except PyErr C)
  | ["CART", x, y, z, n] => some (.ok (.cart (CoordCart.new (pNum x) (pNum y) (pNum z) (pOpt n))))
  | "GEO" :: rest => do
    let (lat, r) ← pLatLon rest
    let (lon, r) ← pLatLon r
    match r with
    | [ell, orth] => some ((CoordGeo.new lat lon (pOpt ell) (pOpt orth)).map .geo)
    | _ => none
  | ["TM", zone, east, north, ell, orth, hemi, prj] => do
    let p ← pPrj prj
    some (.ok (.tm (CoordTM.new convF (zone.toInt?.getD 0) (pNum east) (pNum north) (pOpt ell) (pOpt orth)
      (hemi == "1") p)))
  | _ => none

/-- driver-level call: a conversion or `round` -/
inductive Call where
  | op (o : Op Ellipsoid Projection)
  | round (n : Option Nat)

def pCall : List String → Option Call
  | ["cart", e] => do let e ← pEll e; some (.op (.cart e))
  | ["geo", e, nt] => do let e ← pEll e; let nt ← pNt nt; some (.op (.geo e nt))
  | ["tm", e, p] => do let e ← pEll e; let p ← pPrj p; some (.op (.tm e p))
  | ["notation", nt] => do let nt ← pNt nt; (nt.map fun n => .op (.nota n))
  | ["round", n] => some (.round (if n == "none" then none else some (pNat n)))
  | _ => none

def applyCall (c : C) : Call → Except PyErr C
  | .op o => c.apply convF o
  | .round n => c.round n

/-- split a token list at the `|` tokens -/
def segments (ts : List String) : List (List String) :=
  let rec go (ts : List String) (cur : List String) (acc : List (List String)) : List (List String) :=
    match ts with
    | [] => (cur.reverse :: acc).reverse
    | "|" :: t => go t [] (cur.reverse :: acc)
    | x :: t => go t (x :: cur) acc
  go ts [] []

def doChain (ts : List String) : String :=
  match segments ts with
  | [] => "BAD chain"
  | o :: calls =>
    match pCoord o, calls.mapM pCall with
    | some (.error e), some _ => "ERR:" ++ e.name
    | some (.ok c), some cs =>
      let rec go (cs : List Call) (c : C) (acc : List String) : List String :=
        match cs with
        | [] => acc.reverse
        | k :: t =>
          match applyCall c k with
          | .ok c' => go t c' (wCoord c' :: acc)
          | .error e => (("ERR:" ++ e.name) :: acc).reverse
      " | ".intercalate (go cs c [wCoord c])
    | _, _ => "BAD chain"

def doEq (ts : List String) : String :=
  match segments ts with
  | [a, b] =>
    match pCoord a, pCoord b with
    | some (.ok x), some (.ok y) =>
      (match Coord.eq (fun (p q : Projection) => p.pyid == q.pyid) x y with
       | .ok r => if r then "BOOL 1" else "BOOL 0"
       | .error e => "ERR:" ++ e.name)
    | _, _ => "BAD eq"
  | _ => "BAD eq"

def handle (toks : List String) : String :=
  match toks with
  | [] => "empty"
  | "chain" :: rest => doChain rest
  | "eq" :: rest => doEq rest
  | _ => "BAD request"

partial def loop (h : IO.FS.Stream) (out : IO.FS.Stream) : IO Unit := do
  let line ← h.getLine
  if line.isEmpty then return ()
  let toks := (line.trimAscii.toString.splitOn " ").filter (· ≠ "")
  out.putStrLn (handle toks)
  loop h out

def main : IO Unit := do
  let out ← IO.getStdout
  loop (← IO.getStdin) out
  out.flush
