/-! Stub driver root for the Coord hand model; replaced by the model's line-protocol driver. -/
def main : IO Unit := IO.println "stub"
