import GeodeVerif.Model.Ntv2
import GeodeVerif.Num.Wire
/-!
# `ntvdrv` — line-protocol driver of the NTv2 hand model

Requests (one per line, tokens separated by one space; floats are the 16 hex digits of the binary64
pattern, strings travel as `h:<hex of the UTF-8 bytes>`):

* `load <hex bytes of the .gsb file>`      → `OK n:<size>` (the file is parsed by `header`/…)
* `header`                                 → `OK <grid fields> n:<k> <sub-grid fields>…` | `ERR:<kind>`
* `interp <lat> <lon> <method> [o:<hexname>,…]` (optional: iteration order of the candidate set) → `OK f1 f2 f3 f4` | `OK none none none none` | `ERR:<kind>`
* `cell <lat> <lon> <method>`              → `OK h:<name> i:<row> i:<col> i:<nrows> i:<ncols> b:<bicubic used> n:<first node byte>` | `OK none` | `ERR:<kind>`
* `ntv2_2d <lat> <lon> <fwd 0|1> <method> <isgrid 0|1> [o:…]` → `OK lat lon` | `ERR:<kind>`
-/
open Ntv2 Wire

def hexNib (c : UInt8) : UInt8 :=
  if 48 ≤ c && c ≤ 57 then c - 48 else if 97 ≤ c && c ≤ 102 then c - 87
  else if 65 ≤ c && c ≤ 70 then c - 55 else 0

def parseHexBytes (s : String) : ByteArray := Id.run do
  let u := s.toUTF8
  let n := u.size / 2
  let mut out := ByteArray.emptyWithCapacity n
  for i in [0:n] do
    out := out.push (hexNib (u.get! (2 * i)) * 16 + hexNib (u.get! (2 * i + 1)))
  return out

def hexDigit (n : Nat) : Char := if n < 10 then Char.ofNat (48 + n) else Char.ofNat (87 + n)
def wStr (s : String) : String :=
  "h:" ++ String.ofList (s.toUTF8.toList.flatMap (fun b => [hexDigit (b.toNat / 16), hexDigit (b.toNat % 16)]))
def wInt (i : Int) : String := "i:" ++ toString i
def wErr (e : Err) : String := "ERR:" ++ e.name

def wSub (sg : SubGrid Float) : String :=
  " ".intercalate [wStr sg.subName, wStr sg.parent, wStr sg.created, wStr sg.updated,
    wire sg.sLat, wire sg.nLat, wire sg.eLong, wire sg.wLong, wire sg.latInc, wire sg.longInc,
    wire sg.gsCount]

def wGrid (g : Grid Float) : String :=
  " ".intercalate ([wire g.numOrec, wire g.numSrec, wire g.numFile, wStr g.gsType, wStr g.version,
    wStr g.systemF, wStr g.systemT, wire g.majorF, wire g.minorF, wire g.majorT, wire g.minorT,
    wire g.subgrids.length] ++ g.subgrids.map wSub)

def wNode (n : Node) : String := " ".intercalate [wire n.1, wire n.2.1, wire n.2.2.1, wire n.2.2.2]

structure St where
  bytes : ByteArray
  grid : Except Err (Grid Float)

def unHex (s : String) : String :=
  match String.fromUTF8? (parseHexBytes s) with
  | some t => t
  | none => ""

/-- `o:<hexname>,<hexname>,…` — the iteration order of the Python `set` of candidate names, as
observed by the harness; candidates not listed keep their order at the end -/
def permOf (tok : String) : List (SubGrid Float) → List (SubGrid Float) :=
  let names := (((tok.drop 2).toString.splitOn ",").filter (· ≠ "")).map unHex
  fun cands =>
    names.flatMap (fun n => cands.filter (fun sg => sg.subName == n)) ++
      cands.filter (fun sg => !(names.contains sg.subName))

def handle (st : St) (toks : List String) : St × String :=
  match toks with
  | ["load", hx] =>
    let b := parseHexBytes hx
    ({ bytes := b, grid := readNtv2File b }, "OK " ++ wire b.size)
  | ["load"] =>
    let b := ByteArray.empty
    ({ bytes := b, grid := readNtv2File b }, "OK " ++ wire b.size)
  | ["header"] =>
    (st, match st.grid with
      | .error e => wErr e
      | .ok g => "OK " ++ wGrid g)
  | ["interp", la, lo, m, o] =>
    (st, match st.grid with
      | .error e => wErr e
      | .ok g => match interpolate st.bytes g (pNum la) (pNum lo) m (permOf o) with
        | .error e => wErr e
        | .ok none => "OK none none none none"
        | .ok (some n) => "OK " ++ wNode n)
  | ["interp", la, lo, m] =>
    (st, match st.grid with
      | .error e => wErr e
      | .ok g => match interpolate st.bytes g (pNum la) (pNum lo) m with
        | .error e => wErr e
        | .ok none => "OK none none none none"
        | .ok (some n) => "OK " ++ wNode n)
  | "cell" :: la :: lo :: m :: _ =>
    (st, match st.grid with
      | .error e => wErr e
      | .ok g => match plan g (pNum la) (pNum lo) m (match toks with | [_, _, _, _, o] => permOf o | _ => id) with
        | .error e => wErr e
        | .ok none => "OK none"
        | .ok (some p) => "OK " ++ " ".intercalate [wStr p.sg.subName, wInt p.cell.row, wInt p.cell.col,
            wInt p.cell.numRows, wInt p.cell.numCols, wire p.cell.bicubic, wire p.startByte])
  | "ntv2_2d" :: la :: lo :: fwd :: m :: isg :: rest =>
    (st, match st.grid with
      | .error e => wErr e
      | .ok g => match ntv2_2d st.bytes g (isg == "1") (pNum la) (pNum lo) (fwd == "1") m
          (match rest with | [o] => permOf o | _ => id) with
        | .error e => wErr e
        | .ok (a, b) => "OK " ++ wire a ++ " " ++ wire b)
  | _ => (st, "ERR:bad-request")

partial def loop (h out : IO.FS.Stream) (st : St) : IO Unit := do
  let line ← h.getLine
  if line.isEmpty then return ()
  let toks := (line.trimAscii.toString.splitOn " ").filter (· ≠ "")
  let (st', resp) := handle st toks
  out.putStrLn resp
  loop h out st'

def main : IO Unit := do
  let out ← IO.getStdout
  loop (← IO.getStdin) out { bytes := ByteArray.empty, grid := .error .ValueError }
  out.flush
