/-! Stub driver root for the Ntv2 hand model; replaced by the model's line-protocol driver. -/
def main : IO Unit := IO.println "stub"
