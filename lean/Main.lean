import GeodeVerif.GenF.Dispatch
/-! Line-protocol driver: one request per line `Name tok tok …`, one response per line. -/

partial def loop (h : IO.FS.Stream) (out : IO.FS.Stream) : IO Unit := do
  let line ← h.getLine
  if line.isEmpty then return ()
  let toks := (line.trimAscii.toString.splitOn " ").filter (· ≠ "")
  match toks with
  | [] => out.putStrLn "empty"
  | name :: args => out.putStrLn (GenF.dispatch name args.toArray)
  loop h out

def main : IO Unit := do
  let out ← IO.getStdout
  loop (← IO.getStdin) out
  out.flush
