#!/usr/bin/env python3
"""
./check <Cxx> <quick|thorough>     decide one property (REGEN -> PROVE -> AUDIT -> TIE -> SEARCH -> VERDICT)
./check --setup                    build everything from files on disk (offline)
./check --replay <file>            re-run the input recorded in a replay file

Exit 0: property held on everything explored (KNOWN-FINDING lines allowed)
Exit 1: `VIOLATION property=<id> replay=<path>[ no-failing-input-found]`
Exit 2: infrastructure failure (never prints VIOLATION)
"""
import fcntl
import hashlib
import json
import os
import re
import subprocess
import sys
import time

VERIF = os.path.dirname(os.path.abspath(__file__))
LEAN = os.path.join(VERIF, 'lean')
WORK = os.path.join(VERIF, '.work')
REPO = os.environ.get('VERIF_REPO', '/repo')   # scratch copies are used only when scoring seeded changes
PY = '/venv/bin/python'
PYVT = 'python3-vt'
STD_AXIOMS = {'propext', 'Classical.choice', 'Quot.sound'}
NATIVE_AXIOMS = {'Lean.ofReduceBool', 'Lean.trustCompiler'}

sys.path.insert(0, os.path.join(VERIF, 'props'))


def log(*a):
    print(*a, flush=True)


def run(cmd, timeout=None, cwd=None, env=None):
    e = dict(os.environ)
    e.setdefault('GEODEPY_VERIF', '1')
    if env:
        e.update(env)
    try:
        p = subprocess.run(cmd, cwd=cwd, env=e, capture_output=True, text=True, timeout=timeout)
        return p.returncode, p.stdout, p.stderr
    except subprocess.TimeoutExpired as ex:
        return 124, (ex.stdout or b'').decode() if isinstance(ex.stdout, bytes) else (ex.stdout or ''), 'TIMEOUT'


class Lock:
    def __enter__(self):
        os.makedirs(WORK, exist_ok=True)
        self.f = open(os.path.join(WORK, 'lake.lock'), 'w')
        fcntl.flock(self.f, fcntl.LOCK_EX)
        return self

    def __exit__(self, *a):
        fcntl.flock(self.f, fcntl.LOCK_UN)
        self.f.close()


def regen(skip=()):
    """regenerate the Lean modules from REPO's working tree. Returns a status dict:
    fatal: message when nothing could be generated; failed: {'Module.fn': message} for functions left out (any
    arithmetic) — only properties that depend on such a function are affected; effects: (ok, message) for the C09 table"""
    cmd = ['python3', os.path.join(VERIF, 'translator', 'py2lean.py'), '--repo', REPO]
    if skip:
        cmd += ['--skip', ','.join(sorted(skip))]
    rc, out, err = run(cmd, timeout=300)
    st = {'fatal': None, 'failed': {}, 'effects': (True, ''), 'api': (True, ''), 'coord': (True, ''), 'ntv2d': (True, ''), 'angles': (True, '')}
    if rc == 3:
        st['fatal'] = out.strip()
        return st
    if rc != 0:
        raise Infra(f'translator crashed rc={rc}: {err[-2000:]}')
    try:
        rep = json.loads(out.strip().split('\n')[-1])
    except ValueError:
        raise Infra(f'translator output not understood: {out[-500:]}')
    for arith, d in rep.get('failed', {}).items():
        for k, msg in d.items():
            st['failed'].setdefault(k, msg)
    # static effect table (C09), regenerated from the same working tree
    rc2, out2, err2 = run(['python3', os.path.join(VERIF, 'translator', 'effects.py'), '--repo', REPO, '--out',
                           os.path.join(LEAN, 'GeodeVerif', 'GenF', 'Effects.lean')], timeout=300)
    if rc2 == 3:
        st['effects'] = (False, (out2 + err2).strip()[-600:])
    elif rc2 != 0:
        raise Infra(f'effects.py crashed rc={rc2}: {err2[-2000:]}')
    # the HTTP application (C20), regenerated from api/app.py
    rc3, out3, err3 = run(['python3', os.path.join(VERIF, 'translator', 'api2lean.py'), '--repo', REPO, '--out',
                           os.path.join(LEAN, 'GeodeVerif', 'GenF', 'Api.lean')], timeout=120)
    if rc3 == 3:
        st['api'] = (False, out3.strip()[-600:])
    elif rc3 != 0:
        st['api'] = (False, f'api2lean.py crashed rc={rc3}: {err3[-400:]}')
    # the coordinate classes (C15), regenerated from geodepy/coord.py
    rc4, out4, err4 = run(['python3', os.path.join(VERIF, 'translator', 'coord2lean.py'), '--repo', REPO, '--out',
                           os.path.join(LEAN, 'GeodeVerif', 'GenF', 'Coord.lean')], timeout=120)
    if rc4 == 3:
        st['coord'] = (False, out4.strip()[-600:])
    elif rc4 != 0:
        st['coord'] = (False, f'coord2lean.py crashed rc={rc4}: {err4[-400:]}')
    # transform.ntv2_2d (C17), regenerated from geodepy/transform.py
    rc5, out5, err5 = run(['python3', os.path.join(VERIF, 'translator', 'ntv2d2lean.py'), '--repo', REPO, '--out',
                           os.path.join(LEAN, 'GeodeVerif', 'GenF', 'Ntv2d.lean')], timeout=120)
    if rc5 == 3:
        st['ntv2d'] = (False, out5.strip()[-600:])
    elif rc5 != 0:
        st['ntv2d'] = (False, f'ntv2d2lean.py crashed rc={rc5}: {err5[-400:]}')
    # the methods of the angle classes (C08, C12), regenerated from geodepy/angles.py
    rc6, out6, err6 = run(['python3', os.path.join(VERIF, 'translator', 'angles2lean.py'), '--repo', REPO, '--out',
                           os.path.join(LEAN, 'GeodeVerif', 'GenF', 'AnglesCls.lean')], timeout=120)
    if rc6 == 3:
        st['angles'] = (False, out6.strip()[-600:])
    elif rc6 != 0:
        st['angles'] = (False, f'angles2lean.py crashed rc={rc6}: {err6[-400:]}')
    return st


def base_fn(name):
    """'Statistics.vcv_cart2local_33' -> 'Statistics.vcv_cart2local' (shape-specialised variants)"""
    return re.sub(r'_(33|31)$', '', name)


def gen_decl_to_skip(e):
    """a Lean error inside a generated file: the translated function it belongs to ('Module.fn'), or None"""
    m = re.search(r'Gen[FRQ]/(\w+)\.lean$', e['file'])
    if not m or not e.get('decl') or m.group(1) in ('Dispatch', 'Effects', 'Api', 'Coord', 'Ntv2d', 'NtvSel', 'AnglesCls'):
        return None
    decl = e['decl'].replace('«', '').replace('»', '')
    try:
        cfg = json.load(open(os.path.join(VERIF, 'translator', 'targets.json')))
        fns = [f for mc in cfg['modules'].values() if mc['lean'] == m.group(1) for f in mc.get('functions', [])]
    except (OSError, ValueError):
        fns = []
    cands = [f for f in fns if decl == f or decl.startswith(f + '_') or decl.startswith(f + '.')]
    if not cands:
        return None
    return f'{m.group(1)}.{max(cands, key=len)}'


class Infra(Exception):
    pass


def lake_build(targets, timeout=3000):
    rc, out, err = run(['lake', 'build'] + targets, cwd=LEAN, timeout=timeout)
    if rc == 124:
        raise Infra('lake build timed out')
    return rc == 0, out + err


def enclosing_decl(path, line):
    try:
        lines = open(path).read().split('\n')
    except OSError:
        return None
    for i in range(min(line, len(lines)) - 1, -1, -1):
        m = re.match(r'\s*(?:private |protected |noncomputable )*(theorem|lemma|def|example|instance|abbrev)\s+([^\s:({\[]+)', lines[i])
        if m:
            return m.group(2)
    return None


def parse_build_errors(text):
    errs = []
    for m in re.finditer(r'error: ([^\s:]+\.lean):(\d+):(\d+): (.*)', text):
        f, ln, col, msg = m.group(1), int(m.group(2)), int(m.group(3)), m.group(4)
        full = f if os.path.isabs(f) else os.path.join(LEAN, f)
        errs.append({'file': f, 'line': ln, 'decl': enclosing_decl(full, ln), 'message': msg[:300]})
    return errs


AUDIT_TMPL = '''import Lean
{imports}
open Lean Elab Command in
run_cmd do
  let env ← getEnv
  let mut names : Array Name := #[]
  for (n, ci) in env.constants.toList do
    if (`{ns}).isPrefixOf n && !n.isInternal then
      match ci with
      | .thmInfo _ => names := names.push n
      | _ => pure ()
  for n in names.qsort (fun a b => a.toString < b.toString) do
    let ax ← Lean.collectAxioms n
    logInfo m!"THEOREM {{n}} AXIOMS {{ax.toList}}"
'''


def audit(module, ns, more=()):
    os.makedirs(WORK, exist_ok=True)
    path = os.path.join(WORK, f'Audit_{ns.replace(".", "_")}_{os.getpid()}.lean')
    imports = '\n'.join(f'import {m}' for m in [module] + list(more))
    open(path, 'w').write(AUDIT_TMPL.format(imports=imports, ns=ns))
    rc, out, err = run(['lake', 'env', 'lean', path], cwd=LEAN, timeout=1200)
    os.remove(path)
    if rc != 0:
        raise Infra(f'axiom audit failed: {(out + err)[-1500:]}')
    thms = {}
    for m in re.finditer(r'THEOREM (\S+) AXIOMS \[(.*?)\]', out):
        thms[m.group(1)] = [a.strip() for a in m.group(2).split(',') if a.strip()]
    return thms


FORBIDDEN = re.compile(r'\bsorry\b|\badmit\b|^\s*axiom\s|native_decide|bv_decide|implemented_by|\bunsafe\s|maxHeartbeats\s+0')


def import_closure(modules):
    """the non-generated GeodeVerif source files a set of modules depends on (transitively)"""
    seen, todo = set(), list(modules)
    files = []
    while todo:
        m = todo.pop()
        if m in seen or not m.startswith('GeodeVerif.'):
            continue
        seen.add(m)
        path = os.path.join(LEAN, m.replace('.', '/') + '.lean')
        if not os.path.exists(path):
            continue
        if not any(g in m for g in ('.GenF.', '.GenR.', '.GenQ.')):
            files.append(path)
        for line in open(path).read().split('\n'):
            mm = re.match(r'\s*import\s+(GeodeVerif\.[\w.]+)', line)
            if mm:
                todo.append(mm.group(1))
    return files


def grep_forbidden(modules, allow_native_in=()):
    """forbidden tokens (outside comments) in the hand-written Lean sources the property's theorems depend on"""
    hits = []
    for p in import_closure(modules):
        incomment = False
        for i, line in enumerate(open(p).read().split('\n'), 1):
            s = line
            if incomment:
                if '-/' in s:
                    s = s.split('-/', 1)[1]
                    incomment = False
                else:
                    continue
            while '/-' in s:
                a, b = s.split('/-', 1)
                if '-/' in b:
                    s = a + b.split('-/', 1)[1]
                else:
                    s = a
                    incomment = True
                    break
            s = s.split('--', 1)[0]
            m = FORBIDDEN.search(s)
            if m:
                if 'native_decide' in m.group(0) and any(x in p for x in allow_native_in):
                    continue
                hits.append(f'{os.path.relpath(p, LEAN)}:{i}: {line.strip()[:120]}')
    return hits


def load_known():
    p = os.path.join(VERIF, 'known_findings.json')
    if not os.path.exists(p):
        return []
    return json.load(open(p)).get('findings', [])


def write_replay(pid, obj):
    d = os.path.join(VERIF, 'replays')
    os.makedirs(d, exist_ok=True)
    h = hashlib.sha1(json.dumps(obj, sort_keys=True, default=str).encode()).hexdigest()[:10]
    path = os.path.join(d, f'{pid}-{h}.json')
    json.dump(obj, open(path, 'w'), indent=1, sort_keys=True, default=str)
    return path


def run_json_tool(cmd, outpath, timeout, env=None):
    if os.path.exists(outpath):
        os.remove(outpath)
    rc, out, err = run(cmd, timeout=timeout, cwd=VERIF, env=env)
    if rc == 124:
        raise Infra(f'timeout: {" ".join(cmd)}')
    if not os.path.exists(outpath):
        raise Infra(f'tool produced no output: {" ".join(cmd)}\n{(out + err)[-3000:]}')
    return rc, json.load(open(outpath)), out + err


def check_property(pid, tier_):
    import propdefs
    t0 = time.time()
    if pid not in propdefs.PROPS:
        log(f'unknown property {pid}')
        return 2
    P = propdefs.PROPS[pid]
    seed = int(os.environ.get('VERIF_SEED', '0') or 0)
    env = {'VERIF_SEED': str(seed), 'VERIF_TIER': tier_}
    os.makedirs(WORK, exist_ok=True)
    os.makedirs(os.path.join(VERIF, 'evidence'), exist_ok=True)
    broken = []          # proof obligations / ties that no longer check
    notes = []
    cov = {}
    module = P.get('module')
    ns = P.get('namespace')
    thms = {}
    build_ok = True
    drv_ok = True

    with Lock():
        # 1. REGEN + 2. PROVE (and build the driver used by the tie). A function the translator cannot express, or
        # whose generated text does not compile, is left out (with everything that calls it) and the step is repeated:
        # only a property that needs such a function is affected by it.
        skip = set()
        needed = {base_fn(f) for f in list(P.get('tie_functions', [])) + list(P.get('gen_functions', []))}
        for attempt in range(8):
            broken = []
            build_ok = drv_ok = True
            st = regen(skip)
            if st['fatal']:
                broken.append({'kind': 'translator', 'what': st['fatal']})
                build_ok = drv_ok = False
                break
            for k, msg in sorted(st['failed'].items()):
                if k in needed:
                    broken.append({'kind': 'translator', 'what': f'{k}: {msg}'})
            if pid == 'C09':
                for k, msg in sorted(st['failed'].items()):
                    notes.append(f'not translated: {k}: {msg}')
                if not st['effects'][0]:
                    broken.append({'kind': 'translator', 'what': 'effects.py: ' + st['effects'][1]})
                    build_ok = False
            more = set()
            more_mods = list(P.get('more_proof_modules', ()))
            if P.get('needs_api') and not st['api'][0]:
                # app.py has left the translated subset: the theorems about its regenerated reading cannot be checked
                broken.append({'kind': 'translator', 'what': 'api2lean.py: ' + st['api'][1]})
                more_mods = [m for m in more_mods if m not in P.get('api_modules', ())]
            if P.get('needs_coord') and not st['coord'][0]:
                # coord.py has left the translated subset: the theorems about its regenerated reading cannot be checked
                broken.append({'kind': 'translator', 'what': 'coord2lean.py: ' + st['coord'][1]})
                more_mods = [m for m in more_mods if m not in P.get('coord_modules', ())]
            if P.get('needs_angles') and not st['angles'][0]:
                broken.append({'kind': 'translator', 'what': 'angles2lean.py: ' + st['angles'][1]})
                more_mods = [m for m in more_mods if m not in P.get('angles_modules', ())]
            if P.get('needs_ntv2d') and not st['ntv2d'][0]:
                broken.append({'kind': 'translator', 'what': 'ntv2d2lean.py: ' + st['ntv2d'][1]})
                more_mods = [m for m in more_mods if m not in P.get('ntv2d_modules', ())]
            targets = ([module] if module else []) + P.get('extra_modules', []) + more_mods
            bok, btxt = lake_build(targets) if (targets and build_ok) else (build_ok, '')
            if not bok:
                build_ok = False
                errs = parse_build_errors(btxt)
                if not errs:
                    raise Infra('lake build failed without a parsable Lean error:\n' + btxt[-3000:])
                for e in errs:
                    k = gen_decl_to_skip(e)
                    if k and k not in skip:
                        more.add(k)
                for e in errs[:10]:
                    what = f"{e['file']}:{e['line']} in `{e['decl']}`: {e['message']}"
                    missing = [f"{k} was not translated ({m_})" for k, m_ in st['failed'].items()
                               if k.split('.')[-1] in e['message']]
                    broken.append({'kind': 'proof', 'what': what + (' — ' + '; '.join(missing)[:300] if missing else ''), **e})
            drv_targets = (['geodrv'] if P.get('needs_driver', True) else []) + list(P.get('drivers', []))
            if drv_targets:
                dok, dtxt = lake_build(drv_targets)
                if not dok:
                    drv_ok = False
                    errs = parse_build_errors(dtxt)
                    if not errs:
                        raise Infra('driver build failed without a parsable Lean error:\n' + dtxt[-3000:])
                    for e in errs:
                        k = gen_decl_to_skip(e)
                        if k and k not in skip:
                            more.add(k)
                    for e in errs[:5]:
                        broken.append({'kind': 'model-build', 'what': f"{e['file']}:{e['line']} in `{e['decl']}`: {e['message']}", **e})
            if not more:
                break
            skip |= more
        if skip:
            notes.append('generated text excluded after a Lean error: ' + ', '.join(sorted(skip)))
        # 3. AUDIT
        if build_ok and module:
            thms = audit(module, ns, more_mods)
            native_ok = set(P.get('native_theorems', []))
            for n, ax in thms.items():
                extra = set(ax) - STD_AXIOMS
                if extra and not (extra <= NATIVE_AXIOMS and n in native_ok):
                    broken.append({'kind': 'axioms', 'what': f'{n} depends on {sorted(extra)}'})
            hits = grep_forbidden([module] + more_mods + list(P.get('extra_modules', [])),
                                  allow_native_in=P.get('native_files', ()))
            for h in hits:
                broken.append({'kind': 'forbidden-token', 'what': h})
            required = P.get('required_theorems', [])
            for r in required:
                if f'{ns}.{r}' not in thms:
                    broken.append({'kind': 'missing-theorem', 'what': f'{ns}.{r} is not a theorem of {module}'})
            if tier_ == 'thorough' and P.get('leanchecker', True):
                rc, out, err = run(['lake', 'env', 'leanchecker', module], cwd=LEAN, timeout=3000)
                cov['leanchecker'] = 'ok' if rc == 0 else f'rc={rc}'
                if rc != 0 and rc != 124:
                    broken.append({'kind': 'leanchecker', 'what': (out + err)[-400:]})

    # 3b. DRIFT of hand-modelled source (harness/drift.py): functions the hand model covers whose text is no longer
    #     what the model was validated against -> larger budgets and literal-directed inputs below; never a verdict
    drift = {'changed': [], 'literals': []}
    try:
        sys.path.insert(0, os.path.join(VERIF, 'harness'))
        import drift as drift_mod
        drift = drift_mod.detect(pid, REPO)
    except Exception as ex:      # noqa
        notes.append(f'drift detection unavailable: {ex}')
    if drift['changed']:
        env['VERIF_AIMED'] = '1'
        env['VERIF_SCALE'] = '3'
        env['VERIF_DRIFT'] = json.dumps(drift)
        notes.append('hand-modelled source changed since the model was validated: ' + ', '.join(drift['changed'][:12]))

    # 4. TIE
    tie_rep = None
    tie_fns = [f for f in P.get('tie_functions', []) if base_fn(f) not in st.get('failed', {})]
    if drv_ok and tie_fns:
        n = P.get('tie_n', {}).get(tier_, 2000 if tier_ == 'quick' else 100000)
        outp = os.path.join(WORK, f'tie_{pid}_{os.getpid()}.json')
        cmd = [PY, os.path.join(VERIF, 'harness', 'tie.py'), '--functions', ','.join(tie_fns),
               '--n', str(n), '--out', outp]
        if P.get('tie_ulps'):
            cmd += ['--ulps', ','.join(f'{k}={v}' for k, v in P['tie_ulps'].items())]
        rc, tie_rep, txt = run_json_tool(cmd, outp, 3000, env)
        os.remove(outp)
        for d in tie_rep['disagreements'][:5]:
            broken.append({'kind': 'tie', 'what': f"{d['function']}{d['args']}: impl={d['impl'][:80]} model={d['model'][:80]} ({d['diff']})", **d})
    # hand-model correspondence (model driver implemented by the property's own script)
    corr_rep = None
    corr_violations = []
    if P.get('correspondence') and (drv_ok or P.get('corr_independent')):
        outp = os.path.join(WORK, f'corr_{pid}_{os.getpid()}.json')
        cmd = [PY, os.path.join(VERIF, 'harness', P['correspondence']), '--out', outp]
        rc, corr_rep, txt = run_json_tool(cmd, outp, 3000, env)
        os.remove(outp)
        for d in corr_rep.get('disagreements', [])[:5]:
            broken.append({'kind': 'correspondence', 'what': d.get('what', str(d))[:300], **{k: v for k, v in d.items() if k != 'what'}})
        corr_violations = corr_rep.get('violations', [])

    # 5. SEARCH on the real implementation
    search_rep = {'evaluations': 0, 'violations': [], 'samples': [], 'stats': {}}
    if P.get('probe'):
        outp = os.path.join(WORK, f'probe_{pid}_{os.getpid()}.json')
        interp = PYVT if P.get('probe_python') == 'vt' else PY
        penv = dict(env)
        if interp == PYVT:
            penv['PYTHONPATH'] = REPO + (':' + os.environ['PYTHONPATH'] if os.environ.get('PYTHONPATH') else '')
        if broken:
            penv['VERIF_AIMED'] = '1'
        cmd = [interp, os.path.join(VERIF, 'harness', 'probes', P['probe']), '--out', outp]
        rc, search_rep, txt = run_json_tool(cmd, outp, 3400, penv)
        os.remove(outp)

    # 5b. AIMED history search: a proof or tie broke and the property's own search found no failing input — look for
    #     a call HISTORY on which the property's functions return different results (state carried between calls):
    #     every call of random, ellipsoid/transformation-sharing sequences is replayed alone and in reversed order in
    #     fresh processes (the C09 harness); a difference on one of this property's functions is a failing history.
    known_open = [k for k in load_known() if k.get('property') == pid and k.get('status', 'open') == 'open']

    def is_known(v):
        key = v.get('key', '')
        return any(key == k['key'] or (k.get('prefix') and key.startswith(k['key'])) for k in known_open)
    fresh = [v for v in list(search_rep.get('violations', [])) + list(corr_violations) if not is_known(v)]
    if broken and not fresh and P.get('tie_functions') and pid != 'C09':
        outp = os.path.join(WORK, f'hist_{pid}_{os.getpid()}.json')
        try:
            fns = set(P['tie_functions']) | {f.split('.')[-1] for f in P['tie_functions']}
            henv = dict(env)
            henv['VERIF_FOCUS'] = ','.join(sorted({base_fn(f) for f in P['tie_functions']} | set(P['tie_functions'])))
            rc, hist_rep, txt = run_json_tool([PY, os.path.join(VERIF, 'harness', 'corr_purity.py'), '--out', outp,
                                               '--sequences', '100', '--xsequences', '160'], outp, 1200, henv)
            os.remove(outp)
            for v in hist_rep.get('violations', []):
                if any(f in v.get('key', '') for f in fns):
                    v = dict(v)
                    v['key'] = 'history:' + v['key']
                    search_rep.setdefault('violations', []).append(v)
            search_rep['evaluations'] = search_rep.get('evaluations', 0) + hist_rep.get('evaluations', 0)
        except Infra:
            pass

    # 6. VERDICT
    known = [k for k in load_known() if k.get('property') == pid and k.get('status', 'open') == 'open']
    new_violations = []
    known_hit = {}
    for v in list(search_rep.get('violations', [])) + list(corr_violations):
        key = v.get('key', '')
        match = None
        for k in known:
            if key == k['key'] or (k.get('prefix') and key.startswith(k['key'])):
                match = k
                break
        if match:
            known_hit.setdefault(match['key'], (match, v))
        else:
            new_violations.append(v)
    for key, (k, v) in known_hit.items():
        log(f"KNOWN-FINDING: property={pid} {k['what']}")
    rc_final = 0
    if new_violations:
        v = new_violations[0]
        path = write_replay(pid, {'property': pid, 'kind': 'failing-input', 'violation': v,
                                  'other_violations': new_violations[1:10], 'broken': broken,
                                  'seed': seed, 'tier': tier_,
                                  'how_to_rerun': f'cd /verif && ./check --replay <this file>'})
        log(f'VIOLATION property={pid} replay={path}')
        rc_final = 1
    elif broken:
        path = write_replay(pid, {'property': pid, 'kind': 'unproved', 'broken': broken, 'seed': seed, 'tier': tier_,
                                  'note': 'a proof obligation or the model/code tie no longer checks and the search '
                                          'over the implementation found no input violating the property'})
        for b in broken[:5]:
            log(f"  no longer checks: [{b['kind']}] {b['what'][:300]}")
        log(f'VIOLATION property={pid} replay={path} no-failing-input-found')
        rc_final = 1

    # 7. EVIDENCE
    obligations = len(thms) if thms else max(1, count_theorems(module))
    discharged = len(thms) if build_ok else 0
    evals = search_rep.get('evaluations', 0) + (tie_rep or {}).get('evaluations', 0) + (corr_rep or {}).get('evaluations', 0)
    dn = search_rep.get('distinct_nontrivial', 0)
    if tie_rep:
        dn += sum(f['distinct_ok_inputs'] for f in tie_rep['functions'].values())
    if corr_rep:
        dn += corr_rep.get('distinct_nontrivial', 0)
    samples = list(search_rep.get('samples', []))[:8]
    if tie_rep:
        samples += [{'tie': fn, **f['sample']} for fn, f in list(tie_rep['functions'].items())[:6] if f.get('sample')]
    if corr_rep:
        samples += corr_rep.get('samples', [])[:6]
    samples += [{'theorem': n, 'axioms': ax} for n, ax in list(thms.items())[:40]]
    cov.update({
        'obligations': obligations,
        'discharged': discharged,
        'checker_cmd': f'cd /verif/lean && lake build {module or ""} && lake env lean <audit of namespace {ns}>',
        'trusted_base': P.get('trusted_base', []) + COMMON_TB,
        'theorems': {n: ax for n, ax in thms.items()},
        'evaluations': evals,
        'distinct_nontrivial': dn,
        'rule': P.get('rule', ''),
        'samples': samples if samples else [{'note': 'no samples (build broken)'}],
        'tie': {fn: {k: v for k, v in f.items() if k != 'sample'} for fn, f in (tie_rep or {'functions': {}})['functions'].items()},
        'correspondence': {k: v for k, v in (corr_rep or {}).items() if k not in ('samples', 'disagreements')},
        'search_stats': search_rep.get('stats', {}),
        'broken': broken,
        'notes': notes,
        'model_source_drift': drift['changed'],
        'known_findings_reproduced': sorted(known_hit.keys()),
        'exhaustive': False,
    })
    if not build_ok or not thms:
        # the proof did not check on this run: do not claim discharged obligations (schema: the proof keys are
        # only valid with discharged >= 1); the generic counts below still describe what was explored
        cov.pop('discharged', None)
        cov['proof_status'] = 'NOT CHECKED on this run (see "broken")'
    ev = {
        'property_id': pid, 'tier': tier_, 'seed': seed, 'level': 'proof',
        'coverage': cov,
        'assumptions': P.get('assumptions', []),
        'wall_s': round(time.time() - t0, 2),
        'violations': len(new_violations) + (1 if broken and not new_violations else 0),
    }
    json.dump(ev, open(os.path.join(VERIF, 'evidence', f'{pid}.json'), 'w'), indent=1, sort_keys=True, default=str)
    log(f'{pid} {tier_}: theorems={len(thms)} tie_evals={(tie_rep or {}).get("evaluations", 0)} '
        f'search_evals={search_rep.get("evaluations", 0)} new_violations={len(new_violations)} broken={len(broken)} '
        f'wall={ev["wall_s"]}s')
    return rc_final


COMMON_TB = [
    'Lean 4.33.0 kernel; Mathlib v4.33.0 as compiled in the image',
    'axioms of every listed theorem ⊆ {propext, Classical.choice, Quot.sound} (audited on this run)',
    'translator/py2lean.py and the real-number reading of the Python primitives in Num/PyR.lean '
    '(validated on this run by bit-level differential execution of the Float instance, not proved)',
    'binary64 rounding of arithmetic and libm calls is modelled (Float instance), not verified',
]


def count_theorems(module):
    if not module:
        return 0
    p = os.path.join(LEAN, module.replace('.', '/') + '.lean')
    try:
        return len(re.findall(r'^\s*theorem\s', open(p).read(), flags=re.M))
    except OSError:
        return 0


def setup():
    with Lock():
        st = regen()
        if st['fatal'] or st['failed'] or not st['effects'][0] or not st['api'][0] or not st['coord'][0] or not st['ntv2d'][0] or not st['angles'][0]:
            log('setup: translator failed: ' + json.dumps(st)[:2000])
            return 2
        import propdefs
        targets = ['geodrv']
        for pid, P in propdefs.PROPS.items():
            if P.get('module'):
                targets.append(P['module'])
            targets += P.get('extra_modules', [])
            targets += list(P.get('more_proof_modules', ()))
            targets += P.get('drivers', [])
        ok, txt = lake_build(sorted(set(targets)), timeout=7000)
        if not ok:
            log(txt[-5000:])
            return 2
    log('setup ok')
    return 0


def replay(path):
    obj = json.load(open(path))
    pid = obj['property']
    import propdefs
    P = propdefs.PROPS[pid]
    key = (obj.get('violation') or {}).get('key', '')
    if obj.get('kind') == 'failing-input' and key.startswith('history:'):
        # a failing call history found by the cross-process harness: re-run exactly that sequence
        head = (obj['violation'].get('input') or [''])[0]
        m = re.match(r'replay: (.*)corr_purity\.py (--x?seq) (\d+)', head)
        if m:
            env = dict(kv.split('=', 1) for kv in m.group(1).split() if '=' in kv)
            outp = os.path.join(WORK, f'replay_hist_{os.getpid()}.json')
            os.makedirs(WORK, exist_ok=True)
            rc, out, err = run([PY, os.path.join(VERIF, 'harness', 'corr_purity.py'), '--out', outp, m.group(2), m.group(3)],
                               cwd=VERIF, env=env, timeout=1200)
            rep = json.load(open(outp)) if os.path.exists(outp) else {}
            if os.path.exists(outp):
                os.remove(outp)
            hits = [v for v in rep.get('violations', []) if ('history:' + v.get('key', '')) == key]
            for v in hits[:3]:
                log(json.dumps(v, indent=1)[:3000])
            log(f'replay: {len(hits)} violation(s) with key {key[8:]} reproduced')
            if hits:
                log(f'VIOLATION property={pid} replay={path}')
            return 1 if hits else 0
    if obj.get('kind') == 'failing-input' and P.get('probe'):
        interp = PYVT if P.get('probe_python') == 'vt' else PY
        env = {}
        if interp == PYVT:
            env['PYTHONPATH'] = REPO
        rc, out, err = run([interp, os.path.join(VERIF, 'harness', 'probes', P['probe']), '--replay', path],
                           cwd=VERIF, env=env, timeout=3000)
        sys.stdout.write(out)
        sys.stderr.write(err)
        return rc
    log(json.dumps(obj.get('broken', obj), indent=1)[:4000])
    return check_property(pid, obj.get('tier', 'quick'))


def main():
    a = sys.argv[1:]
    try:
        if a and a[0] == '--setup':
            sys.exit(setup())
        if len(a) == 2 and a[0] == '--replay':
            sys.exit(replay(a[1]))
        if len(a) != 2 or a[1] not in ('quick', 'thorough'):
            print(__doc__)
            sys.exit(2)
        os.environ['VERIF_TIER'] = a[1]
        sys.exit(check_property(a[0], a[1]))
    except Infra as e:
        log(f'INFRASTRUCTURE-ERROR: {e}')
        sys.exit(2)


if __name__ == '__main__':
    main()
